// Package ref holds the reference models: encoders/decoders transcribed from ISO/IEC 13818-1
// and ETSI EN 300 468 (DESIGN.md appendix A). It shares no code with the library under test.
package ref

// W is an MSB-first bit writer.
type W struct {
	b    []byte
	nbit uint // bits used in the last byte (0 = byte aligned)
}

// U writes the low n bits of v, most significant first.
func (w *W) U(v uint64, n int) *W {
	if w.nbit == 0 && n&7 == 0 { // byte-aligned whole bytes
		for i := n - 8; i >= 0; i -= 8 {
			w.b = append(w.b, byte(v>>uint(i)))
		}
		return w
	}
	for i := n - 1; i >= 0; i-- {
		bit := byte(v>>uint(i)) & 1
		if w.nbit == 0 {
			w.b = append(w.b, 0)
		}
		w.b[len(w.b)-1] |= bit << (7 - w.nbit)
		w.nbit = (w.nbit + 1) & 7
	}
	return w
}

// B writes one flag bit.
func (w *W) B(f bool) *W {
	if f {
		return w.U(1, 1)
	}
	return w.U(0, 1)
}

// Ones writes n reserved bits set to 1.
func (w *W) Ones(n int) *W { return w.U(^uint64(0), n) }

// Bytes appends whole bytes (writer must be byte aligned).
func (w *W) Bytes(bs []byte) *W {
	if w.nbit != 0 {
		panic("ref.W: unaligned Bytes")
	}
	w.b = append(w.b, bs...)
	return w
}

func (w *W) Out() []byte {
	if w.nbit != 0 {
		panic("ref.W: unaligned Out")
	}
	return w.b
}

func (w *W) Len() int { return len(w.b) }

// R is an MSB-first bit reader; reading past the end sets Err.
type R struct {
	b   []byte
	pos int // bit position
	Err bool
}

func NewR(b []byte) *R { return &R{b: b} }

func (r *R) U(n int) uint64 {
	var v uint64
	for i := 0; i < n; i++ {
		if r.pos>>3 >= len(r.b) {
			r.Err = true
			return 0
		}
		bit := (r.b[r.pos>>3] >> (7 - uint(r.pos&7))) & 1
		v = v<<1 | uint64(bit)
		r.pos++
	}
	return v
}

func (r *R) B() bool { return r.U(1) == 1 }

func (r *R) Bytes(n int) []byte {
	if r.pos&7 != 0 {
		panic("ref.R: unaligned Bytes")
	}
	o := r.pos >> 3
	if n < 0 || o+n > len(r.b) {
		r.Err = true
		return nil
	}
	r.pos += n * 8
	return append([]byte{}, r.b[o:o+n]...)
}

func (r *R) Off() int  { return r.pos >> 3 }
func (r *R) Left() int { return len(r.b) - r.pos>>3 }
