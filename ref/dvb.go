package ref

import "time"

// EN 300 468 annex C: MJD = days since 1858-11-17; reference conversion by integer day
// counting (never by the annex's floating-point formulas, which are what the library uses).

var mjdEpoch = time.Date(1858, 11, 17, 0, 0, 0, 0, time.UTC)

// MJDToDate returns the calendar date of an MJD value.
func MJDToDate(mjd int) time.Time { return mjdEpoch.AddDate(0, 0, mjd) }

// DateToMJD counts whole days since the epoch.
func DateToMJD(t time.Time) int {
	d := time.Date(t.Year(), t.Month(), t.Day(), 0, 0, 0, 0, time.UTC)
	return int(d.Sub(mjdEpoch).Hours() / 24)
}

// BCD2 encodes 0..99 as two 4-bit decimal digits.
func BCD2(n int) byte { return byte(n/10)<<4 | byte(n%10) }

// FromBCD2 decodes two 4-bit digits digit-wise (also defined for non-decimal nibbles:
// 10*hi + lo, the digit-wise definition).
func FromBCD2(b byte) int { return int(b>>4)*10 + int(b&0xf) }

// DVBTime encodes a UTC time as MJD (16 bits) + hh mm ss in BCD.
func DVBTime(t time.Time) [5]byte {
	t = t.UTC()
	m := DateToMJD(t)
	return [5]byte{byte(m >> 8), byte(m), BCD2(t.Hour()), BCD2(t.Minute()), BCD2(t.Second())}
}

// ParseDVBTime decodes the five bytes digit-wise.
func ParseDVBTime(b [5]byte) time.Time {
	d := MJDToDate(int(b[0])<<8 | int(b[1]))
	return d.Add(time.Duration(FromBCD2(b[2]))*time.Hour + time.Duration(FromBCD2(b[3]))*time.Minute + time.Duration(FromBCD2(b[4]))*time.Second)
}

// DurationHMS encodes a duration as BCD hh mm ss.
func DurationHMS(d time.Duration) [3]byte {
	s := int(d / time.Second)
	return [3]byte{BCD2(s / 3600), BCD2(s / 60 % 60), BCD2(s % 60)}
}

// DurationHM encodes a duration as BCD hh mm.
func DurationHM(d time.Duration) [2]byte {
	m := int(d / time.Minute)
	return [2]byte{BCD2(m / 60), BCD2(m % 60)}
}
