package ref

import "encoding/binary"

// Section framing, ISO/IEC 13818-1 2.4.4 and EN 300 468 5.1.

type SecHdr struct {
	TableID uint8
	SSI     bool // section_syntax_indicator
	Private bool // private_indicator / reserved_future_use bit
	Ext     uint16
	Version uint8
	CNI     bool
	SN, LSN uint8
}

// Long returns a long-form section (5-byte syntax header, body, CRC_32).
func Long(h SecHdr, body []byte) []byte {
	w := &W{}
	w.U(uint64(h.TableID), 8).B(h.SSI).B(h.Private).Ones(2).U(uint64(5+len(body)+4), 12)
	w.U(uint64(h.Ext), 16).Ones(2).U(uint64(h.Version), 5).B(h.CNI).U(uint64(h.SN), 8).U(uint64(h.LSN), 8)
	w.Bytes(body)
	return appendCRC(w.Out())
}

// Short returns a short-form section (no syntax header); TOT has a CRC, TDT has none.
func Short(tableID uint8, ssi, private bool, body []byte, withCRC bool) []byte {
	n := len(body)
	if withCRC {
		n += 4
	}
	w := &W{}
	w.U(uint64(tableID), 8).B(ssi).B(private).Ones(2).U(uint64(n), 12).Bytes(body)
	if withCRC {
		return appendCRC(w.Out())
	}
	return w.Out()
}

func appendCRC(b []byte) []byte {
	var c [4]byte
	binary.BigEndian.PutUint32(c[:], CRC(b))
	return append(b, c[:]...)
}

// Loop12 prefixes a descriptor loop with 4 reserved bits and its 12-bit length.
func Loop12(top4 uint8, loop []byte) []byte {
	w := &W{}
	w.U(uint64(top4), 4).U(uint64(len(loop)), 12).Bytes(loop)
	return w.Out()
}

type PATEntry struct{ Number, PID uint16 }

func PATBody(es []PATEntry) []byte {
	w := &W{}
	for _, e := range es {
		w.U(uint64(e.Number), 16).Ones(3).U(uint64(e.PID), 13)
	}
	return w.Out()
}

type PMTStream struct {
	Type  uint8
	PID   uint16
	Descs []byte // encoded descriptor loop
}

func PMTBody(pcrPID uint16, progDescs []byte, ss []PMTStream) []byte {
	w := &W{}
	w.Ones(3).U(uint64(pcrPID), 13).Bytes(Loop12(0xf, progDescs))
	for _, s := range ss {
		w.U(uint64(s.Type), 8).Ones(3).U(uint64(s.PID), 13).Bytes(Loop12(0xf, s.Descs))
	}
	return w.Out()
}

type SDTService struct {
	ID       uint16
	EITSched bool
	EITPF    bool
	Running  uint8
	FreeCA   bool
	Descs    []byte
}

func SDTBody(onid uint16, ss []SDTService) []byte {
	w := &W{}
	w.U(uint64(onid), 16).Ones(8)
	for _, s := range ss {
		w.U(uint64(s.ID), 16).Ones(6).B(s.EITSched).B(s.EITPF).U(uint64(s.Running), 3).B(s.FreeCA).U(uint64(len(s.Descs)), 12).Bytes(s.Descs)
	}
	return w.Out()
}

type NITTS struct {
	TSID, ONID uint16
	Descs      []byte
}

func NITBody(netDescs []byte, tss []NITTS) []byte {
	loop := &W{}
	for _, t := range tss {
		loop.U(uint64(t.TSID), 16).U(uint64(t.ONID), 16).Bytes(Loop12(0xf, t.Descs))
	}
	w := &W{}
	w.Bytes(Loop12(0xf, netDescs)).Bytes(Loop12(0xf, loop.Out()))
	return w.Out()
}

type EITEvent struct {
	ID       uint16
	Start    [5]byte // MJD + BCD hhmmss
	Duration [3]byte // BCD hhmmss
	Running  uint8
	FreeCA   bool
	Descs    []byte
}

func EITBody(tsid, onid uint16, segLast, lastTable uint8, evs []EITEvent) []byte {
	w := &W{}
	w.U(uint64(tsid), 16).U(uint64(onid), 16).U(uint64(segLast), 8).U(uint64(lastTable), 8)
	for _, e := range evs {
		w.U(uint64(e.ID), 16).Bytes(e.Start[:]).Bytes(e.Duration[:]).U(uint64(e.Running), 3).B(e.FreeCA).U(uint64(len(e.Descs)), 12).Bytes(e.Descs)
	}
	return w.Out()
}

func TOTBody(utc [5]byte, descs []byte) []byte {
	w := &W{}
	w.Bytes(utc[:]).Bytes(Loop12(0xf, descs))
	return w.Out()
}

// ---------------------------------------------------------------------------------------
// Independent section validator / decoder.

type RawSection struct {
	TableID  uint8
	SSI      bool
	Private  bool
	Length   int
	Bytes    []byte // whole section, table_id .. last byte
	Complete bool   // all section_length bytes are present
	Kind     string // PAT PMT NIT SDT EIT TOT or "" (not one of the six deliverable tables)
	CRCOK    bool   // meaningful when Kind != ""
	Hdr      SecHdr // long-form fields when Kind has a syntax header and length >= 5
	Body     []byte // between syntax header (if any) and CRC
}

// TableKind maps a table_id to one of the six table types the library delivers.
func TableKind(id uint8) string {
	switch {
	case id == 0x00:
		return "PAT"
	case id == 0x02:
		return "PMT"
	case id == 0x40 || id == 0x41:
		return "NIT"
	case id == 0x42 || id == 0x46:
		return "SDT"
	case id >= 0x4e && id <= 0x6f:
		return "EIT"
	case id == 0x73:
		return "TOT"
	}
	return ""
}

// ParseUnit walks a PSI unit payload (pointer_field first) and returns its sections up to the
// first 0xFF table_id or the end of the payload.
func ParseUnit(pl []byte) (secs []RawSection, wellFramed bool) {
	if len(pl) == 0 {
		return nil, false
	}
	o := 1 + int(pl[0])
	if o > len(pl) {
		return nil, false
	}
	for o < len(pl) {
		if pl[o] == 0xff {
			return secs, true
		}
		if o+3 > len(pl) {
			return secs, false
		}
		s := RawSection{TableID: pl[o], SSI: pl[o+1]&0x80 != 0, Private: pl[o+1]&0x40 != 0}
		s.Length = int(pl[o+1]&0x0f)<<8 | int(pl[o+2])
		s.Kind = TableKind(s.TableID)
		end := o + 3 + s.Length
		if end > len(pl) {
			s.Bytes = pl[o:]
			secs = append(secs, s)
			return secs, false
		}
		s.Complete = true
		s.Bytes = pl[o:end]
		if s.Kind != "" && s.Length >= 4 {
			s.CRCOK = CRC(s.Bytes) == 0
			body := s.Bytes[3 : len(s.Bytes)-4]
			if s.Kind != "TOT" {
				if len(body) >= 5 {
					r := NewR(body)
					s.Hdr = SecHdr{TableID: s.TableID, SSI: s.SSI, Private: s.Private}
					s.Hdr.Ext = uint16(r.U(16))
					r.U(2)
					s.Hdr.Version = uint8(r.U(5))
					s.Hdr.CNI = r.B()
					s.Hdr.SN = uint8(r.U(8))
					s.Hdr.LSN = uint8(r.U(8))
					s.Body = body[5:]
				} else {
					s.CRCOK = false
				}
			} else {
				s.Body = body
			}
		}
		secs = append(secs, s)
		o = end
	}
	return secs, true
}

// DecodePAT decodes a PAT body.
func DecodePAT(body []byte) (es []PATEntry, ok bool) {
	if len(body)%4 != 0 {
		return nil, false
	}
	for i := 0; i < len(body); i += 4 {
		es = append(es, PATEntry{Number: binary.BigEndian.Uint16(body[i:]), PID: binary.BigEndian.Uint16(body[i+2:]) & 0x1fff})
	}
	return es, true
}

// DecodePMT decodes a PMT body, leaving descriptor loops as raw bytes.
func DecodePMT(body []byte) (pcr uint16, prog []byte, ss []PMTStream, ok bool) {
	if len(body) < 4 {
		return
	}
	pcr = binary.BigEndian.Uint16(body) & 0x1fff
	n := int(binary.BigEndian.Uint16(body[2:]) & 0x0fff)
	if 4+n > len(body) {
		return
	}
	prog = body[4 : 4+n]
	o := 4 + n
	for o < len(body) {
		if o+5 > len(body) {
			return
		}
		s := PMTStream{Type: body[o], PID: binary.BigEndian.Uint16(body[o+1:]) & 0x1fff}
		l := int(binary.BigEndian.Uint16(body[o+3:]) & 0x0fff)
		if o+5+l > len(body) {
			return
		}
		s.Descs = body[o+5 : o+5+l]
		ss = append(ss, s)
		o += 5 + l
	}
	return pcr, prog, ss, true
}
