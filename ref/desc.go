package ref

import (
	astits "github.com/asticode/go-astits"
)

// Descriptor encoders, transcribed from ISO/IEC 13818-1 2.6 and EN 300 468 6.2 / annex D
// (DESIGN.md appendix A). The library's exported Descriptor struct is used as a plain value
// carrier; the (redundant) Length field of the struct is ignored: descriptor_length is always
// the number of body bytes.

func pad3(b []byte) []byte { // language / country codes are exactly 3 bytes
	o := make([]byte, 3)
	copy(o, b)
	return o
}

// DescBody returns the body bytes of a descriptor (without tag and length).
func DescBody(d *astits.Descriptor) []byte {
	w := &W{}
	if d.Tag >= 0x80 && d.Tag <= 0xfe {
		return append([]byte{}, d.UserDefined...)
	}
	switch d.Tag {
	case 0x05: // registration
		x := d.Registration
		w.U(uint64(x.FormatIdentifier), 32).Bytes(x.AdditionalIdentificationInfo)
	case 0x06: // data stream alignment
		w.U(uint64(d.DataStreamAlignment.Type), 8)
	case 0x0a: // ISO 639 language
		x := d.ISO639LanguageAndAudioType
		w.Bytes(pad3(x.Language)).U(uint64(x.Type), 8)
	case 0x0e: // maximum bitrate, units of 50 bytes/s
		w.Ones(2).U(uint64(d.MaximumBitrate.Bitrate/50), 22)
	case 0x0f:
		w.U(uint64(d.PrivateDataIndicator.Indicator), 32)
	case 0x28: // AVC video
		x := d.AVCVideo
		w.U(uint64(x.ProfileIDC), 8).B(x.ConstraintSet0Flag).B(x.ConstraintSet1Flag).B(x.ConstraintSet2Flag).U(uint64(x.CompatibleFlags), 5)
		w.U(uint64(x.LevelIDC), 8).B(x.AVCStillPresent).B(x.AVC24HourPictureFlag).Ones(6)
	case 0x40:
		w.Bytes(d.NetworkName.Name)
	case 0x45: // VBI data
		for _, s := range d.VBIData.Services {
			w.U(uint64(s.DataServiceID), 8)
			switch s.DataServiceID {
			case 1, 2, 4, 5, 6, 7:
				w.U(uint64(len(s.Descriptors)), 8)
				for _, l := range s.Descriptors {
					w.Ones(2).B(l.FieldParity).U(uint64(l.LineOffset), 5)
				}
			default: // reserved bytes: the standard leaves them open; one 0xFF byte
				w.U(1, 8).U(0xff, 8)
			}
		}
	case 0x46, 0x56: // VBI teletext, teletext
		x := d.Teletext
		if d.Tag == 0x46 {
			x = d.VBITeletext
		}
		for _, it := range x.Items {
			w.Bytes(pad3(it.Language)).U(uint64(it.Type), 5).U(uint64(it.Magazine), 3).U(uint64(it.Page/10), 4).U(uint64(it.Page%10), 4)
		}
	case 0x48: // service
		x := d.Service
		w.U(uint64(x.Type), 8).U(uint64(len(x.Provider)), 8).Bytes(x.Provider).U(uint64(len(x.Name)), 8).Bytes(x.Name)
	case 0x4d: // short event
		x := d.ShortEvent
		w.Bytes(pad3(x.Language)).U(uint64(len(x.EventName)), 8).Bytes(x.EventName).U(uint64(len(x.Text)), 8).Bytes(x.Text)
	case 0x4e: // extended event
		x := d.ExtendedEvent
		items := &W{}
		for _, it := range x.Items {
			items.U(uint64(len(it.Description)), 8).Bytes(it.Description).U(uint64(len(it.Content)), 8).Bytes(it.Content)
		}
		w.U(uint64(x.Number), 4).U(uint64(x.LastDescriptorNumber), 4).Bytes(pad3(x.ISO639LanguageCode))
		w.U(uint64(items.Len()), 8).Bytes(items.Out()).U(uint64(len(x.Text)), 8).Bytes(x.Text)
	case 0x50: // component
		x := d.Component
		w.U(uint64(x.StreamContentExt), 4).U(uint64(x.StreamContent), 4).U(uint64(x.ComponentType), 8).U(uint64(x.ComponentTag), 8).Bytes(pad3(x.ISO639LanguageCode)).Bytes(x.Text)
	case 0x52:
		w.U(uint64(d.StreamIdentifier.ComponentTag), 8)
	case 0x54: // content
		for _, it := range d.Content.Items {
			w.U(uint64(it.ContentNibbleLevel1), 4).U(uint64(it.ContentNibbleLevel2), 4).U(uint64(it.UserByte), 8)
		}
	case 0x55: // parental rating
		for _, it := range d.ParentalRating.Items {
			w.Bytes(pad3(it.CountryCode)).U(uint64(it.Rating), 8)
		}
	case 0x58: // local time offset
		for _, it := range d.LocalTimeOffset.Items {
			lo, no, tc := DurationHM(it.LocalTimeOffset), DurationHM(it.NextTimeOffset), DVBTime(it.TimeOfChange)
			w.Bytes(pad3(it.CountryCode)).U(uint64(it.CountryRegionID), 6).Ones(1).B(it.LocalTimeOffsetPolarity)
			w.Bytes(lo[:]).Bytes(tc[:]).Bytes(no[:])
		}
	case 0x59: // subtitling
		for _, it := range d.Subtitling.Items {
			w.Bytes(pad3(it.Language)).U(uint64(it.Type), 8).U(uint64(it.CompositionPageID), 16).U(uint64(it.AncillaryPageID), 16)
		}
	case 0x5f:
		w.U(uint64(d.PrivateDataSpecifier.Specifier), 32)
	case 0x6a: // AC-3
		x := d.AC3
		w.B(x.HasComponentType).B(x.HasBSID).B(x.HasMainID).B(x.HasASVC).Ones(4)
		if x.HasComponentType {
			w.U(uint64(x.ComponentType), 8)
		}
		if x.HasBSID {
			w.U(uint64(x.BSID), 8)
		}
		if x.HasMainID {
			w.U(uint64(x.MainID), 8)
		}
		if x.HasASVC {
			w.U(uint64(x.ASVC), 8)
		}
		w.Bytes(x.AdditionalInfo)
	case 0x7a: // enhanced AC-3
		x := d.EnhancedAC3
		w.B(x.HasComponentType).B(x.HasBSID).B(x.HasMainID).B(x.HasASVC).B(x.MixInfoExists).B(x.HasSubStream1).B(x.HasSubStream2).B(x.HasSubStream3)
		for _, f := range []struct {
			on bool
			v  uint8
		}{{x.HasComponentType, x.ComponentType}, {x.HasBSID, x.BSID}, {x.HasMainID, x.MainID}, {x.HasASVC, x.ASVC}, {x.HasSubStream1, x.SubStream1}, {x.HasSubStream2, x.SubStream2}, {x.HasSubStream3, x.SubStream3}} {
			if f.on {
				w.U(uint64(f.v), 8)
			}
		}
		w.Bytes(x.AdditionalInfo)
	case 0x7f: // extension
		x := d.Extension
		w.U(uint64(x.Tag), 8)
		if x.Tag == 0x06 { // supplementary audio
			s := x.SupplementaryAudio
			w.B(s.MixType).U(uint64(s.EditorialClassification), 5).Ones(1).B(s.HasLanguageCode)
			if s.HasLanguageCode {
				w.Bytes(pad3(s.LanguageCode))
			}
			w.Bytes(s.PrivateData)
		} else if x.Unknown != nil {
			w.Bytes(*x.Unknown)
		}
	default:
		if d.Unknown != nil {
			w.Bytes(d.Unknown.Content)
		}
	}
	return w.Out()
}

// Desc returns tag, length, body.
func Desc(d *astits.Descriptor) []byte {
	b := DescBody(d)
	return append([]byte{d.Tag, byte(len(b))}, b...)
}

// DescLoop concatenates descriptors (without the enclosing 12-bit length).
func DescLoop(ds []*astits.Descriptor) []byte {
	var o []byte
	for _, d := range ds {
		o = append(o, Desc(d)...)
	}
	return o
}
