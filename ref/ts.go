package ref

import (
	"errors"
	"fmt"
)

// PCR is a 33-bit base at 90 kHz plus a 9-bit extension at 27 MHz.
type PCR struct {
	Base uint64
	Ext  uint16
}

// AFExt is the adaptation field extension (ISO/IEC 13818-1 2.4.3.5).
type AFExt struct {
	LTW       bool
	LTWValid  bool
	LTWOffset uint16 // 15 bits
	Piecewise bool
	Rate      uint32 // 22 bits
	Seamless  bool
	Splice    uint8  // 4 bits
	DTS       uint64 // 33 bits
	// Decoded only: declared length and reserved trailing bytes
	Len int
}

// AF is an adaptation field (2.4.3.4). Encoding derives adaptation_field_length from the
// parts present plus Stuffing; a nil *AF with HasAF set is not possible: use Zero for the
// adaptation_field_length == 0 form.
type AF struct {
	Zero       bool // adaptation_field_length = 0 (one byte, no flags)
	Disc       bool
	RAI        bool
	ESPrio     bool
	PCR        *PCR
	OPCR       *PCR
	HasSplice  bool
	Splice     uint8
	HasPrivate bool
	Private    []byte
	Ext        *AFExt
	Stuffing   int
	Len        int // decoded only: adaptation_field_length
}

// Pkt is a transport packet (2.4.3.2).
type Pkt struct {
	TEI, PUSI, Prio bool
	PID             uint16
	TSC             uint8
	HasAF, HasPL    bool
	CC              uint8
	AF              *AF
	Payload         []byte
}

func putPCR(w *W, p *PCR) { w.U(p.Base, 33).Ones(6).U(uint64(p.Ext), 9) }

// PutTS33 writes a 33-bit timestamp with a 4-bit prefix and three marker bits (PTS/DTS layout).
func PutTS33(w *W, prefix uint8, t uint64) {
	w.U(uint64(prefix), 4).U(t>>30, 3).U(1, 1).U(t>>15, 15).U(1, 1).U(t, 15).U(1, 1)
}

// EncodeAF returns the adaptation field including its length byte.
func (a *AF) Encode() []byte {
	if a.Zero {
		return []byte{0}
	}
	body := &W{}
	body.B(a.Disc).B(a.RAI).B(a.ESPrio).B(a.PCR != nil).B(a.OPCR != nil).B(a.HasSplice).B(a.HasPrivate).B(a.Ext != nil)
	if a.PCR != nil {
		putPCR(body, a.PCR)
	}
	if a.OPCR != nil {
		putPCR(body, a.OPCR)
	}
	if a.HasSplice {
		body.U(uint64(a.Splice), 8)
	}
	if a.HasPrivate {
		body.U(uint64(len(a.Private)), 8).Bytes(a.Private)
	}
	if e := a.Ext; e != nil {
		x := &W{}
		x.B(e.LTW).B(e.Piecewise).B(e.Seamless).Ones(5)
		if e.LTW {
			x.B(e.LTWValid).U(uint64(e.LTWOffset), 15)
		}
		if e.Piecewise {
			x.Ones(2).U(uint64(e.Rate), 22)
		}
		if e.Seamless {
			PutTS33(x, e.Splice, e.DTS)
		}
		body.U(uint64(x.Len()), 8).Bytes(x.Out())
	}
	for i := 0; i < a.Stuffing; i++ {
		body.U(0xff, 8)
	}
	out := &W{}
	out.U(uint64(body.Len()), 8).Bytes(body.Out())
	return out.Out()
}

// Encode returns the 188-byte packet; it panics if the parts do not add up to 188 bytes
// (the caller - a model - must produce consistent packets). If pad is true a payload-less or
// short packet is padded with 0xFF after the payload (only legal where the caller says so).
func (p *Pkt) Encode() []byte {
	w := &W{}
	w.U(0x47, 8).B(p.TEI).B(p.PUSI).B(p.Prio).U(uint64(p.PID), 13).U(uint64(p.TSC), 2).B(p.HasAF).B(p.HasPL).U(uint64(p.CC), 4)
	if p.HasAF {
		w.Bytes(p.AF.Encode())
	}
	if p.HasPL {
		w.Bytes(p.Payload)
	}
	if w.Len() != 188 {
		panic(fmt.Sprintf("ref.Pkt.Encode: %d bytes (af=%v payload=%d)", w.Len(), p.HasAF, len(p.Payload)))
	}
	return w.Out()
}

// AFSize is the encoded size of the adaptation field including its length byte.
func (a *AF) Size() int { return len(a.Encode()) }

var (
	ErrSync     = errors.New("ref: no sync byte")
	ErrAFC      = errors.New("ref: adaptation_field_control 00")
	ErrAFLen    = errors.New("ref: adaptation_field_length out of range")
	ErrAFInner  = errors.New("ref: adaptation field parts exceed its length")
	ErrAFStuff  = errors.New("ref: adaptation field stuffing is not 0xFF")
	ErrPktShort = errors.New("ref: packet is not 188 bytes")
)

// DecodePkt is the independent ISO 13818-1 packet decoder/validator.
func DecodePkt(b []byte) (*Pkt, error) {
	if len(b) != 188 {
		return nil, ErrPktShort
	}
	if b[0] != 0x47 {
		return nil, ErrSync
	}
	r := NewR(b[1:])
	p := &Pkt{}
	p.TEI, p.PUSI, p.Prio = r.B(), r.B(), r.B()
	p.PID = uint16(r.U(13))
	p.TSC = uint8(r.U(2))
	p.HasAF, p.HasPL = r.B(), r.B()
	p.CC = uint8(r.U(4))
	if !p.HasAF && !p.HasPL {
		return p, ErrAFC
	}
	off := 4
	if p.HasAF {
		l := int(b[4])
		if (p.HasPL && l > 182) || (!p.HasPL && l != 183) {
			return p, ErrAFLen
		}
		a, err := DecodeAF(b[4 : 5+l])
		if err != nil {
			return p, err
		}
		p.AF = a
		off = 5 + l
	}
	if p.HasPL {
		p.Payload = append([]byte{}, b[off:]...)
	}
	return p, nil
}

// DecodeAF decodes an adaptation field given as length byte + exactly that many bytes.
func DecodeAF(b []byte) (*AF, error) {
	a := &AF{Len: int(b[0])}
	if a.Len == 0 {
		a.Zero = true
		return a, nil
	}
	r := NewR(b[1:])
	a.Disc, a.RAI, a.ESPrio = r.B(), r.B(), r.B()
	hasPCR, hasOPCR := r.B(), r.B()
	a.HasSplice, a.HasPrivate = r.B(), r.B()
	hasExt := r.B()
	getPCR := func() *PCR {
		base := r.U(33)
		r.U(6)
		return &PCR{Base: base, Ext: uint16(r.U(9))}
	}
	if hasPCR {
		a.PCR = getPCR()
	}
	if hasOPCR {
		a.OPCR = getPCR()
	}
	if a.HasSplice {
		a.Splice = uint8(r.U(8))
	}
	if a.HasPrivate {
		n := int(r.U(8))
		a.Private = r.Bytes(n)
	}
	if hasExt {
		e := &AFExt{}
		e.Len = int(r.U(8))
		start := r.Off()
		if e.Len > 0 {
			e.LTW, e.Piecewise, e.Seamless = r.B(), r.B(), r.B()
			r.U(5)
			if e.LTW {
				e.LTWValid = r.B()
				e.LTWOffset = uint16(r.U(15))
			}
			if e.Piecewise {
				r.U(2)
				e.Rate = uint32(r.U(22))
			}
			if e.Seamless {
				e.Splice = uint8(r.U(4))
				t := r.U(3) << 30
				r.U(1)
				t |= r.U(15) << 15
				r.U(1)
				t |= r.U(15)
				r.U(1)
				e.DTS = t
			}
		}
		if r.Err || r.Off()-start > e.Len {
			return a, ErrAFInner
		}
		r.Bytes(e.Len - (r.Off() - start)) // reserved bytes
		a.Ext = e
	}
	if r.Err {
		return a, ErrAFInner
	}
	a.Stuffing = r.Left()
	for _, x := range b[1+r.Off():] {
		if x != 0xff {
			return a, ErrAFStuff
		}
	}
	return a, nil
}

// SplitPackets cuts a byte stream into 188-byte packets (the remainder, if any, is returned).
func SplitPackets(b []byte) (pk [][]byte, rest []byte) {
	for len(b) >= 188 {
		pk = append(pk, b[:188])
		b = b[188:]
	}
	return pk, b
}
