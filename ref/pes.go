package ref

// PES packet header, ISO/IEC 13818-1 2.4.3.6-7.

// Trick is the DSM trick mode byte in structured form.
type Trick struct {
	Ctl       uint8 // 3 bits
	FieldID   uint8 // 2 bits (fast forward/reverse, freeze)
	Intra     uint8 // 1 bit
	FreqTrunc uint8 // 2 bits
	Rep       uint8 // 5 bits (slow motion/reverse)
}

func (t *Trick) Byte() byte {
	w := &W{}
	w.U(uint64(t.Ctl), 3)
	switch t.Ctl {
	case 0, 3: // fast forward, fast reverse
		w.U(uint64(t.FieldID), 2).U(uint64(t.Intra), 1).U(uint64(t.FreqTrunc), 2)
	case 1, 4: // slow motion, slow reverse
		w.U(uint64(t.Rep), 5)
	case 2: // freeze frame
		w.U(uint64(t.FieldID), 2).Ones(3)
	default:
		w.Ones(5)
	}
	return w.Out()[0]
}

type PESSeq struct {
	Counter   uint8 // 7 bits
	MPEG1or2  uint8 // 1 bit
	OrigStuff uint8 // 6 bits
}

type PSTD struct {
	Scale uint8  // 1 bit
	Size  uint16 // 13 bits
}

type PESExt struct {
	Private    []byte // 16 bytes or nil
	PackHeader []byte // nil = absent (pack_field_length + pack header)
	HasPack    bool
	Seq        *PESSeq
	PSTD       *PSTD
	HasExt2    bool
	Ext2       []byte
}

type PESHdr struct {
	StreamID   uint8
	Scrambling uint8
	Priority   bool
	Alignment  bool
	Copyright  bool
	Original   bool
	PTS, DTS   *uint64 // DTS only with PTS
	Ind01      bool    // PTS_DTS_flags = '01' (forbidden value: no timestamp field follows); only without PTS
	ESCR       *PCR
	ESRate     *uint32
	Trick      *Trick
	CopyInfo   *uint8
	CRC        *uint16
	Ext        *PESExt
	Stuffing   int // header stuffing bytes (0xFF)
}

// HasOptHeader: stream ids without the optional header (table 2-21/2-22 of 2.4.3.7).
func HasOptHeader(id uint8) bool {
	switch id {
	case 0xBC, 0xBE, 0xBF, 0xF0, 0xF1, 0xF2, 0xF8, 0xFF:
		return false
	}
	return true
}

// OptHeader returns the optional header bytes (flags, header_data_length, fields, stuffing).
func (h *PESHdr) OptHeader() []byte {
	f := &W{}
	if h.PTS != nil && h.DTS != nil {
		PutTS33(f, 0b0011, *h.PTS)
		PutTS33(f, 0b0001, *h.DTS)
	} else if h.PTS != nil {
		PutTS33(f, 0b0010, *h.PTS)
	}
	if h.ESCR != nil {
		b := h.ESCR.Base
		f.Ones(2).U(b>>30, 3).U(1, 1).U(b>>15, 15).U(1, 1).U(b, 15).U(1, 1).U(uint64(h.ESCR.Ext), 9).U(1, 1)
	}
	if h.ESRate != nil {
		f.U(1, 1).U(uint64(*h.ESRate), 22).U(1, 1)
	}
	if h.Trick != nil {
		f.U(uint64(h.Trick.Byte()), 8)
	}
	if h.CopyInfo != nil {
		f.U(1, 1).U(uint64(*h.CopyInfo), 7)
	}
	if h.CRC != nil {
		f.U(uint64(*h.CRC), 16)
	}
	if e := h.Ext; e != nil {
		f.B(e.Private != nil).B(e.HasPack).B(e.Seq != nil).B(e.PSTD != nil).Ones(3).B(e.HasExt2)
		if e.Private != nil {
			f.Bytes(e.Private)
		}
		if e.HasPack {
			f.U(uint64(len(e.PackHeader)), 8).Bytes(e.PackHeader)
		}
		if e.Seq != nil {
			f.U(1, 1).U(uint64(e.Seq.Counter), 7).U(1, 1).U(uint64(e.Seq.MPEG1or2), 1).U(uint64(e.Seq.OrigStuff), 6)
		}
		if e.PSTD != nil {
			f.U(0b01, 2).U(uint64(e.PSTD.Scale), 1).U(uint64(e.PSTD.Size), 13)
		}
		if e.HasExt2 {
			f.U(1, 1).U(uint64(len(e.Ext2)), 7).Bytes(e.Ext2)
		}
	}
	for i := 0; i < h.Stuffing; i++ {
		f.U(0xff, 8)
	}
	w := &W{}
	w.U(0b10, 2).U(uint64(h.Scrambling), 2).B(h.Priority).B(h.Alignment).B(h.Copyright).B(h.Original)
	ind := uint64(0)
	if h.Ind01 && h.PTS == nil {
		ind = 1
	}
	if h.PTS != nil {
		ind = 2
		if h.DTS != nil {
			ind = 3
		}
	}
	w.U(ind, 2).B(h.ESCR != nil).B(h.ESRate != nil).B(h.Trick != nil).B(h.CopyInfo != nil).B(h.CRC != nil).B(h.Ext != nil)
	w.U(uint64(f.Len()), 8).Bytes(f.Out())
	return w.Out()
}

// Length modes for PES_packet_length.
const (
	LenExact = -1 // number of bytes following the field
	LenZero  = 0
)

// Encode returns the PES packet bytes. length is LenExact, or the literal value to put in
// PES_packet_length (0 = unbounded).
func (h *PESHdr) Encode(payload []byte, length int) []byte {
	var opt []byte
	if HasOptHeader(h.StreamID) {
		opt = h.OptHeader()
	}
	l := length
	if length == LenExact {
		l = len(opt) + len(payload)
	}
	w := &W{}
	w.U(0x000001, 24).U(uint64(h.StreamID), 8).U(uint64(l), 16).Bytes(opt).Bytes(payload)
	return w.Out()
}

// IsPESStart reports whether b begins with the packet_start_code_prefix.
func IsPESStart(b []byte) bool { return len(b) >= 3 && b[0] == 0 && b[1] == 0 && b[2] == 1 }

// TrickFromByte decodes a DSM trick mode byte per table 2-24 (fields not defined for the
// control value stay zero).
func TrickFromByte(b byte) *Trick {
	t := &Trick{Ctl: b >> 5}
	switch t.Ctl {
	case 0, 3:
		t.FieldID, t.Intra, t.FreqTrunc = b>>3&3, b>>2&1, b&3
	case 1, 4:
		t.Rep = b & 0x1f
	case 2:
		t.FieldID = b >> 3 & 3
	}
	return t
}

// OptHeaderIfAny returns the optional header bytes, or nil for stream ids that have none.
func (h *PESHdr) OptHeaderIfAny() []byte {
	if HasOptHeader(h.StreamID) {
		return h.OptHeader()
	}
	return nil
}
