package ref

// CRC-32/MPEG-2 (ISO/IEC 13818-1 annex A): polynomial 0x04C11DB7, register preset to all
// ones, data MSB first, no reflection, no final XOR. Bit-serial LFSR, one bit per step.

const CRCInit = uint32(0xffffffff)

// CRCStep advances the register by one data byte, bit by bit.
func CRCStep(reg uint32, b byte) uint32 {
	for i := 7; i >= 0; i-- {
		in := uint32(b>>uint(i)) & 1
		top := reg >> 31
		reg <<= 1
		if top^in == 1 {
			reg ^= 0x04C11DB7
		}
	}
	return reg
}

func CRCUpdate(reg uint32, bs []byte) uint32 {
	for _, b := range bs {
		reg = CRCStep(reg, b)
	}
	return reg
}

func CRC(bs []byte) uint32 { return CRCUpdate(CRCInit, bs) }
