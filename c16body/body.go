// Package c16body holds the harness bodies of C16: each body drives its own Demuxer or Muxer
// instance, deep-copies every result at delivery and re-compares it after every later call.
// The same bodies run under the cooperative scheduler (cmd/c16, pool shim overlay) and free
// in N goroutines under the race detector (cmd/c16race).
package c16body

import (
	"bytes"
	"context"
	"errors"
	"fmt"
	"io"

	astits "github.com/asticode/go-astits"
	"verif/checks"
	"verif/mc"
)

type Body struct {
	Name string
	// Run executes the body; it returns the canonical result sequence and the first
	// immutability problem it saw ("" if none).
	Run func() (results []string, problem string)
}

// Light skips the re-comparison after every single call (quadratic) and keeps only the one at
// the end of the body; set by the scheduler explorer, where the per-call re-check has already
// been done in the solo runs and the deciding oracles are result equality and pool ownership.
var Light bool

type keeper struct {
	vals  []any
	snaps []string
}

func (k *keeper) add(v any) string {
	s := mc.Canon(v)
	k.vals = append(k.vals, v)
	k.snaps = append(k.snaps, s)
	return s
}

// recheck compares every retained value with its snapshot.
func (k *keeper) recheck(when string) string {
	for i, v := range k.vals {
		if mc.Canon(v) != k.snaps[i] {
			return fmt.Sprintf("result %d was modified %s", i, when)
		}
	}
	return ""
}

func demuxDataBody(name string, stream []byte) Body {
	return Body{Name: name, Run: func() ([]string, string) {
		d := astits.NewDemuxer(context.Background(), bytes.NewReader(stream), astits.DemuxerOptPacketSize(188))
		k := &keeper{}
		prob := ""
		for i := 0; i < len(stream)/8+64; i++ {
			x, err := d.NextData()
			if errors.Is(err, astits.ErrNoMorePackets) {
				break
			}
			if err != nil {
				k.add(err.Error())
				continue
			}
			k.add(x)
			if !Light {
				if p := k.recheck(fmt.Sprintf("by NextData call %d", i+1)); p != "" && prob == "" {
					prob = p
				}
			}
		}
		if p := k.recheck("by end of stream"); p != "" && prob == "" {
			prob = p
		}
		return k.snaps, prob
	}}
}

func demuxPacketBody(name string, stream []byte) Body {
	return Body{Name: name, Run: func() ([]string, string) {
		d := astits.NewDemuxer(context.Background(), bytes.NewReader(stream))
		k := &keeper{}
		prob := ""
		for i := 0; i < len(stream)/8+64; i++ {
			x, err := d.NextPacket()
			if err != nil {
				if !errors.Is(err, astits.ErrNoMorePackets) {
					k.add(err.Error())
				}
				break
			}
			k.add(x)
			if !Light {
				if p := k.recheck(fmt.Sprintf("by NextPacket call %d", i+1)); p != "" && prob == "" {
					prob = p
				}
			}
		}
		if p := k.recheck("by end of stream"); p != "" && prob == "" {
			prob = p
		}
		return k.snaps, prob
	}}
}

// shortAutoBody demuxes, one after the other, inputs shorter than the 193 bytes packet-size
// auto-detection looks at (a single packet, a truncated packet, one packet and a few bytes), and
// then a regular stream: what each of them yields (an error, nothing, packets) must not depend on
// what this or any other instance did before.
func shortAutoBody(name string, stream []byte) Body {
	return Body{Name: name, Run: func() ([]string, string) {
		var res []string
		for _, in := range [][]byte{stream[:188], stream[:100], stream[:192], stream} {
			for _, api := range []string{"packet", "data"} {
				d := astits.NewDemuxer(context.Background(), bytes.NewReader(in))
				for i := 0; i < len(in)/8+64; i++ {
					var x any
					var err error
					if api == "packet" {
						x, err = d.NextPacket()
					} else {
						x, err = d.NextData()
					}
					if errors.Is(err, astits.ErrNoMorePackets) {
						res = append(res, "end")
						break
					}
					if err != nil {
						res = append(res, err.Error())
						continue
					}
					res = append(res, mc.Canon(x))
				}
			}
		}
		return res, ""
	}}
}

// retainingReader is neither seekable nor a bufio.Reader (auto-detection has to realign it by reading and
// discarding), and it keeps every slice it was handed: a buffer the Demuxer gives to its reader belongs to that
// Demuxer alone, so what the reader wrote into it is still there when the stream has been read.
type retainingReader struct {
	b      []byte
	off    int
	given  [][]byte
	copies [][]byte
}

func (r *retainingReader) Read(p []byte) (int, error) {
	if r.off >= len(r.b) {
		return 0, io.EOF
	}
	n := copy(p, r.b[r.off:])
	r.off += n
	if len(r.given) < 8 {
		r.given = append(r.given, p[:n])
		r.copies = append(r.copies, append([]byte{}, p[:n]...))
	}
	return n, nil
}

// plainAutoBody: packet size auto-detection on plain readers (different streams per reader), two demuxers used in
// turn: the buffers the first one handed to its reader during detection are compared after the second one ran.
func plainAutoBody(name string, a, b []byte) Body {
	return Body{Name: name, Run: func() ([]string, string) {
		var res []string
		prob := ""
		ra, rb := &retainingReader{b: a}, &retainingReader{b: b}
		da, db := astits.NewDemuxer(context.Background(), ra), astits.NewDemuxer(context.Background(), rb)
		for _, d := range []*astits.Demuxer{da, db, da, db} {
			for i := 0; i < 3; i++ {
				x, err := d.NextPacket()
				if err != nil {
					res = append(res, err.Error())
					break
				}
				res = append(res, mc.Canon(x))
			}
		}
		for _, r := range []*retainingReader{ra, rb} {
			for k := range r.given {
				// only the detection reads (the first two) are not reused by the same Demuxer afterwards
				if k < 2 && !bytes.Equal(r.given[k], r.copies[k]) && prob == "" {
					prob = fmt.Sprintf("a buffer a Demuxer handed to its reader during packet size detection (Read call %d) was overwritten later", k)
				}
			}
		}
		return res, prob
	}}
}

func muxBody(name string, seed int64) Body {
	return Body{Name: name, Run: func() ([]string, string) {
		w := checks.NewRecWriter()
		m := astits.NewMuxer(context.Background(), w, astits.MuxerOptTablesRetransmitPeriod(2))
		m.AddElementaryStream(astits.PMTElementaryStream{ElementaryPID: 0x100, StreamType: astits.StreamTypeH264Video})
		m.AddElementaryStream(astits.PMTElementaryStream{ElementaryPID: 0x101, StreamType: astits.StreamTypeAACAudio})
		m.SetPCRPID(0x100)
		prob := ""
		var res []string
		for i, l := range []int{10, 400, 169, 3000} {
			// the payload is a window into a larger caller-owned buffer: nothing of that buffer may change
			backing := make([]byte, l+64)
			for j := range backing {
				backing[j] = byte(0x10 + (j*7+i)%0xd0)
			}
			payload := backing[16 : 16+l]
			orig := append([]byte{}, payload...)
			origBacking := append([]byte{}, backing...)
			defer func(i int) {
				if !bytes.Equal(backing, origBacking) && prob == "" {
					prob = fmt.Sprintf("WriteData call %d modified the caller's buffer outside/inside the payload window", i+1)
				}
			}(i)
			pid := uint16(0x100 + i%2)
			pts := &astits.ClockReference{Base: int64(i) * 3600}
			af := &astits.PacketAdaptationField{RandomAccessIndicator: i == 0, HasPCR: true, PCR: &astits.ClockReference{Base: int64(i) * 300, Extension: 11}}
			n, err := m.WriteData(&astits.MuxerData{PID: pid, AdaptationField: af, PES: &astits.PESData{Data: payload, Header: &astits.PESHeader{OptionalHeader: &astits.PESOptionalHeader{MarkerBits: 2, PTSDTSIndicator: astits.PTSDTSIndicatorOnlyPTS, PTS: pts}}}})
			if !bytes.Equal(payload, orig) && prob == "" {
				prob = fmt.Sprintf("WriteData call %d modified the caller's payload bytes", i+1)
			}
			res = append(res, fmt.Sprintf("n=%d err=%v", n, err))
		}
		// WritePacket with a short payload that is a window into a larger caller buffer (the packet is padded)
		for i, l := range []int{1, 100, 183} {
			backing := bytes.Repeat([]byte{byte(0x21 + i)}, l+80)
			origBacking := append([]byte{}, backing...)
			p := &astits.Packet{Header: astits.PacketHeader{PID: 0x300, HasPayload: true, PayloadUnitStartIndicator: true, ContinuityCounter: uint8(i)}, Payload: backing[8 : 8+l]}
			n, err := m.WritePacket(p)
			res = append(res, fmt.Sprintf("pkt n=%d err=%v", n, err))
			if !bytes.Equal(backing, origBacking) && prob == "" {
				prob = fmt.Sprintf("WritePacket with a %d-byte payload modified the caller's buffer around the payload", l)
			}
		}
		res = append(res, fmt.Sprintf("%x", w.Buf))
		return res, prob
	}}
}

// Bodies returns the harness bodies (different streams, different payload sizes so that a
// stale length in a shared buffer shows).
func Bodies(seed int64) []Body {
	ss := checks.StandardStreams(seed)
	big := checks.BigPayloadStream(seed)
	pesFull, zoo := checks.RetainedSlicesStreams(seed)
	afv := checks.AFVarietyStream(seed)
	return []Body{
		demuxDataBody("demux-data:"+ss[0].Name, ss[0].Bytes),
		demuxDataBody("demux-data:"+ss[1].Name, ss[1].Bytes),
		muxBody("mux", seed),
		demuxDataBody("demux-data:big-payloads", big),
		demuxPacketBody("demux-packets:"+ss[0].Name, ss[0].Bytes),
		demuxDataBody("demux-data:pes-full-headers", pesFull),
		demuxDataBody("demux-data:descriptor-zoo", zoo),
		demuxPacketBody("demux-packets:af-variety", afv),
		demuxDataBody("demux-data:af-variety", afv),
		demuxDataBody("demux-data:split-section-headers", checks.SplitHeaderStream(seed)),
		shortAutoBody("demux-short-inputs-auto-detected", ss[0].Bytes),
		demuxDataBody("demux-data:pool-capacity-boundary", checks.PoolBoundaryStream(seed)),
		demuxPacketBody("demux-packets:pid-classes", checks.PIDClassesStream(seed).Bytes),
		plainAutoBody("demux-auto-detection-on-plain-readers", ss[0].Bytes, ss[1].Bytes),
		demuxDataBody("demux-data:multi-section-units", checks.MultiSectionStream(seed).Bytes),
	}
}
