//go:build c16shim

// Command c16 explores interleavings of independent Demuxer/Muxer instances that share the
// package-level pool. It is built with `go build -overlay`, which replaces the import of
// "sync" in /repo/pools.go by the verifsync shim (see c16.sh).
package main

import (
	"encoding/json"
	"fmt"
	"os"
	"reflect"
	"runtime"
	"strconv"
	"strings"
	"time"

	"github.com/asticode/go-astits/verifsync"
	"verif/c16body"
	"verif/mc"
)

const (
	kindSched = 0
	kindData  = 1
)

// sched is a cooperative scheduler: exactly one thread runs at a time; threads hand the baton
// back at scheduling points (thread start/end, pool Get/Put).
type sched struct {
	env     *mc.Env
	resume  []chan struct{}
	yielded chan struct{}
	done    []bool
	cur     int
	owner   map[any]int // pooled item -> thread that holds it (-1 = in the pool)
	problem string
}

var active *sched

func (s *sched) point() {
	me := s.cur // read before handing the baton back: the scheduler may pick another thread next
	s.yielded <- struct{}{}
	<-s.resume[me]
}

func (s *sched) run(bodies []c16body.Body) (results [][]string, problems []string) {
	n := len(bodies)
	s.resume = make([]chan struct{}, n)
	s.done = make([]bool, n)
	s.yielded = make(chan struct{})
	s.owner = map[any]int{}
	results = make([][]string, n)
	problems = make([]string, n)
	for i := range bodies {
		s.resume[i] = make(chan struct{})
		go func(i int) {
			<-s.resume[i]
			results[i], problems[i] = bodies[i].Run()
			s.done[i] = true
			s.yielded <- struct{}{}
		}(i)
	}
	s.cur = -1
	for {
		var enabled []int
		if s.cur >= 0 && !s.done[s.cur] {
			enabled = append(enabled, s.cur)
		}
		for i := 0; i < n; i++ {
			if !s.done[i] && i != s.cur {
				enabled = append(enabled, i)
			}
		}
		if len(enabled) == 0 {
			return
		}
		free := s.cur < 0 || s.done[s.cur]
		c := 0
		if len(enabled) > 1 {
			c = s.env.ChooseK(len(enabled), kindSched, free)
		}
		s.cur = enabled[c]
		s.resume[s.cur] <- struct{}{}
		<-s.yielded
	}
}

// poison overwrites the byte slices reachable from a pooled item (up to their capacity): a
// result that still aliases pooled memory is corrupted deterministically.
func poison(x any) {
	v := reflect.ValueOf(x)
	for v.Kind() == reflect.Ptr || v.Kind() == reflect.Interface {
		if v.IsNil() {
			return
		}
		v = v.Elem()
	}
	if v.Kind() != reflect.Struct {
		return
	}
	for i := 0; i < v.NumField(); i++ {
		f := v.Field(i)
		if f.Kind() == reflect.Slice && f.Type().Elem().Kind() == reflect.Uint8 && f.Cap() > 0 {
			b := f.Bytes()
			b = b[:cap(b)]
			for k := range b {
				b[k] = 0x47 // the most harmful stale content for a TS parser: everything looks like a sync byte
			}
		}
	}
}

func installHooks() {
	verifsync.Point = func() {
		if s := active; s != nil {
			s.point()
		}
	}
	verifsync.OnGet = func(p *verifsync.Pool, items []any) int {
		s := active
		if s == nil {
			return len(items) - 1
		}
		idx := -1
		if len(items) > 0 {
			// default: the most recently returned item; deviations: any other item, or a fresh one
			c := s.env.ChooseK(len(items)+1, kindData, false)
			if c < len(items) {
				idx = len(items) - 1 - c
			}
		}
		if idx >= 0 {
			if o, ok := s.owner[items[idx]]; ok && o >= 0 && s.problem == "" {
				s.problem = fmt.Sprintf("pool handed out an item still owned by thread %d", o)
			}
			s.owner[items[idx]] = s.cur
		}
		return idx
	}
	verifsync.OnPut = func(p *verifsync.Pool, x any, already bool) {
		s := active
		if s != nil {
			if already && s.problem == "" {
				s.problem = "an item was put back into the pool twice"
			}
			if o, ok := s.owner[x]; ok && o >= 0 && o != s.cur && s.problem == "" {
				s.problem = fmt.Sprintf("thread %d returned a pool item owned by thread %d", s.cur, o)
			}
			s.owner[x] = -1
		}
		poison(x)
	}
}

type result struct {
	Violations []map[string]any `json:"violations"`
	Scenarios  []mc.Scenario    `json:"scenarios"`
	Executions int64            `json:"executions"`
	Points     int64            `json:"points"`
	PoolOps    int              `json:"pool_ops_per_execution"`
	Outcomes   int              `json:"distinct_outcomes"`
	ShimActive bool             `json:"shim_active"`
	Samples    []any            `json:"samples"`
}

func main() {
	runtime.GOMAXPROCS(1) // one execution at a time: the pool is process-global
	if os.Args[1] == "replay" {
		os.Exit(replay(os.Args[2]))
	}
	tier := os.Args[1]
	out := os.Args[2]
	shard, nshards := 0, 1
	if len(os.Args) > 4 {
		shard, _ = strconv.Atoi(os.Args[3])
		nshards, _ = strconv.Atoi(os.Args[4])
	}
	seed, _ := strconv.ParseInt(os.Getenv("VERIF_SEED"), 10, 64)
	budget := 40 * time.Second
	if tier == "thorough" {
		budget = 20 * time.Minute
	}
	if s := os.Getenv("VERIF_BUDGET_S"); s != "" {
		n, _ := strconv.Atoi(s)
		budget = time.Duration(n) * time.Second
	}
	start := time.Now()
	over := func() bool { return time.Since(start) > budget }
	all := c16body.Bodies(seed)
	res := &result{}
	// ground truth without poisoning (hooks not installed yet): what every body delivers
	plain := make([][]string, len(all))
	for i, b := range all {
		plain[i], _ = b.Run()
	}
	installHooks()
	report := func(sig, msg string, det map[string]any) {
		if len(res.Violations) < 20 {
			det["signature"], det["message"] = sig, msg
			res.Violations = append(res.Violations, det)
		}
	}
	// solo runs (same shim, no scheduler): the reference outcome of every body
	solo := make([][]string, len(all))
	for i, b := range all {
		if shard != 0 {
			r, _ := b.Run()
			solo[i] = r
			continue
		}
		for _, p := range verifsync.Pools {
			p.Reset()
		}
		r, prob := b.Run()
		solo[i] = r
		if strings.Join(r, "|") != strings.Join(plain[i], "|") {
			report("result-aliases-pooled-memory", b.Name+": results change when pooled buffers are poisoned on Put (a returned slice aliases pool memory)", map[string]any{"body": b.Name, "mode": "solo"})
		}
		if prob != "" {
			report("result-mutated-after-delivery", b.Name+": "+prob, map[string]any{"body": b.Name, "mode": "solo"})
		}
		// a second solo run on a dirty pool must give the same results (stale pooled content)
		r2, _ := b.Run()
		if strings.Join(r, "|") != strings.Join(r2, "|") {
			report("result-depends-on-pool-content", b.Name+": second run on a used pool differs from the first", map[string]any{"body": b.Name})
		}
	}
	res.ShimActive = len(verifsync.Pools) > 0
	scens := scenarios(tier)
	outcomes := map[string]bool{}
	for _, sc := range scens {
		var bodies []c16body.Body
		for _, i := range sc.bodies {
			bodies = append(bodies, all[i])
		}
		maxOps := 0
		c16body.Light = true
		execs, points, complete := mc.ExploreKShard(sc.bounds, shard, nshards, over, func(env *mc.Env) {
			for _, p := range verifsync.Pools {
				p.Reset()
			}
			s := &sched{env: env}
			active = s
			results, problems := s.run(bodies)
			active = nil
			ops := 0
			for _, p := range verifsync.Pools {
				ops += p.Gets + p.Puts
			}
			if ops > maxOps {
				maxOps = ops
			}
			det := func() map[string]any {
				return map[string]any{"scenario": sc.name, "choices": append([]int{}, env.Choices...), "kinds": append([]int{}, env.Kind...)}
			}
			if s.problem != "" {
				report("pool-ownership", s.problem, det())
			}
			for k, i := range sc.bodies {
				if problems[k] != "" {
					report("result-mutated-after-delivery", all[i].Name+": "+problems[k], det())
				}
				if strings.Join(results[k], "|") != strings.Join(solo[i], "|") {
					report("instance-interference", fmt.Sprintf("%s: results under this interleaving differ from its solo run (%d vs %d results)", all[i].Name, len(results[k]), len(solo[i])), det())
				}
			}
			outcomes[fmt.Sprint(env.Choices)] = true
		})
		res.Executions += execs
		res.Points += points
		if maxOps > res.PoolOps {
			res.PoolOps = maxOps
		}
		res.Scenarios = append(res.Scenarios, mc.Scenario{Name: "sched:" + sc.name, Executed: execs, States: execs, Trans: points, Exhaustive: complete,
			Bound: fmt.Sprintf("all interleavings at thread start/end and pool Get/Put with <= %d preemptions and <= %d pool-item deviations; every execution runs to completion", sc.bounds[0], sc.bounds[1])})
		res.Samples = append(res.Samples, map[string]any{"scenario": sc.name, "threads": len(bodies), "executions": execs})
	}
	res.Outcomes = len(outcomes)
	b, _ := json.MarshalIndent(res, "", " ")
	os.WriteFile(out, b, 0o644)
	fmt.Printf("c16 sched shard %d/%d: %d executions, %d points, shim_active=%v, violations=%d\n", shard, nshards, res.Executions, res.Points, res.ShimActive, len(res.Violations))
}

type scen struct {
	name   string
	bodies []int
	bounds []int
}

func scenarios(tier string) []scen {
	if tier == "thorough" {
		return []scen{
			{"2 demuxers + muxer", []int{0, 1, 2}, []int{2, 2}},
			{"2 demuxers (big payloads)", []int{3, 0}, []int{3, 2}},
			{"demuxer data + demuxer packets", []int{1, 4}, []int{3, 2}},
			{"3 demuxers", []int{0, 1, 3}, []int{2, 1}},
			{"full PES headers + descriptor zoo", []int{5, 6}, []int{3, 2}},
			{"adaptation-field variety (packets + data)", []int{7, 8}, []int{3, 2}},
			{"split section headers + descriptor zoo", []int{9, 6}, []int{3, 1}},
			{"short auto-detected inputs + demuxer packets", []int{10, 4}, []int{3, 2}},
			{"pool capacity boundary + demuxer data", []int{11, 0}, []int{2, 1}},
		}
	}
	return []scen{
		{"2 demuxers + muxer", []int{0, 1, 2}, []int{2, 1}},
		{"2 demuxers (big payloads)", []int{3, 0}, []int{2, 2}},
		{"demuxer data + demuxer packets", []int{1, 4}, []int{2, 1}},
		{"full PES headers + descriptor zoo", []int{5, 6}, []int{2, 1}},
		{"adaptation-field variety (packets + data)", []int{7, 8}, []int{2, 1}},
		{"split section headers + descriptor zoo", []int{9, 6}, []int{1, 1}},
		{"short auto-detected inputs + demuxer packets", []int{10, 4}, []int{1, 1}},
		{"pool capacity boundary + demuxer data", []int{11, 0}, []int{1, 0}},
	}
}

// replay re-executes one recorded schedule (scenario name + choice list) without the explorer.
func replay(path string) int {
	b, err := os.ReadFile(path)
	if err != nil {
		fmt.Println(err)
		return 2
	}
	var doc struct {
		Detail struct {
			Scenario string `json:"scenario"`
			Choices  []int  `json:"choices"`
			Message  string `json:"message"`
		} `json:"detail"`
	}
	if err := json.Unmarshal(b, &doc); err != nil {
		fmt.Println(err)
		return 2
	}
	seed, _ := strconv.ParseInt(os.Getenv("VERIF_SEED"), 10, 64)
	all := c16body.Bodies(seed)
	installHooks()
	for _, sc := range append(scenarios("quick"), scenarios("thorough")...) {
		if sc.name != doc.Detail.Scenario {
			continue
		}
		var bodies []c16body.Body
		for _, i := range sc.bodies {
			bodies = append(bodies, all[i])
		}
		solo := make([][]string, len(bodies))
		for i, bd := range bodies {
			for _, p := range verifsync.Pools {
				p.Reset()
			}
			solo[i], _ = bd.Run()
		}
		for _, p := range verifsync.Pools {
			p.Reset()
		}
		s := &sched{env: mc.NewEnv(doc.Detail.Choices)}
		active = s
		results, problems := s.run(bodies)
		active = nil
		bad := s.problem != ""
		fmt.Printf("scenario %q, %d choices replayed; pool problem: %q\n", sc.name, len(doc.Detail.Choices), s.problem)
		for i := range bodies {
			same := strings.Join(results[i], "|") == strings.Join(solo[i], "|")
			fmt.Printf("  %s: %d results, equal to solo run: %v, immutability problem: %q\n", bodies[i].Name, len(results[i]), same, problems[i])
			bad = bad || !same || problems[i] != ""
		}
		if bad {
			fmt.Println("REPLAY reproduces:", doc.Detail.Message)
			return 1
		}
		fmt.Println("REPLAY: no violation observed")
		return 0
	}
	fmt.Println("unknown scenario", doc.Detail.Scenario)
	return 2
}
