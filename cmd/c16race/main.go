// Command c16race runs the C16 harness bodies free in N goroutines (real sync.Pool); it is
// built with -race. Results must equal the solo runs; a race report makes the process exit
// with GORACE's exit code.
package main

import (
	"encoding/json"
	"fmt"
	"os"
	"runtime"
	"strconv"
	"strings"
	"sync"

	"verif/c16body"
)

func main() {
	out := os.Args[1]
	seed, _ := strconv.ParseInt(os.Getenv("VERIF_SEED"), 10, 64)
	all := c16body.Bodies(seed)
	solo := make([]string, len(all))
	for i, b := range all {
		r, _ := b.Run()
		solo[i] = strings.Join(r, "|")
	}
	type res struct {
		Goroutines []int    `json:"goroutines"`
		Runs       int      `json:"runs"`
		Mismatches []string `json:"mismatches"`
	}
	r := &res{}
	var mu sync.Mutex
	for _, n := range []int{2, 8, 64} {
		r.Goroutines = append(r.Goroutines, n)
		for rep := 0; rep < 3; rep++ {
			var wg sync.WaitGroup
			for g := 0; g < n; g++ {
				wg.Add(1)
				go func(g int) {
					defer wg.Done()
					i := g % len(all)
					if g%5 == 0 {
						runtime.GC()
					}
					got, prob := all[i].Run()
					mu.Lock()
					r.Runs++
					if strings.Join(got, "|") != solo[i] {
						r.Mismatches = append(r.Mismatches, fmt.Sprintf("%s: results differ from the solo run with %d goroutines", all[i].Name, n))
					}
					if prob != "" {
						r.Mismatches = append(r.Mismatches, all[i].Name+": "+prob)
					}
					mu.Unlock()
				}(g)
			}
			wg.Wait()
		}
	}
	// sustained phase: the bodies that reassemble units beyond the pooled buffers' initial size run many times in 16
	// goroutines at once (a window of a few instructions between two atomic operations is only hit under sustained
	// concurrent traffic); fixed amount of work, not a time budget
	for i, b := range all {
		if !strings.Contains(b.Name, "big-payloads") && !strings.Contains(b.Name, "pool-capacity-boundary") {
			continue
		}
		var wg sync.WaitGroup
		for g := 0; g < 16; g++ {
			wg.Add(1)
			go func(g int) {
				defer wg.Done()
				for k := 0; k < 40; k++ {
					got, prob := all[i].Run()
					mu.Lock()
					r.Runs++
					if strings.Join(got, "|") != solo[i] && len(r.Mismatches) < 20 {
						r.Mismatches = append(r.Mismatches, fmt.Sprintf("%s: results differ from the solo run (16 goroutines, sustained)", all[i].Name))
					}
					if prob != "" && len(r.Mismatches) < 20 {
						r.Mismatches = append(r.Mismatches, all[i].Name+": "+prob)
					}
					mu.Unlock()
				}
			}(g)
		}
		wg.Wait()
	}
	b, _ := json.MarshalIndent(r, "", " ")
	os.WriteFile(out, b, 0o644)
	fmt.Printf("c16 race pass: %d runs, %d mismatches\n", r.Runs, len(r.Mismatches))
}
