// Command check runs one property check: check <ID> [--tier quick|thorough] [--replay file]
package main

import (
	"encoding/json"
	"flag"
	"fmt"
	"os"
	"path/filepath"
	"strconv"
	"time"

	"verif/checks"
	"verif/mc"
)

func main() {
	if len(os.Args) < 2 {
		fmt.Fprintln(os.Stderr, "usage: check <ID> [--tier quick|thorough] [--replay file]")
		os.Exit(2)
	}
	id := os.Args[1]
	if wd, err := os.Getwd(); err == nil {
		if _, err := os.Stat(filepath.Join(wd, "properties.jsonl")); err == nil {
			mc.Root = wd // a snapshot of /verif (vp run) keeps its evidence and replays to itself
		}
	}
	fs := flag.NewFlagSet("check", flag.ExitOnError)
	tier := fs.String("tier", "", "quick|thorough")
	replay := fs.String("replay", "", "replay file")
	fs.Parse(os.Args[2:])
	if *tier == "" {
		*tier = os.Getenv("VERIF_TIER")
	}
	if *tier == "" {
		*tier = "quick"
	}
	if *replay != "" {
		os.Exit(doReplay(*replay))
	}
	f, ok := checks.Registry[id]
	if !ok {
		fmt.Fprintf(os.Stderr, "unknown or unavailable check %s (hooks=%v)\n", id, checks.HooksOn)
		os.Exit(2)
	}
	seed, _ := strconv.ParseInt(os.Getenv("VERIF_SEED"), 10, 64)
	budget := 0 * time.Second
	if s := os.Getenv("VERIF_BUDGET_S"); s != "" {
		n, _ := strconv.Atoi(s)
		budget = time.Duration(n) * time.Second
	} else if *tier == "thorough" {
		budget = 25 * time.Minute
	} else {
		budget = 4 * time.Minute
	}
	if old, _ := filepath.Glob(filepath.Join(mc.Root, "replays", id+"-*.json")); len(old) > 0 {
		for _, f := range old {
			os.Remove(f)
		}
	}
	fnd, err := mc.LoadFindings()
	if err != nil {
		fmt.Fprintln(os.Stderr, "known_findings.json:", err)
		os.Exit(2)
	}
	c := &mc.Ctx{ID: id, Tier: *tier, Seed: seed, Start: time.Now(), Budget: budget, Rep: mc.NewReporter(id, fnd), Ev: mc.NewEvidence("model_checking"), Hooks: checks.HooksOn}
	mc.StartBlockWatch(c, "github.com/asticode/go-astits.")
	mc.StartGuardWatch(c)
	mc.OnJobPanic = func(i int64, p any, stack string) {
		if len(stack) > 1500 {
			stack = stack[:1500]
		}
		c.Rep.Report("panic-while-checking", map[string]any{"kind": "note", "job": i, "message": fmt.Sprintf("panic inside the check while examining what the library returned (a nil or malformed result where the property demands a value): %v\n%s", p, stack)})
	}
	f(c)
	exit, known := c.Rep.Finish()
	if err := c.Ev.Write(c, c.Rep.Violations(), known); err != nil {
		fmt.Fprintln(os.Stderr, "evidence:", err)
		os.Exit(2)
	}
	if exit == 0 {
		if v := c.Ev.Vacuous(); v != "" {
			fmt.Printf("VACUOUS property=%s missing driver-side class: %s\n", id, v)
			os.Exit(3)
		}
	}
	fmt.Printf("check %s tier=%s exit=%d wall=%.1fs evaluations=%d states=%d\n", id, *tier, exit, time.Since(c.Start).Seconds(), c.Ev.Evals, c.Ev.States)
	os.Exit(exit)
}

func doReplay(path string) int {
	b, err := os.ReadFile(path)
	if err != nil {
		fmt.Fprintln(os.Stderr, err)
		return 2
	}
	var doc struct {
		Property  string         `json:"property"`
		Signature string         `json:"signature"`
		Detail    map[string]any `json:"detail"`
	}
	if err := json.Unmarshal(b, &doc); err != nil {
		fmt.Fprintln(os.Stderr, err)
		return 2
	}
	kind, _ := doc.Detail["kind"].(string)
	r, ok := checks.Replayers[kind]
	if !ok {
		fmt.Fprintf(os.Stderr, "no replayer for kind %q\n", kind)
		return 2
	}
	if err := r(doc.Detail); err != nil {
		fmt.Printf("REPLAY property=%s signature=%s reproduces: %v\n", doc.Property, doc.Signature, err)
		return 1
	}
	fmt.Printf("REPLAY property=%s: no violation observed\n", doc.Property)
	return 0
}
