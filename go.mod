module verif

go 1.23

require (
	github.com/asticode/go-astikit v0.30.0
	github.com/asticode/go-astits v0.0.0
	github.com/stretchr/testify v1.4.0
)

require (
	github.com/davecgh/go-spew v1.1.0 // indirect
	github.com/pmezard/go-difflib v1.0.0 // indirect
	gopkg.in/yaml.v2 v2.2.2 // indirect
)

replace github.com/asticode/go-astits => /repo
