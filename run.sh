#!/bin/bash
# run.sh <ID> <quick|thorough> : rebuild the checker from /repo's current tree (hooks on,
# falling back to hooks off if the hook file no longer compiles) and run one check.
cd "$(dirname "$0")"
. ./env.sh
ID="$1"; TIER="${2:-quick}"
mkdir -p bin evidence replays
BIN=bin/check
# VERIF_REPO=<dir> checks another copy of the library (used for background runs on a snapshot)
MODFLAG=""
if [ -n "$VERIF_REPO" ]; then
  sed "s#=> /repo#=> $VERIF_REPO#" go.mod > bin/alt.mod && cp go.sum bin/alt.sum
  MODFLAG="-modfile=bin/alt.mod"
fi
export VERIF_MODFLAG="$MODFLAG"
if ! go build $MODFLAG -tags verif -o $BIN ./cmd/check 2>bin/build.err; then
  if ! go build $MODFLAG -o $BIN ./cmd/check 2>>bin/build.err; then
    cat bin/build.err
    echo "BUILD-FAILED property=$ID"
    exit 2
  fi
  echo "note: built without hooks (verif tag does not compile against the current tree)"
fi
if [ "$ID" = "C16" ]; then
  exec ./c16.sh "$TIER"
fi
exec ./$BIN "$ID" --tier "$TIER"
