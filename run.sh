#!/bin/bash
# run.sh <ID> <quick|thorough> : rebuild the checker from /repo's current tree (hooks on,
# falling back to hooks off if the hook file no longer compiles) and run one check.
cd "$(dirname "$0")"
. ./env.sh
ID="$1"; TIER="${2:-quick}"
mkdir -p bin evidence replays
BIN=bin/check
if ! go build -tags verif -o $BIN ./cmd/check 2>bin/build.err; then
  if ! go build -o $BIN ./cmd/check 2>>bin/build.err; then
    cat bin/build.err
    echo "BUILD-FAILED property=$ID"
    exit 2
  fi
  echo "note: built without hooks (verif tag does not compile against the current tree)"
fi
if [ "$ID" = "C16" ]; then
  exec ./c16.sh "$TIER"
fi
exec ./$BIN "$ID" --tier "$TIER"
