// Package verifsync stands in for "sync" inside /repo/pools.go when the C16 checker is built
// with `go build -overlay` (the file never exists in /repo). Pool is a deterministic,
// scheduler-controlled pool; every other sync name is re-exported unchanged so that a source
// edit that starts using sync.Mutex or sync.Once in pools.go still builds.
package verifsync

import "sync"

type (
	Mutex     = sync.Mutex
	RWMutex   = sync.RWMutex
	WaitGroup = sync.WaitGroup
	Once      = sync.Once
	Cond      = sync.Cond
	Map       = sync.Map
	Locker    = sync.Locker
)

func NewCond(l Locker) *Cond { return sync.NewCond(l) }

// Hooks are installed by the checker. With nil hooks the pool is a plain LIFO stack.
var (
	// Point is a scheduling point: called at the very beginning of Get and Put, before the
	// pool is looked at.
	Point func()
	// OnGet is called (after Point) with the pooled items; it returns the index to hand out or
	// -1 for New(). It must not yield.
	OnGet func(p *Pool, items []interface{}) int
	// OnPut is called (after Point) before x goes back into the pool (poisoning, ownership
	// assertions). It must not yield.
	OnPut func(p *Pool, x interface{}, alreadyPooled bool)
)

type Pool struct {
	New   func() interface{}
	mu    sync.Mutex
	items []interface{}
	Gets  int
	Puts  int
}

func (p *Pool) Get() interface{} {
	Register(p)
	if Point != nil {
		Point()
	}
	p.mu.Lock()
	defer p.mu.Unlock()
	idx := len(p.items) - 1
	if OnGet != nil {
		idx = OnGet(p, p.items)
	}
	p.Gets++
	if idx < 0 || idx >= len(p.items) {
		if p.New == nil {
			return nil
		}
		return p.New()
	}
	x := p.items[idx]
	p.items = append(append([]interface{}{}, p.items[:idx]...), p.items[idx+1:]...)
	return x
}

func (p *Pool) Put(x interface{}) {
	Register(p)
	if Point != nil {
		Point()
	}
	p.mu.Lock()
	defer p.mu.Unlock()
	already := false
	for _, y := range p.items {
		if y == x {
			already = true
		}
	}
	if OnPut != nil {
		OnPut(p, x, already)
	}
	p.Puts++
	if !already {
		p.items = append(p.items, x)
	}
}

// Reset empties the pool (between executions).
func (p *Pool) Reset() {
	p.mu.Lock()
	p.items, p.Gets, p.Puts = nil, 0, 0
	p.mu.Unlock()
}

// Pools registers every pool that was used, so that the checker can reset them.
var (
	regMu sync.Mutex
	Pools []*Pool
)

func Register(p *Pool) {
	regMu.Lock()
	for _, q := range Pools {
		if q == p {
			regMu.Unlock()
			return
		}
	}
	Pools = append(Pools, p)
	regMu.Unlock()
}
