// Package verifatomic stands in for "sync/atomic" inside /repo/pools.go when the C16 checker is built with
// `go build -overlay` (the file never exists in /repo). Every operation is a scheduling point of the
// cooperative scheduler (verifsync.Point) followed by the real atomic operation: a check-then-act sequence
// built from single atomic operations (Load, then Store) can then be interleaved by the explorer like any
// other pair of pool operations.
package verifatomic

import (
	"sync/atomic"
	"unsafe"

	"github.com/asticode/go-astits/verifsync"
)

func point() {
	if verifsync.Point != nil {
		verifsync.Point()
	}
}

type Value struct{ v atomic.Value }

func (x *Value) Load() interface{}              { point(); return x.v.Load() }
func (x *Value) Store(val interface{})          { point(); x.v.Store(val) }
func (x *Value) Swap(n interface{}) interface{} { point(); return x.v.Swap(n) }
func (x *Value) CompareAndSwap(o, n interface{}) bool {
	point()
	return x.v.CompareAndSwap(o, n)
}

type Int32 struct{ v atomic.Int32 }

func (x *Int32) Load() int32                    { point(); return x.v.Load() }
func (x *Int32) Store(n int32)                  { point(); x.v.Store(n) }
func (x *Int32) Add(d int32) int32              { point(); return x.v.Add(d) }
func (x *Int32) Swap(n int32) int32             { point(); return x.v.Swap(n) }
func (x *Int32) CompareAndSwap(o, n int32) bool { point(); return x.v.CompareAndSwap(o, n) }

type Int64 struct{ v atomic.Int64 }

func (x *Int64) Load() int64                    { point(); return x.v.Load() }
func (x *Int64) Store(n int64)                  { point(); x.v.Store(n) }
func (x *Int64) Add(d int64) int64              { point(); return x.v.Add(d) }
func (x *Int64) Swap(n int64) int64             { point(); return x.v.Swap(n) }
func (x *Int64) CompareAndSwap(o, n int64) bool { point(); return x.v.CompareAndSwap(o, n) }

type Uint32 struct{ v atomic.Uint32 }

func (x *Uint32) Load() uint32                    { point(); return x.v.Load() }
func (x *Uint32) Store(n uint32)                  { point(); x.v.Store(n) }
func (x *Uint32) Add(d uint32) uint32             { point(); return x.v.Add(d) }
func (x *Uint32) Swap(n uint32) uint32            { point(); return x.v.Swap(n) }
func (x *Uint32) CompareAndSwap(o, n uint32) bool { point(); return x.v.CompareAndSwap(o, n) }

type Uint64 struct{ v atomic.Uint64 }

func (x *Uint64) Load() uint64                    { point(); return x.v.Load() }
func (x *Uint64) Store(n uint64)                  { point(); x.v.Store(n) }
func (x *Uint64) Add(d uint64) uint64             { point(); return x.v.Add(d) }
func (x *Uint64) Swap(n uint64) uint64            { point(); return x.v.Swap(n) }
func (x *Uint64) CompareAndSwap(o, n uint64) bool { point(); return x.v.CompareAndSwap(o, n) }

type Bool struct{ v atomic.Bool }

func (x *Bool) Load() bool                    { point(); return x.v.Load() }
func (x *Bool) Store(n bool)                  { point(); x.v.Store(n) }
func (x *Bool) Swap(n bool) bool              { point(); return x.v.Swap(n) }
func (x *Bool) CompareAndSwap(o, n bool) bool { point(); return x.v.CompareAndSwap(o, n) }

func AddInt32(a *int32, d int32) int32                 { point(); return atomic.AddInt32(a, d) }
func AddInt64(a *int64, d int64) int64                 { point(); return atomic.AddInt64(a, d) }
func AddUint32(a *uint32, d uint32) uint32             { point(); return atomic.AddUint32(a, d) }
func AddUint64(a *uint64, d uint64) uint64             { point(); return atomic.AddUint64(a, d) }
func AddUintptr(a *uintptr, d uintptr) uintptr         { point(); return atomic.AddUintptr(a, d) }
func LoadInt32(a *int32) int32                         { point(); return atomic.LoadInt32(a) }
func LoadInt64(a *int64) int64                         { point(); return atomic.LoadInt64(a) }
func LoadUint32(a *uint32) uint32                      { point(); return atomic.LoadUint32(a) }
func LoadUint64(a *uint64) uint64                      { point(); return atomic.LoadUint64(a) }
func LoadUintptr(a *uintptr) uintptr                   { point(); return atomic.LoadUintptr(a) }
func LoadPointer(a *unsafe.Pointer) unsafe.Pointer     { point(); return atomic.LoadPointer(a) }
func StoreInt32(a *int32, v int32)                     { point(); atomic.StoreInt32(a, v) }
func StoreInt64(a *int64, v int64)                     { point(); atomic.StoreInt64(a, v) }
func StoreUint32(a *uint32, v uint32)                  { point(); atomic.StoreUint32(a, v) }
func StoreUint64(a *uint64, v uint64)                  { point(); atomic.StoreUint64(a, v) }
func StoreUintptr(a *uintptr, v uintptr)               { point(); atomic.StoreUintptr(a, v) }
func StorePointer(a *unsafe.Pointer, v unsafe.Pointer) { point(); atomic.StorePointer(a, v) }
func SwapInt32(a *int32, v int32) int32                { point(); return atomic.SwapInt32(a, v) }
func SwapInt64(a *int64, v int64) int64                { point(); return atomic.SwapInt64(a, v) }
func SwapUint32(a *uint32, v uint32) uint32            { point(); return atomic.SwapUint32(a, v) }
func SwapUint64(a *uint64, v uint64) uint64            { point(); return atomic.SwapUint64(a, v) }
func SwapPointer(a *unsafe.Pointer, v unsafe.Pointer) unsafe.Pointer {
	point()
	return atomic.SwapPointer(a, v)
}
func CompareAndSwapInt32(a *int32, o, n int32) bool {
	point()
	return atomic.CompareAndSwapInt32(a, o, n)
}
func CompareAndSwapInt64(a *int64, o, n int64) bool {
	point()
	return atomic.CompareAndSwapInt64(a, o, n)
}
func CompareAndSwapUint32(a *uint32, o, n uint32) bool {
	point()
	return atomic.CompareAndSwapUint32(a, o, n)
}
func CompareAndSwapUint64(a *uint64, o, n uint64) bool {
	point()
	return atomic.CompareAndSwapUint64(a, o, n)
}
func CompareAndSwapPointer(a *unsafe.Pointer, o, n unsafe.Pointer) bool {
	point()
	return atomic.CompareAndSwapPointer(a, o, n)
}
