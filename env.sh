# sourced by every script: offline Go environment
export GOFLAGS=-mod=mod GOPROXY=off GOSUMDB=off GOTOOLCHAIN=local
export CARGO_NET_OFFLINE=true PIP_NO_INDEX=1
