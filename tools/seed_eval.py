#!/usr/bin/env python3
"""Evaluate a seeded property-breaking change produced by an independent sub-agent.

  seed_eval.py import <worktree> <name>      copy <worktree>/SEED to /verif/seeded/<name>/ and evaluate
  seed_eval.py eval <name> [checks]          (re-)evaluate /verif/seeded/<name> against the listed checks (default: all)
  seed_eval.py evalall                       re-evaluate every seeded change against the checks that caught it before
                                             (or its own property's check); prints one line per change

Evaluation (all in /repo, always restored with `git checkout -- . && git clean -fd`):
  1. baseline: demo test passes on the unchanged tree
  2. apply patch.diff; go build; the repository's own suite must pass; the demo test must fail
  3. run each check's quick tier: exit 1 + VIOLATION line = caught
Results go to /verif/seeded/<name>/meta.json (key "evaluation").
"""
import json, os, shutil, subprocess, sys, time

# SEED_REPO / SEED_VERIF: evaluate in a snapshot (e.g. under `vp run`) instead of /repo and /verif
REPO, VERIF = os.environ.get("SEED_REPO", "/repo"), os.environ.get("SEED_VERIF", "/verif")
ENV = dict(os.environ, GOFLAGS="-mod=mod", GOPROXY="off", GOSUMDB="off", GOTOOLCHAIN="local")
if REPO != "/repo":
    ENV["VERIF_REPO"] = REPO
ALL = ["C%02d" % i for i in range(1, 21)]


def sh(cmd, cwd=None, timeout=1800):
    return subprocess.run(cmd, shell=True, cwd=cwd, env=ENV, capture_output=True, text=True, timeout=timeout)


def clean():
    sh("git checkout -- . && git clean -fdq", REPO)


FAST = os.environ.get("SEED_FAST") == "1"  # evalall: skip the demonstration and the repository's suite (validated at import time)


def evaluate(name, checks):
    d = os.path.join(VERIF, "seeded", name)
    meta = json.load(open(os.path.join(d, "meta.json")))
    assert not sh("git status --porcelain", REPO).stdout.strip(), "/repo is dirty"
    ev = {"time": time.strftime("%Y-%m-%dT%H:%M:%S"), "repo_head": sh("git log --format=%h -1", REPO).stdout.strip(), "checks": {}}
    try:
        if FAST:
            old = meta.get("evaluation", {})
            for k in ("demo_on_unchanged_tree", "demo_with_change", "repo_suite_with_change"):
                ev[k] = old.get(k)
            r = sh(f"git apply {d}/patch.diff", REPO)
            if r.returncode != 0:
                ev["error"] = "patch does not apply: " + r.stderr[-300:]
                return ev
            r = sh("go build ./... 2>&1 | tail -3", REPO)
            ev["build"] = "ok" if not r.stdout.strip() else r.stdout[-300:]
        else:
            shutil.copy(os.path.join(d, "seed_demo_test.go.txt"), os.path.join(REPO, "seed_demo_test.go"))
            r = sh("go test -count=1 -run 'TestSeedDemo' . 2>&1 | tail -3", REPO)
            ev["demo_on_unchanged_tree"] = "pass" if r.stdout.strip().startswith("ok") or "\nok" in r.stdout else "FAIL: " + r.stdout[-300:]
            r = sh(f"git apply {d}/patch.diff", REPO)
            if r.returncode != 0:
                ev["error"] = "patch does not apply: " + r.stderr[-300:]
                return ev
            r = sh("go build ./... 2>&1 | tail -3", REPO)
            ev["build"] = "ok" if not r.stdout.strip() else r.stdout[-300:]
            r = sh("go test -count=1 -run 'TestSeedDemo' . 2>&1 | tail -3", REPO)
            ev["demo_with_change"] = "fails (as required)" if "FAIL" in r.stdout else "UNEXPECTED: " + r.stdout[-300:]
            os.remove(os.path.join(REPO, "seed_demo_test.go"))
            r = sh("go test -count=1 ./... 2>&1 | tail -4", REPO)
            ev["repo_suite_with_change"] = "pass" if "FAIL" not in r.stdout else "FAIL: " + r.stdout[-300:]
        for c in checks:
            t0 = time.time()
            r = sh(f"./run.sh {c} quick", VERIF)
            sigs = [l.strip() for l in r.stdout.splitlines() if "violations with signature" in l]
            ev["checks"][c] = {"exit": r.returncode, "caught": r.returncode == 1 and "VIOLATION property=" in r.stdout, "signatures": sigs[:5], "wall_s": round(time.time() - t0, 1)}
            if r.returncode not in (0, 1):
                ev["checks"][c]["tail"] = r.stdout.splitlines()[-2:]
            print(f"  {name}: {c} exit={r.returncode} caught={ev['checks'][c]['caught']}", flush=True)
    finally:
        clean()
    ev["caught_by"] = sorted(c for c, v in ev["checks"].items() if v["caught"])
    old = meta.get("evaluation", {})
    if old and set(old.get("checks", {})) - set(ev["checks"]):
        merged = dict(old["checks"])
        merged.update(ev["checks"])
        ev["checks"] = merged
        ev["caught_by"] = sorted(c for c, v in merged.items() if v["caught"])
    meta["evaluation"] = ev
    json.dump(meta, open(os.path.join(d, "meta.json"), "w"), indent=1)
    return ev


def main():
    cmd = sys.argv[1]
    if cmd == "import":
        wt, name = sys.argv[2], sys.argv[3]
        d = os.path.join(VERIF, "seeded", name)
        os.makedirs(d, exist_ok=True)
        for f in ("patch.diff", "seed_demo_test.go", "meta.json"):
            # the demonstration is stored as .txt so that `go vet ./...` in /verif does not see a stray package
            shutil.copy(os.path.join(wt, "SEED", f), os.path.join(d, f + (".txt" if f.endswith("_test.go") else "")))
        checks = sys.argv[4].split(",") if len(sys.argv) > 4 else ALL
        ev = evaluate(name, checks)
    elif cmd == "evalall":
        lost = []
        for name in sorted(os.listdir(os.path.join(VERIF, "seeded"))):
            mp = os.path.join(VERIF, "seeded", name, "meta.json")
            if not os.path.exists(mp):
                continue
            meta = json.load(open(mp))
            prev = meta.get("evaluation", {}).get("caught_by") or [meta.get("property", name[:3].upper())]
            if meta.get("out_of_domain"):
                print(f"SEED {name}: out of domain (skipped)", flush=True)
                continue
            ev = evaluate(name, prev)
            ok = ev.get("caught_by") == sorted(prev) and "error" not in ev and ev.get("repo_suite_with_change") == "pass" and ev.get("demo_on_unchanged_tree") == "pass" and ev.get("demo_with_change", "").startswith("fails")
            print(f"SEED {name}: {'ok' if ok else 'CHANGED'} caught_by={ev.get('caught_by')} before={prev} {ev.get('error','')}", flush=True)
            if not ok:
                lost.append(name)
        print("evalall:", "all as before" if not lost else "CHANGED: " + " ".join(lost))
        return
    else:
        name = sys.argv[2]
        checks = sys.argv[3].split(",") if len(sys.argv) > 3 else ALL
        ev = evaluate(name, checks)
    print(json.dumps({k: v for k, v in ev.items() if k != "checks"}, indent=1))


if __name__ == "__main__":
    main()
