#!/usr/bin/env python3
"""Mutation audit helper.

  mut.py new <name> <file> <old> <new> <check>[,<check>...]   create /verif/mutants/<name>.patch from a
        textual replacement in /repo/<file> (old must occur exactly once), then audit it
  mut.py run <name> [<check>,...]                              re-audit an existing patch
  mut.py all                                                   audit every patch with its recorded checks

Audit = apply the patch to /repo, build, run the repository's own test suite (must stay green),
run each named check's quick tier (must exit 1 with a VIOLATION line), revert. Results are
appended to /verif/mutants/RESULTS.jsonl. /repo is always restored (git checkout -- .).
"""
import json, os, subprocess, sys, time

REPO, VERIF = "/repo", "/verif"
MUT = os.path.join(VERIF, "mutants")
ENV = dict(os.environ, GOFLAGS="-mod=mod", GOPROXY="off", GOSUMDB="off", GOTOOLCHAIN="local")


def sh(cmd, cwd=None, timeout=900):
    return subprocess.run(cmd, shell=True, cwd=cwd, env=ENV, capture_output=True, text=True, timeout=timeout)


def clean():
    if sh("git status --porcelain", REPO).stdout.strip():
        sh("git checkout -- . && git clean -fdq", REPO)


def audit(name, checks):
    patch = os.path.join(MUT, name + ".patch")
    assert not sh("git status --porcelain", REPO).stdout.strip(), "/repo is dirty"
    res = {"mutant": name, "checks": {}, "time": time.strftime("%Y-%m-%dT%H:%M:%S")}
    try:
        r = sh(f"git apply {patch}", REPO)
        if r.returncode != 0:
            res["error"] = "patch does not apply: " + r.stderr[-300:]
            return res
        r = sh("go build ./... && go vet -tags verif . >/dev/null 2>&1; go test -count=1 . 2>&1 | tail -3", REPO)
        res["repo_tests"] = "ok" if "\nok" in "\n" + r.stdout or r.stdout.startswith("ok") else "FAIL: " + r.stdout[-400:]
        for c in checks:
            t0 = time.time()
            r = sh(f"./run.sh {c} quick", VERIF, timeout=1800)
            viol = [l for l in r.stdout.splitlines() if l.startswith("VIOLATION")]
            sigs = [l.strip() for l in r.stdout.splitlines() if "violations with signature" in l]
            res["checks"][c] = {"exit": r.returncode, "violation_lines": len(viol), "signatures": sigs[:6], "wall_s": round(time.time() - t0, 1),
                                "tail": r.stdout.splitlines()[-1:] if r.returncode not in (0, 1) else []}
    finally:
        clean()
    with open(os.path.join(MUT, "RESULTS.jsonl"), "a") as f:
        f.write(json.dumps(res) + "\n")
    return res


def main():
    os.makedirs(MUT, exist_ok=True)
    cmd = sys.argv[1]
    if cmd == "new":
        name, file, old, new, checks = sys.argv[2:7]
        path = os.path.join(REPO, file)
        s = open(path).read()
        assert s.count(old) == 1, f"'old' occurs {s.count(old)} times in {file}"
        clean()
        open(path, "w").write(s.replace(old, new))
        d = sh("git diff", REPO).stdout
        clean()
        open(os.path.join(MUT, name + ".patch"), "w").write(d)
        meta = {}
        mp = os.path.join(MUT, "mutants.json")
        if os.path.exists(mp):
            meta = json.load(open(mp))
        meta[name] = {"file": file, "checks": checks.split(","), "note": sys.argv[7] if len(sys.argv) > 7 else ""}
        json.dump(meta, open(mp, "w"), indent=1, sort_keys=True)
        print(json.dumps(audit(name, checks.split(",")), indent=1))
    elif cmd == "run":
        name = sys.argv[2]
        meta = json.load(open(os.path.join(MUT, "mutants.json")))
        checks = sys.argv[3].split(",") if len(sys.argv) > 3 else meta[name]["checks"]
        print(json.dumps(audit(name, checks), indent=1))
    elif cmd == "all":
        meta = json.load(open(os.path.join(MUT, "mutants.json")))
        ok = True
        for name, m in sorted(meta.items()):
            r = audit(name, m["checks"])
            caught = all(v["exit"] == 1 and v["violation_lines"] > 0 for v in r["checks"].values())
            ok &= caught and r.get("repo_tests") == "ok"
            print(f"{name:40s} repo_tests={r.get('repo_tests','?')[:12]:12s} " + " ".join(f"{c}:exit={v['exit']}" for c, v in r["checks"].items()) + ("" if caught else "   <-- NOT CAUGHT"))
        sys.exit(0 if ok else 1)


if __name__ == "__main__":
    main()
