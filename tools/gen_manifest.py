#!/usr/bin/env python3
"""Generate /verif/MANIFEST.json from the table below (keeps the file valid and in one place)."""
import json, os, subprocess

ROOT = os.path.dirname(os.path.dirname(os.path.abspath(__file__)))

MC = "model_checking"
FE = "fault_enumeration"
EX = "exploration"

# id -> (category, technique, level text, level note, design ref)
CHECKS = {
 "C04": (MC, "explicit-state BFS over Muxer API histories on the real Muxer (replay per transition, full-state dedup) with an independent ISO 13818-1 packet decoder as monitor",
         "All operation histories up to the stated depth over a 29-operation alphabet (valid and invalid arguments, every stuffing case, WritePacket) from several set-up states and three retransmit periods, plus closure (fixpoint) searches over restricted alphabets; after every transition the bytes that reached the writer are decoded by the reference decoder and compared with the returned counts.",
         "Trusted: the reference TS decoder (/verif/ref/ts.go) and the reflective state dump used as dedup key (finer key only costs time). Bounded: depth 3-4 (quick) / 4-6 (thorough) for the full alphabet; unbounded depth only for the restricted alphabets.", "5 C04"),
 "C05": (MC, "explicit-state BFS / closure over Muxer API histories with a per-PID continuity-counter monitor on the output bytes",
         "Continuity is checked on the decoded output after every transition of every explored history, including closure searches in which every counter value and every 15->0 wrap is reached on ES, PAT and PMT PIDs, failing table generations between successful ones, stream removal/re-addition and the adaptation-field-too-large WriteData; all histories (length <= 5/6) with a refused PAT or PMT write: the packets that reached the output never repeat a counter value and skip at most one value per refused write.",
         "Same trusted base as C04. One open known finding (first-packet adaptation field that leaves no room for the PES header).", "5 C05"),
 "C17": (MC, "explicit-state BFS / closure over Muxer API histories in lock-step with a reference model of table timing, content and versioning",
         "A reference model (stream list, PCR PID, call counters, dirty flag) predicts for every call whether a PAT/PMT pair must, may or must not be emitted, the exact PMT section bytes (reference encoder) and the version number; closure searches cross the mod-32 version wrap and the retransmit period for several periods.",
         "Trusted: reference section encoder and model in /verif/checks/muxmon.go. Failed WriteData calls may or may not count towards the period (both accepted); a forced or periodic emission resets the period.", "5 C17"),
}

CHECKS.update({
 "C01": (MC, "exhaustive enumeration of Muxer API histories (no state merging) and of single-WriteData shapes, each run on the real Muxer and demuxed by the real Demuxer, compared with the written model",
         "Every history of length <= 3 (quick) / 4 (thorough) over a 24-25 operation alphabet from five set-up states, and every payload length 1..760 plus windows around 65535 and 131072 x PES header shapes (816 structural shapes) x first-packet adaptation fields sized to each room-left class: the real Demuxer must deliver, per PID and in order, exactly one PES per successful WriteData with identical payload, stream id, header fields and adaptation field content, and one PAT/PMT per emission describing the configuration.",
         "Trusted: the written model (what the harness handed to WriteData) and the comparison code; demuxer run with explicit packet size 188. Two open known findings (adaptation field that leaves no room for the PES header).", "5 C01"),
 "C18": (FE, "exhaustive fault-position enumeration: every Write index x {one-shot, permanent, half accepted} and every pair of one-shot failing Write indices on the real Muxer, seven standard-library error values; every byte offset x reader kind x packet-size mode x API x read pattern on the real Demuxer",
         "For each scenario every single Write call of the writer is made to fail (both modes) and the call during which the failure was injected must return an error wrapping it with n <= bytes accepted; for each stream every byte offset is the reader's failure point and the pending call must return a wrapping error (never ErrNoMorePackets, never a panic) with everything delivered before being a prefix of the fault-free output.",
         "Configurations whose fault-free baseline does not work (auto-detection under short reads on non-bufio readers) are skipped and named in the evidence; that behaviour is C08's subject.", "5 C18"),
})

CHECKS.update({
 "C02": (MC, "bounded-exhaustive enumeration of packetisations (deviation bound on chunk sizes) and of all order-preserving PID merges, each stream demuxed by the real Demuxer and compared with the units the reference multiplexer packed",
         "11 unit kinds (bounded/unbounded PES, PES with adaptation field, PAT 1/3 sections, PMT 1 packet / 6 packets 2 sections, SDT, NIT, EIT, TOT) x pointer fields x trailing stuffing x AF-vs-0xFF padding x flush by next unit or EOF x every single chunk-size deviation (all c in 1..183 at every packet) and pairs over a boundary alphabet; all merges of three PIDs; 8 PIDs drained at EOF; for PAT/PMT a counting reader checks that the table is returned when its final packet has been read.",
         "Trusted: reference multiplexer and encoders in /verif/ref and /verif/checks/streams.go. Well-formed domain per DESIGN.md C02 (a PUSI packet contains the first byte of the unit's last section).", "5 C02"),
 "C06": (MC, "exhaustive fault-set enumeration on base streams (every single/double duplicate, deletion, burst, pair of faults) plus all packet sequences up to a length bound over a 26-symbol alphabet, with a relational / safety oracle on the real Demuxer's output",
         "(a) clean vs faulted output related exactly as the statement says (duplicates: PES PIDs identical, PSI PIDs only repeats; loss: subsequence, other PIDs identical, missing units only those that lost a packet or precede a gap), including 15-packet bursts on one PID; (b) every sequence of <= 4 (quick) / 5 (thorough) packets over {counter delta dup/+1/+2} x PUSI x {payload, AF-only, TEI, discontinuity indicator} + a second PID: every delivered unit must be a gap-free, duplicate-free run starting at a PUSI packet.",
         "Trusted: the driver-side bookkeeping of which unit each packet belongs to. PMT output is exempt when a PAT packet is deleted (dependence stated in C07).", "5 C06"),
 "C07": (MC, "exhaustive enumeration of all order-preserving merges (schedules) of five per-PID packet sequences, all insertion positions of null/AF-only/TEI packets, all single-byte corruptions of one PID, on the real Demuxer, compared per PID with that PID's solo run",
         "138 600 (quick) / 554 400 (thorough) schedules of PES A, PES B, SDT, PAT, PMT; per PID the delivered sequence must equal the sequence the real Demuxer delivers for that PID's packets alone; corruption of PID A (every byte x 6 mutation classes + flag flips) must leave all other PIDs unchanged.",
         "PMT PID compared only in schedules where the PAT precedes it. Corruptions never change the PID field.", "5 C07"),
 "C08": (MC, "enumeration of read schedules (every fixed chunk size 1..400; deviation-bounded short-read exploration at every Read call) x reader kind x explicit/auto x packet size 188+k on the real Demuxer, compared with the bytes.Reader/188 baseline",
         "For every configuration both the NextPacket and the NextData sequence must equal the baseline for every schedule; 188+k framings (k up to 16) must equal the 188 form; plain readers with auto-detection must equal the stream minus the two packets detection consumes.",
         "Deviation bound 2 on short reads; two base streams (10 and 7 packets).", "5 C08"),
 "C19": (MC, "exhaustive enumeration of all 2^n per-packet skip decisions (explicit and auto-detected packet size) and structured predicates, of every run length of consecutive skipped packets, of parser modes (observer, replacers, failing at every unit) and of skip vectors x parser modes, on the real Demuxer, compared with the run on the physically filtered stream",
         "Skipper == deletion for every decision vector through NextPacket and NextData; the predicate's call log must equal the reference decoding of every packet once, in order, with header and adaptation field fully parsed; the parser must see exactly the unit partition, skip=false must not change the output and skip=true must substitute exactly the parser's data.",
         "Streams of 7-10 packets (2^n vectors each).", "5 C19"),
 "C20": (MC, "exhaustive enumeration of Demuxer API histories over {NextPacket, NextData, Rewind} up to a depth bound plus every k / (k1,k2) calls before rewinds, on the real Demuxer over a seekable reader; differential oracle against a fresh Demuxer",
         "After the final Rewind (which must return (0, nil)) the complete NextData and NextPacket sequences must equal a fresh Demuxer's, for explicit and auto-detected packet size, whatever was consumed before (mid-unit, buffered sections).",
         "Streams with PAT before PMT; bytes.Reader as the seekable reader.", "5 C20"),
})

CHECKS.update({
 "C03": (FE, "exhaustive fault-position enumeration (every byte x mutation class, truncation at every offset) on base streams plus dispatch x truncation products exhaustive in the control bytes, each run on the real Demuxer under a progress/termination oracle with a hang watchdog",
         "No panic, every call makes progress (consumes input, returns data or ErrNoMorePackets), ErrNoMorePackets within len/8+16 calls and sticky afterwards - over every single-byte mutation and truncation of three base streams x packet size {auto,188} x 4 reader kinds x 2 APIs x options, enlarged-packet forms 189/192/204/376, garbage inputs, and products: 256 AF flag bytes x 184 lengths x 8 extension flag sets; 256 x 256 PES flag/extension-flag bytes x header_data_length classes x every cut; 256 table ids x section lengths x PIDs; 256 descriptor tags x declared lengths x available bytes.",
         "'Every byte sequence' is decided only for the enumerated neighbourhoods and products. One open known finding (failed auto-detection never reaches ErrNoMorePackets).", "5 C03"),
})

CHECKS.update({
 "C09": (FE, "exhaustive fault-position enumeration on reference-encoded sections (every bit flip, byte substitution, burst 2..32 bits at every offset, truncation, extension) judged by an independent section validator; exhaustive enumeration of a bounded family of Muxer PMT contents validated by the same decoder",
         "For each of six base units (PAT, PMT, 2-section SDT, NIT, 2-packet EIT, TOT) every listed corruption is delivered to the real Demuxer on the proper PID: a table may be delivered only if the reference validator (framing + bit-serial CRC-32) accepts its section and then with unaltered content, and a unit the reference accepts completely must be delivered. Mux side: 1..40 streams and every descriptor model that fits (struct Length correct / 0 / wrong): section_length must equal the bytes written, CRC must verify, bytes must equal the reference encoding.",
         "A corruption producing a different section with a valid CRC (2^-32) is counted as undecidable, not judged.", "5 C09"),
 "C10": (MC, "explicit enumeration of the CRC register's transition relation (state x input byte) on the real update function against a bit-serial LFSR; all messages of length 0..2; every split point of a message family; runs of equal bytes of every length 1..600 from four register values; every message length 0..300 in read-only memory (a write to the input faults)",
         "The checksum register is a 2^32-state, 256-input transition system: quick enumerates all 2^32 states for byte 0 plus all top bytes x 2^12 low patterns x all 256 bytes; thorough adds 2^24 stratified states x 256 bytes and then walks the complete 2^40 relation byte by byte under the budget. One-step agreement for all pairs implies agreement for every byte string (induction on length); chunking and residue are checked directly.",
         "Uses the verif hooks VerifUpdateCRC32 / VerifComputeCRC32 / VerifCRC32Table. Reference: one-bit-per-step LFSR.", "5 C10"),
 "C11": (EX, "bounded-exhaustive enumeration of the TS header and adaptation-field model space, each model checked in three directions (reference bytes -> parse, model -> write vs reference bytes, parse -> write identity) through hooks and through NextPacket / Muxer.WritePacket",
         "All PIDs x counters x afc (quick) / the full 12.6 M header product (thorough); all 144 adaptation-field shapes x 8 indicator sets x every stuffing length, every field over its boundary alphabet alone and every pair over 3-value alphabets; adaptation_field_length 0.",
         "Adaptation extension without trailing reserved bytes; consistent struct inputs.", "5 C11"),
 "C12": (EX, "bounded-exhaustive enumeration of the PES header model space (all stream ids, all 1632 structural shapes, every field over its alphabet incl. all 256 trick bytes and all 2^16 CRC values) decoded from / encoded against the reference; stratified 2^25 (quick) or all 2^33 (thorough) timestamps; Duration() against exact integer arithmetic",
         "Decode through parsePESData and NextData, encode through writePESHeader and Muxer.WriteData reassembly; payload boundaries for PES_packet_length 0 / exact / shorter / longer.",
         "Pack header outside the decode domain; CRC / pack header / header stuffing outside the encode domain. One open known finding (stream ids without optional header other than 0xBE/0xBF).", "5 C12"),
 "C13": (EX, "bounded-exhaustive enumeration of table models for the six table types, reference-encoded, demuxed by the real Demuxer and compared field for field; generic header fields through the parsePSIData hook; PAT/PMT writer compared byte for byte",
         "Loop counts 0,1,2,3 and fill-to-limit, descriptor loops of 0..2 kinds, every id field over {0, max, alternating, each single bit}, all table_id variants (34 EIT ids), all 32 versions, pointer fields, 2- and 3-section units.",
         "Descriptors inside tables from a pool of 8 kinds (descriptor space: C14).", "5 C13"),
 "C14": (EX, "bounded-exhaustive enumeration of descriptor models per tag (23 typed + unknown + user-defined), decoded from and encoded against the reference with the struct Length correct / 0 / wrong; all ordered tag pairs and triples in one loop; malformed declared lengths with a sentinel",
         "Every variable part over every length up to the 255-byte limit, all flag subsets, 0..max loop items; descriptor_length and the enclosing 12-bit loop length must always equal the bytes emitted; a malformed body must never shift the following descriptor.",
         "Domain notes in DESIGN.md C14 (bitrate multiples of 50, teletext pages 0..99, single-entry ISO 639).", "5 C14"),
 "C15": (EX, "exhaustive enumeration of the value domain: all 50 457 MJD values, all 86 400 times of day on 554 boundary days, all BCD durations, all raw 16/24-bit patterns; thorough: all days x all seconds",
         "Decode and encode of every value are compared with integer day counting from 1858-11-17 and digit-wise BCD.",
         "UTC times. Uses the dvb.go hooks.", "5 C15"),
})

CHECKS.update({
 "C16": (MC, "stateless model checking of thread interleavings: hand-written cooperative scheduler over the real code with the sync.Pool replaced by a controllable shim (go build -overlay), DFS over scheduling and pool-item choices within a preemption bound and a data-deviation bound, sharded over 14 processes; plus a separate free-running -race pass of the same harness bodies",
         "Threads = independent Demuxer/Muxer instances (2-3 per scenario) whose only shared object is the package-level buffer pool; scheduling points at thread start/end and every pool Get/Put, data choice at Get (any pooled item or a fresh one), pooled buffers poisoned on Put; every execution is run to completion and each thread's results must equal its solo run; pool ownership is asserted; every returned Packet/DemuxerData is deep-copied at delivery and re-compared after later calls (aliasing of the reused read buffer or of pooled memory); the Muxer must not touch the caller's payload; all sequences over {NextData, NextPacket, Rewind} (length <= 5/7, and D^k R D^k2) on streams whose units deliver several data sharing a first packet: every result re-compared after every later call, Rewind included.",
         "Preemption inside library code between pool operations is not explored (no synchronisation there to reorder - instance-local memory); that premise is what the free-running race pass checks (2/8/64 goroutines under -race; it samples schedules and is the prescribed complement, not the deciding step). If pools.go stops importing sync the overlay is a no-op and the evidence says pool_shim_active=false.", "5 C16"),
})

NOT_YET = {}

def main():
    props = [json.loads(l) for l in open(os.path.join(ROOT, "properties.jsonl"))]
    ids = [p["id"] for p in props]
    checks = []
    for i in ids:
        if i not in CHECKS:
            continue
        cat, tech, text, note, ref = CHECKS[i]
        checks.append({
            "property_id": i,
            "quick_cmd": f"./run.sh {i} quick",
            "thorough_cmd": f"./run.sh {i} thorough",
            "evidence_file": f"/verif/evidence/{i}.json",
            "replay_cmd_template": "./bin/check " + i + " --replay {path}",
            "engine": "mc",
            "level_claimed": {"category": cat, "text": text, "design_ref": "DESIGN.md section " + ref},
            "level_note": note,
            "technique": tech,
        })
    na = []
    for i in ids:
        if i not in CHECKS:
            na.append({"property_id": i, "reason": NOT_YET.get(i, "check not built yet in this revision (work in progress; see DESIGN.md section 5 for the planned exhaustive exploration)")})
    commits = subprocess.run(["git", "-C", "/repo", "log", "--format=%h %s", "cf045a5..HEAD"], capture_output=True, text=True).stdout.strip().split("\n")
    hook_commits = [c.split()[0] for c in commits if c and not c.split(" ", 1)[1].startswith("fix:")]
    m = {
        "version": 1,
        "setup_cmd": "./setup.sh",
        "hooks": {
            "guard": "verif (Go build tag)",
            "enable": "go build -tags verif (done by ./run.sh); the only hook file is /repo/verif_hooks.go, add-only, //go:build verif",
            "baseline_off_cmd": "cd /repo && GOFLAGS=-mod=mod GOPROXY=off GOSUMDB=off GOTOOLCHAIN=local go test -json -vet=off -count=1 -timeout 25m ./...",
            "source_commits": hook_commits,
            "add_only": True,
        },
        "engines": [
            {"name": "mc", "path": "/verif/mc", "serves_properties": [c["property_id"] for c in checks],
             "kind_free_text": "hand-written Go engines: E1 explicit-state BFS by replay on the real object with reflective full-state key (mc/space.go, mc/canon.go), E2 deviation-bounded choice-point explorer (mc/dev.go), E4 exact enumerators (mc/enum.go); reference models in /verif/ref"},
        ],
        "checks": checks,
        "not_applicable": na,
        "notes": "All checks are bounded exhaustive explorations executed on the real code (see DESIGN.md). Known findings: /verif/known_findings.json. Seeded property-breaking changes and which check catches them: /verif/seeded and DESIGN.md section 8.",
    }
    json.dump(m, open(os.path.join(ROOT, "MANIFEST.json"), "w"), indent=1)
    print("MANIFEST.json:", len(checks), "checks,", len(na), "not_applicable")

main()
