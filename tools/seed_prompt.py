#!/usr/bin/env python3
"""seed_prompt.py <suffix> [ids...] : create scratch worktrees /tmp/seed/<ID><suffix> of /repo and write the
sub-agent prompt /tmp/seed/prompt_<ID><suffix>.txt for each property (text of the property only + the summaries
of the changes already produced for it, so that the new one is different). Nothing from /verif's machinery
is given to the agent."""
import json, glob, os, subprocess, sys

suffix = sys.argv[1]
ids = sys.argv[2:] or ["C%02d" % i for i in range(1, 21)]
props = {json.loads(l)["id"]: json.loads(l) for l in open("/verif/properties.jsonl")}
earlier = {}
for f in sorted(glob.glob("/verif/seeded/*/meta.json")):
    m = json.load(open(f))
    earlier.setdefault(m["property"], []).append(m["summary"])
os.makedirs("/tmp/seed", exist_ok=True)
for pid in ids:
    p = props[pid]
    wt = f"/tmp/seed/{pid}{suffix}"
    if not os.path.exists(wt):
        subprocess.run(["git", "-C", "/repo", "worktree", "add", "--detach", wt, "HEAD"], check=True, capture_output=True)
    prev = "\n".join("  - " + s for s in earlier.get(pid, []))
    txt = f"""You are helping to test a verification framework by producing ONE realistic defect (a "seeded change") in the Go library asticode/go-astits (an MPEG transport stream demuxer/muxer). Work ONLY inside the scratch git worktree {wt} (a checkout of the library). Do not look at, read or use anything under /verif, and do not touch /repo.

Environment: no network. Before every go command export: GOFLAGS=-mod=mod GOPROXY=off GOSUMDB=off GOTOOLCHAIN=local . The library builds with `go build ./...` and its test suite runs with `go test -count=1 ./...` (all tests pass on the unchanged tree).

The property that your change must BREAK:

  {pid} - {p['title']}
  {p['statement']}
  (Quantified over: {p['quantifier']['text']})

IMPORTANT - be different from earlier attempts. Changes of the following kind have ALREADY been produced for this property; do NOT repeat them or a close variant (choose another code site and another triggering condition):
{prev}
Find a subtle idea in a clause of the property statement or quantifier that none of the earlier attempts touched. Keep all inputs inside the property's stated domain (valid field widths, well-formed streams where the property says so). Good sources: state carried across calls, counters and wrap-around, error paths, length arithmetic at boundaries (0, 1, exact fit, maximum), flag combinations, rarely used options and table/descriptor variants, interactions between two functions, values that only differ in a high bit, behaviour at end of stream, behaviour of the second/third occurrence of something, aliasing of buffers between calls, rarely taken branches of a switch.

Your task:
1. Read the relevant library source in {wt} and design a small source change (a plausible programming mistake or an over-eager "optimisation"/refactoring a maintainer could make; typically 1-15 changed lines in non-test .go files; do NOT edit *_test.go files or files with the build tag `verif`) that makes the library violate the property above.
2. The change must still compile AND `go test -count=1 ./...` in {wt} must still pass completely with the change applied.
3. Prefer a change that needs something SPECIFIC to manifest - a particular interleaving, a fault at a particular point, a multi-step sequence of API calls, an unusual-but-valid input (boundary length, counter wrap-around, specific flag combination), or two cooperating code sites that each look fine alone - rather than one that ordinary use exposes at once. Avoid changes that break basically every use of the library.
4. Write a demonstration: a Go test file {wt}/seed_demo_test.go (package astits, may use unexported identifiers, must not depend on anything outside the library and its existing dependencies; testify's assert/require are available) containing a test named TestSeedDemo that FAILS with your change applied and PASSES on the unchanged tree. Verify both yourself: run it with the change (must fail), then revert your source change WITHOUT git stash (the stash is shared between sibling worktrees that other people are using right now): `git diff -- . ":!seed_demo_test.go" > /tmp/seed/my_{pid}{suffix}.diff; git apply -R /tmp/seed/my_{pid}{suffix}.diff`, run the demo again (must pass), then re-apply with `git apply /tmp/seed/my_{pid}{suffix}.diff`.
5. Finally create the directory {wt}/SEED containing: patch.diff (output of `git diff` for the non-test source change only, applicable with `git apply` at the repository root), seed_demo_test.go (a copy of the demo), and meta.json with the keys: "property" ("{pid}"), "summary" (one sentence: what was changed), "needs_to_manifest" (what specific input/sequence/interleaving is needed), "files" (list of changed files), "ran" (the commands you ran and their outcome). Leave the worktree with the change applied.

Report back briefly: the summary, what it needs to manifest, and confirmation that (a) the full test suite passes with the change, (b) TestSeedDemo fails with the change and passes without it."""
    open(f"/tmp/seed/prompt_{pid}{suffix}.txt", "w").write(txt)
    print(wt)
