#!/usr/bin/env python3
"""Regenerate /verif/seeded/README.md from seeded/*/meta.json."""
import json, glob, os
rows = []
for f in sorted(glob.glob('/verif/seeded/*/meta.json')):
    m = json.load(open(f)); name = os.path.basename(os.path.dirname(f))
    ev = m.get('evaluation', {})
    caught = ev.get('caught_by', [])
    tried = sorted(ev.get('checks', {}).keys())
    rows.append((m.get('property', '?'), name, m.get('summary', '').replace('|', '/').replace('\n', ' '), m.get('needs_to_manifest', '').replace('|', '/').replace('\n', ' '),
                 ', '.join(caught) or ('none (out of the properties\' input domain: ' + m['out_of_domain'][:120] + '...)' if m.get('out_of_domain') else '**none**'), ', '.join(c for c in tried if c not in caught), ev.get('repo_suite_with_change', '?'), ev.get('demo_with_change', '?')[:5]))
out = ["# Independently seeded property-breaking changes", "",
       "Each directory holds `patch.diff` (the change, produced by a sub-agent that saw only the property text and a scratch worktree),",
       "`seed_demo_test.go.txt` (a Go test for package astits: copy it to /repo/seed_demo_test.go; fails with the change, passes without) and `meta.json` (what it needs to manifest + our evaluation:",
       "repository suite still green, demonstration fails, which quick checks exit 1 with a VIOLATION line).", "",
       "Re-evaluate with `python3 tools/seed_eval.py eval <name> [checks]`.", "",
       "| property | seeded change | what was changed | needs to manifest | caught by | ran, not caught | repo suite |", "|---|---|---|---|---|---|---|"]
for r in sorted(rows):
    out.append(f"| {r[0]} | `{r[1]}` | {r[2][:300]} | {r[3][:300]} | {r[4]} | {r[5]} | {r[6]} |")
open('/verif/seeded/README.md', 'w').write('\n'.join(out) + '\n')
print(len(rows), "seeded changes;", sum(1 for r in rows if r[4] == '**none**'), "not caught")
