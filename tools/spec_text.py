#!/usr/bin/env python3
"""Extract the text of /repo/doc/en_300468v011501p.pdf with the standard library only.

The image has no PDF tool (no pdftotext/pdftoppm). The ETSI PDF stores its page text in
Flate-compressed content streams with plain (...)Tj / [...]TJ operators, so zlib + a small
tokenizer is enough to recover the syntax tables ("Syntax / Number of bits / Identifier") that
the reference encoders in /verif/ref are transcribed from (see DESIGN.md, appendix A).

usage: python3 tools/spec_text.py [pdf] [out.txt]      (out defaults to stdout)
This is a documentation helper; no check depends on it.
"""
import re
import sys
import zlib

TOK = re.compile(rb"\((?:\\.|[^\\()])*\)|\[|\]|[-+]?\d*\.?\d+|/[A-Za-z0-9_]+|[A-Za-z\*'\"]+")
NUM = re.compile(rb"[-+]?\d*\.?\d+")


def unescape(b):
    out = bytearray()
    i = 0
    while i < len(b):
        c = b[i]
        if c == 0x5C and i + 1 < len(b):
            n = b[i + 1]
            if n in b"()\\":
                out.append(n)
                i += 2
                continue
            if n in b"nrtbf":
                out.append({110: 10, 114: 13, 116: 9, 98: 8, 102: 12}[n])
                i += 2
                continue
            if 48 <= n <= 55:
                j, v, k = i + 1, 0, 0
                while j < len(b) and k < 3 and 48 <= b[j] <= 55:
                    v = v * 8 + b[j] - 48
                    j += 1
                    k += 1
                out.append(v & 255)
                i = j
                continue
            i += 1
            continue
        out.append(c)
        i += 1
    return bytes(out)


def page_text(t):
    lines, cur, stack, arr = [], [], [], []
    inarr, lasty = False, None
    for m in TOK.finditer(t):
        w = m.group(0)
        if w[:1] == b"(":
            s = unescape(w[1:-1])
            (arr if inarr else stack).append(s)
        elif w == b"[":
            inarr, arr = True, []
        elif w == b"]":
            inarr = False
            stack.append(b"".join(x for x in arr if isinstance(x, bytes)))
        elif NUM.fullmatch(w):
            if inarr:
                if float(w) < -200:  # large negative kerning = a space
                    arr.append(b" ")
            else:
                stack.append(float(w))
        elif w in (b"Tj", b"TJ"):
            if stack and isinstance(stack[-1], bytes):
                cur.append(stack[-1])
            stack = []
        elif w == b"Tm":
            nums = [x for x in stack if isinstance(x, float)]
            if len(nums) >= 6:
                if lasty is None or abs(nums[-1] - lasty) > 2:
                    lines.append(b"".join(cur))
                    cur = []
                lasty = nums[-1]
            stack = []
        elif w in (b"Td", b"TD"):
            nums = [x for x in stack if isinstance(x, float)]
            if len(nums) >= 2 and abs(nums[-1]) > 0.01:
                lines.append(b"".join(cur))
                cur = []
            stack = []
        elif w == b"T*":
            lines.append(b"".join(cur))
            cur, stack = [], []
        elif w[:1] != b"/":
            stack = []
    lines.append(b"".join(cur))
    return b"\n".join(l for l in lines if l.strip())


def main():
    pdf = sys.argv[1] if len(sys.argv) > 1 else "/repo/doc/en_300468v011501p.pdf"
    data = open(pdf, "rb").read()
    pages = []
    for m in re.finditer(rb"stream\r?\n", data):
        s = m.end()
        e = data.find(b"endstream", s)
        try:
            t = zlib.decompress(data[s:e])
        except Exception:
            try:
                t = zlib.decompressobj().decompress(data[s:e])
            except Exception:
                continue
        if b"BT" in t and (b"Tj" in t or b"TJ" in t):
            pages.append(page_text(t))
    out = b"\n\f=====PAGE=====\n".join(pages)
    if len(sys.argv) > 2:
        open(sys.argv[2], "wb").write(out)
    else:
        sys.stdout.buffer.write(out)


if __name__ == "__main__":
    main()
