#!/usr/bin/env python3
"""Systematic small-mutation audit (a tool for finding blind spots, not a check).

  automut.py <workers> <file>[,<file>...] [max-per-file]

For every line of the given library files it generates single-token mutants (comparison flips, shift
and mask constants off by one bit, +/-1 on small integer literals, && <-> ||, true <-> false, removal of
a `continue`/`break`/`return` guard body is NOT attempted). Each mutant is applied to a private copy of
the library (under /tmp/automut/w<k>/repo, removed at the end), built, run against the repository's own
tests; mutants the repository's tests do not notice are then run against the quick tier of the checks
that own that file (in a private copy of /verif, so that neither bin/ nor evidence/ of /verif is
touched). Mutants that survive everything are listed in /verif/mutants/automut_survivors.jsonl for
manual triage (equivalent mutant, out of a property's domain, or a blind spot to close).
"""
import json, os, re, shutil, subprocess, sys, time
from concurrent.futures import ThreadPoolExecutor

ENV = dict(os.environ, GOFLAGS="-mod=mod", GOPROXY="off", GOSUMDB="off", GOTOOLCHAIN="local")
ROOT = "/tmp/automut"
OWN = {
    "descriptor.go": ["C14", "C13"], "data_eit.go": ["C13", "C09"], "data_nit.go": ["C13", "C09"], "data_sdt.go": ["C13", "C09"],
    "data_tot.go": ["C13", "C15"], "data_pat.go": ["C13", "C01"], "data_pmt.go": ["C13", "C01"], "data_psi.go": ["C13", "C09", "C02", "C01"],
    "data_pes.go": ["C12", "C01", "C02"], "packet.go": ["C11", "C04", "C01"], "dvb.go": ["C15", "C13"], "crc32.go": ["C10"],
    "clock_reference.go": ["C11", "C12"], "muxer.go": ["C01", "C04", "C05", "C17", "C18"],
    "demuxer.go": ["C02", "C19", "C20", "C18", "C07", "C06", "C03"], "packet_pool.go": ["C02", "C06", "C07", "C20", "C03"],
    "packet_buffer.go": ["C08", "C18", "C03", "C20"], "data.go": ["C02", "C13", "C09", "C03", "C19"],
    "program_map.go": ["C02", "C07", "C20", "C01"], "wrapping_counter.go": ["C05"], "pools.go": ["C02", "C16"],
}


def sh(cmd, cwd=None, timeout=600):
    try:
        return subprocess.run("ulimit -v 24000000; " + cmd, shell=True, cwd=cwd, env=ENV, capture_output=True, text=True, timeout=timeout, executable="/bin/bash")
    except subprocess.TimeoutExpired:
        class R:
            returncode, stdout, stderr = 124, "TIMEOUT", ""
        return R()


def mutants_of(line):
    """yield (description, new line) for one source line"""
    code = line.split("//")[0]
    if not code.strip() or code.strip().startswith(("import", "package", "func ", "type ", "}", "case ", "default")):
        return
    out = []

    def sub(pat, fn, tag):
        for m in re.finditer(pat, code):
            r = fn(m)
            if r is not None and r != m.group(0):
                out.append((f"{tag}:{m.group(0)}->{r}", code[:m.start()] + r + code[m.end():] + line[len(code):]))
    sub(r"(?<!err )==(?! nil)", lambda m: "!=", "cmp")
    sub(r"(?<!err )!=(?! nil)", lambda m: "==", "cmp")
    sub(r"(?<![<\-])<=(?!=)", lambda m: "<", "cmp")
    sub(r"(?<![>])>=(?!=)", lambda m: ">", "cmp")
    sub(r"(?<![<\-=])\s<\s(?![<=\-])", lambda m: " <= ", "cmp")
    sub(r"(?<![>=\-])\s>\s(?![>=])", lambda m: " >= ", "cmp")
    sub(r"&&", lambda m: "||", "logic")
    sub(r"\|\|", lambda m: "&&", "logic")
    sub(r"<<\s*(\d+)", lambda m: "<< %d" % (int(m.group(1)) + 1), "shift")
    sub(r">>\s*(\d+)", lambda m: ">> %d" % (int(m.group(1)) + 1), "shift")
    sub(r">>\s*(\d+)", lambda m: ">> %d" % (int(m.group(1)) - 1) if int(m.group(1)) > 0 else None, "shift")
    sub(r"&\s*0x([0-9a-fA-F]+)", lambda m: "& 0x%x" % (int(m.group(1), 16) >> 1) if int(m.group(1), 16) > 1 else None, "mask")
    sub(r"&\s*0x([0-9a-fA-F]+)", lambda m: "& 0x%x" % ((int(m.group(1), 16) << 1) & 0xffffffffff | 1), "mask")
    sub(r"\|\s*0x([0-9a-fA-F]+)", lambda m: "| 0x%x" % (int(m.group(1), 16) >> 1), "mask")
    sub(r"(?<![\w.x])(\d{1,3})(?![\w.x])", lambda m: str(int(m.group(1)) + 1), "lit")
    sub(r"(?<![\w.x])(\d{1,3})(?![\w.x])", lambda m: str(int(m.group(1)) - 1) if int(m.group(1)) > 0 else None, "lit")
    sub(r"\btrue\b", lambda m: "false", "bool")
    sub(r"\bfalse\b", lambda m: "true", "bool")
    sub(r"\s\+\s", lambda m: " - ", "arith")
    sub(r"\s-\s", lambda m: " + ", "arith")
    seen = set()
    for d, l in out:
        if l not in seen:
            seen.add(l)
            yield d, l


def worker(k, jobs, results):
    w = f"{ROOT}/w{k}"
    shutil.rmtree(w, ignore_errors=True)
    os.makedirs(w)
    sh(f"mkdir -p {w}/repo && git -C /repo archive HEAD | tar -x -C {w}/repo")
    sh(f"mkdir -p {w}/verif && git -C /verif archive HEAD | tar -x -C {w}/verif")
    for (file, ln, desc, newline) in jobs:
        path = f"{w}/repo/{file}"
        orig = open(path).read()
        lines = orig.split("\n")
        lines[ln] = newline
        open(path, "w").write("\n".join(lines))
        res = {"file": file, "line": ln + 1, "mutation": desc, "new": newline.strip()[:160]}
        try:
            r = sh("go build ./... 2>&1 | tail -2", f"{w}/repo", 300)
            if r.stdout.strip():
                res["outcome"] = "does-not-build"
                continue
            r = sh("go test -count=1 . 2>&1 | tail -3", f"{w}/repo", 300)
            if not (r.stdout.startswith("ok") or "\nok" in r.stdout):
                res["outcome"] = "killed-by-repo-tests"
                continue
            res["outcome"] = "SURVIVED"
            res["ran"] = []
            for c in OWN[file]:
                r = sh(f"VERIF_REPO={w}/repo ./run.sh {c} quick 2>&1 | grep -E '^VIOLATION|^check |BUILD-FAILED|TIMEOUT' | tail -5", f"{w}/verif", 900)
                res["ran"].append(c)
                if "VIOLATION property=" in r.stdout:
                    res["outcome"] = "caught-by-" + c
                    break
                if "BUILD-FAILED" in r.stdout or "TIMEOUT" in r.stdout:
                    res["outcome"] = "check-problem-" + c + ":" + r.stdout[-200:]
                    break
        finally:
            open(path, "w").write(orig)
            results.append(res)
            print(json.dumps(res), flush=True)
    shutil.rmtree(w, ignore_errors=True)


def main():
    nw = int(sys.argv[1])
    files = sys.argv[2].split(",")
    cap = int(sys.argv[3]) if len(sys.argv) > 3 else 10**9
    lo, hi = (int(x) for x in sys.argv[4].split("-")) if len(sys.argv) > 4 else (0, 10**9)
    jobs = []
    for f in files:
        n = 0
        for ln, line in enumerate(open(f"/repo/{f}").read().split("\n")):
            if not (lo <= ln + 1 <= hi):
                continue
            for desc, nl in mutants_of(line):
                if n < cap:
                    jobs.append((f, ln, desc, nl))
                    n += 1
    print(f"# {len(jobs)} mutants", flush=True)
    results = []
    with ThreadPoolExecutor(nw) as ex:
        for k in range(nw):
            ex.submit(worker, k, jobs[k::nw], results)
    surv = [r for r in results if r["outcome"] == "SURVIVED" or r["outcome"].startswith("check-problem")]
    with open("/verif/mutants/automut_survivors.jsonl", "a") as f:
        for r in surv:
            f.write(json.dumps(r) + "\n")
    import collections
    print("#", dict(collections.Counter(r["outcome"].split(":")[0] for r in results)))
    shutil.rmtree(ROOT, ignore_errors=True)


if __name__ == "__main__":
    main()
