#!/bin/bash
# C16: (c) free-running race pass, then (a)+(b) scheduler exploration with the pool shim
# injected through `go build -overlay` (generated from the CURRENT /repo/pools.go).
cd "$(dirname "$0")"
. ./env.sh
TIER="${1:-quick}"
export C16_REPO="${VERIF_REPO:-/repo}"
export C16_ROOT="$(pwd)"
MODFLAG="$VERIF_MODFLAG"
mkdir -p bin/c16
rm -f bin/c16/sched.json bin/c16/race.json bin/c16/race.log
T0=$(date +%s)
# --- race pass ------------------------------------------------------------------------
if go build $MODFLAG -race -o bin/c16race ./cmd/c16race 2>bin/c16/build.err; then
  GORACE="halt_on_error=1 exitcode=66 log_path=bin/c16/race.log" ./bin/c16race bin/c16/race.json
  echo $? > bin/c16/race.exit
else
  cat bin/c16/build.err; echo "BUILD-FAILED property=C16 (race pass)"; exit 2
fi
# --- overlay: pools.go with "sync" redirected to the shim --------------------------------
python3 - <<'PY'
import json, re, os
repo, root = os.environ['C16_REPO'], os.environ['C16_ROOT']
src = open(repo + '/pools.go').read()
new = re.sub(r'import\s+"sync"', 'import sync "github.com/asticode/go-astits/verifsync"', src)
new = re.sub(r'^(\s*)"sync"\s*$', r'\1sync "github.com/asticode/go-astits/verifsync"', new, flags=re.M)
# sync/atomic operations in pools.go become scheduling points as well (check-then-act built from single atomics)
new = re.sub(r'import\s+"sync/atomic"', 'import atomic "github.com/asticode/go-astits/verifatomic"', new)
new = re.sub(r'^(\s*)"sync/atomic"\s*$', r'\1atomic "github.com/asticode/go-astits/verifatomic"', new, flags=re.M)
open(root + '/bin/c16/pools_overlay.txt', 'w').write(new)
json.dump({"Replace": {repo + "/pools.go": root + "/bin/c16/pools_overlay.txt", repo + "/verifsync/verifsync.go": root + "/shim/verifsync.go", repo + "/verifatomic/verifatomic.go": root + "/shim/verifatomic.go"}}, open(root + '/bin/c16/overlay.json', 'w'))
print("overlay: sync redirected" if new != src else "overlay: pools.go does not import sync (shim inactive)")
PY
if ! go build $MODFLAG -overlay bin/c16/overlay.json -tags "verif c16shim" -o bin/c16sched ./cmd/c16 2>bin/c16/build.err; then
  cat bin/c16/build.err; echo "BUILD-FAILED property=C16 (overlay build)"; exit 2
fi
N=14
rm -f bin/c16/shard.*.json
for i in $(seq 0 $((N-1))); do
  ./bin/c16sched "$TIER" bin/c16/shard.$i.json $i $N > bin/c16/shard.$i.log 2>&1 &
done
wait
python3 - <<'PY'
import json, glob, os
root = os.environ['C16_ROOT']
parts = []
for f in sorted(glob.glob(root + '/bin/c16/shard.*.json')):
    try: parts.append(json.load(open(f)))
    except Exception as e: print("unreadable shard result", f, e)
N = 14
if len(parts) != N:
    print("only", len(parts), "of", N, "shards completed")
else:
    m = {"violations": [], "scenarios": [], "executions": 0, "points": 0, "pool_ops_per_execution": 0, "distinct_outcomes": 0, "shim_active": True, "samples": []}
    for p in parts:
        m["violations"] += p["violations"] or []
        m["executions"] += p["executions"]; m["points"] += p["points"]; m["distinct_outcomes"] += p["distinct_outcomes"]
        m["pool_ops_per_execution"] = max(m["pool_ops_per_execution"], p["pool_ops_per_execution"])
        m["shim_active"] = m["shim_active"] and p["shim_active"]
    for k, s in enumerate(parts[0]["scenarios"]):
        s = dict(s)
        for p in parts[1:]:
            q = p["scenarios"][k]
            for key in ("executed", "states", "transitions"):
                s[key] = s.get(key, 0) + q.get(key, 0)
            s["exhaustive"] = s["exhaustive"] and q["exhaustive"]
        m["scenarios"].append(s)
        m["samples"].append({"scenario": s["name"], "executions": s["executed"], "shards": N})
    json.dump(m, open(root + '/bin/c16/sched.json', 'w'), indent=1)
    print("c16 sched:", m["executions"], "executions in", N, "shards; violations:", len(m["violations"]))
PY
VERIF_C16_T0=$T0 exec ./bin/check C16 --tier "$TIER"
