package mc

// Exact enumerators (engine E4). Every enumerator knows the size of its space before it runs.

// Radix is a mixed-radix product space.
type Radix []int

func (r Radix) Size() int64 {
	n := int64(1)
	for _, k := range r {
		n *= int64(k)
	}
	return n
}

// Digits decodes index i into one digit per radix (least significant first).
func (r Radix) Digits(i int64, out []int) []int {
	out = out[:0]
	for _, k := range r {
		out = append(out, int(i%int64(k)))
		i /= int64(k)
	}
	return out
}

// Index is the inverse of Digits.
func (r Radix) Index(d []int) int64 {
	i, m := int64(0), int64(1)
	for k, base := range r {
		i += int64(d[k]) * m
		m *= int64(base)
	}
	return i
}

// MergeCount is the multinomial number of order-preserving merges of sequences of the given
// lengths.
func MergeCount(lens []int) int64 {
	n, tot := int64(1), 0
	for _, l := range lens {
		for k := 1; k <= l; k++ {
			tot++
			n = n * int64(tot) / int64(k)
		}
	}
	return n
}

// Merges calls f with every order-preserving merge; the merge is a slice of source indices
// (which sequence the next element is taken from). f must not retain the slice.
func Merges(lens []int, f func(order []int) bool) {
	tot := 0
	for _, l := range lens {
		tot += l
	}
	rem := append([]int{}, lens...)
	order := make([]int, 0, tot)
	var rec func() bool
	rec = func() bool {
		if len(order) == tot {
			return f(order)
		}
		for s := range rem {
			if rem[s] > 0 {
				rem[s]--
				order = append(order, s)
				ok := rec()
				order = order[:len(order)-1]
				rem[s]++
				if !ok {
					return false
				}
			}
		}
		return true
	}
	rec()
}

// AllMerges materialises the merges (use only for small spaces).
func AllMerges(lens []int) [][]int {
	var out [][]int
	Merges(lens, func(o []int) bool { out = append(out, append([]int{}, o...)); return true })
	return out
}

// Compositions calls f with every way to write n as an ordered sum of parts in [1,maxPart].
func Compositions(n, maxPart int, f func(parts []int)) {
	var parts []int
	var rec func(rem int)
	rec = func(rem int) {
		if rem == 0 {
			f(parts)
			return
		}
		for p := 1; p <= maxPart && p <= rem; p++ {
			parts = append(parts, p)
			rec(rem - p)
			parts = parts[:len(parts)-1]
		}
	}
	rec(n)
}
