package mc

import (
	"fmt"
	"os"
	"runtime"
	"sync/atomic"
	"time"
)

// Guard is the second safety net (next to BlockWatch): a library call that spins - consumes CPU without ever
// returning - cannot be seen as a waiting goroutine. Harness code brackets every batch of library calls
// that normally takes micro- to milliseconds with Guard(...)(); a watchdog declares a violation when one
// bracket has been open for GuardLimit (minutes, four to six orders of magnitude above the normal duration, so
// that machine load cannot produce an alarm). A spinning goroutine cannot be interrupted: the process exits.
var (
	GuardLimit = 5 * time.Minute
	guardCtx   *Ctx
	guardSince [1024]int64 // unix nanoseconds of the open bracket in this slot, 0 = free
	guardDesc  [1024]func() any
	guardBeat0 [1024]int64 // heartbeat count (watch.go) when the bracket was opened: the limit is counted in time the process was alive
	guardSeq   uint64
)

var noopRelease = func() {}

// Guard opens a bracket; call the returned function when the library calls have returned.
func Guard(desc func() any) func() {
	if guardCtx == nil {
		return noopRelease
	}
	now := time.Now().UnixNano()
	for try := 0; try < len(guardSince); try++ {
		k := int(atomic.AddUint64(&guardSeq, 1) % uint64(len(guardSince)))
		if atomic.CompareAndSwapInt64(&guardSince[k], 0, -1) {
			guardDesc[k] = desc
			atomic.StoreInt64(&guardBeat0[k], atomic.LoadInt64(&beats))
			atomic.StoreInt64(&guardSince[k], now)
			return func() { atomic.StoreInt64(&guardSince[k], 0) }
		}
	}
	return noopRelease // more than 1024 brackets open at once: not watched
}

func StartGuardWatch(c *Ctx) {
	guardCtx = c
	startHeartbeat()
	go func() {
		for {
			time.Sleep(10 * time.Second)
			for k := range guardSince {
				t := atomic.LoadInt64(&guardSince[k])
				if t <= 0 || time.Since(time.Unix(0, t)) < GuardLimit {
					continue
				}
				if atomic.LoadInt64(&beats)-atomic.LoadInt64(&guardBeat0[k]) < int64(GuardLimit/(100*time.Millisecond)) {
					continue // the process itself was stalled for part of that time (see ParForWatched)
				}
				buf := make([]byte, 1<<20)
				n := runtime.Stack(buf, true)
				var d any
				if f := guardDesc[k]; f != nil {
					d = f()
				}
				p := writeReplay(c.ID, "not-returning", map[string]any{"property": c.ID, "signature": "library-call-does-not-return", "detail": map[string]any{"kind": "stack", "message": fmt.Sprintf("a batch of library calls that normally takes milliseconds has not returned for %s", GuardLimit), "case": d, "stack": string(buf[:n])}})
				fmt.Printf("VIOLATION property=%s replay=%s\n  signature=library-call-does-not-return (no return for %s)\n", c.ID, p, GuardLimit)
				c.Ev.Write(c, c.Rep.Violations()+1, nil)
				os.Exit(1)
			}
		}
	}()
}
