package mc

import (
	"context"
	"fmt"
	"io"
	"reflect"
	"sort"
	"strings"
	"time"
)

var (
	tCtx    = reflect.TypeOf((*context.Context)(nil)).Elem()
	tReader = reflect.TypeOf((*io.Reader)(nil)).Elem()
	tWriter = reflect.TypeOf((*io.Writer)(nil)).Elem()
	tTime   = reflect.TypeOf(time.Time{})
)

// SemEq is semantic equality of two values: equal canonical dumps (nil and empty slices are
// the same, times compare as instants).
func SemEq(a, b any) bool { return CanonValue(a) == CanonValue(b) }

// CanonValue dumps a value without pointer-identity tracking: two structures with equal
// contents are equal whether or not they share sub-objects (cycles are cut by the depth limit).
func CanonValue(v any) string {
	var sb strings.Builder
	c := canon{sb: &sb, seen: map[uintptr]int{}, noShare: true}
	c.walk(reflect.ValueOf(v), 0)
	return sb.String()
}

// Canon returns a canonical textual dump of the full concrete state reachable from v,
// including unexported fields. Map keys are sorted; func values, context.Context and
// io.Reader/io.Writer interface fields are skipped (their observable state belongs to the
// harness' monitor). A field added to the library later is picked up automatically.
func Canon(v any) string {
	var sb strings.Builder
	c := canon{sb: &sb, seen: map[uintptr]int{}}
	c.walk(reflect.ValueOf(v), 0)
	return sb.String()
}

type canon struct {
	sb      *strings.Builder
	seen    map[uintptr]int
	noShare bool
}

func (c *canon) walk(v reflect.Value, depth int) {
	if depth > 40 {
		c.sb.WriteString("<deep>")
		return
	}
	if !v.IsValid() {
		c.sb.WriteString("nil")
		return
	}
	switch v.Kind() {
	case reflect.Bool:
		if v.Bool() {
			c.sb.WriteByte('T')
		} else {
			c.sb.WriteByte('F')
		}
	case reflect.Int, reflect.Int8, reflect.Int16, reflect.Int32, reflect.Int64:
		fmt.Fprintf(c.sb, "%d", v.Int())
	case reflect.Uint, reflect.Uint8, reflect.Uint16, reflect.Uint32, reflect.Uint64, reflect.Uintptr:
		fmt.Fprintf(c.sb, "%d", v.Uint())
	case reflect.Float32, reflect.Float64:
		fmt.Fprintf(c.sb, "%g", v.Float())
	case reflect.String:
		fmt.Fprintf(c.sb, "%q", v.String())
	case reflect.Func, reflect.Chan, reflect.UnsafePointer:
		c.sb.WriteString("_")
	case reflect.Ptr:
		if v.IsNil() {
			c.sb.WriteString("nil")
			return
		}
		p := v.Pointer()
		if c.noShare {
			c.sb.WriteByte('&')
			c.walk(v.Elem(), depth+1)
			return
		}
		if id, ok := c.seen[p]; ok {
			// shared or cyclic pointer: name it by first-visit order (structure, not address)
			fmt.Fprintf(c.sb, "^%d", id)
			return
		}
		c.seen[p] = len(c.seen)
		c.sb.WriteByte('&')
		c.walk(v.Elem(), depth+1)
	case reflect.Interface:
		if v.IsNil() {
			c.sb.WriteString("nil")
			return
		}
		t := v.Type()
		if t == tCtx || t == tReader || t == tWriter {
			c.sb.WriteString("_")
			return
		}
		c.sb.WriteString(v.Elem().Type().String())
		c.sb.WriteByte(':')
		c.walk(v.Elem(), depth+1)
	case reflect.Slice:
		if v.IsNil() || v.Len() == 0 {
			c.sb.WriteString("[]")
			return
		}
		if v.Type().Elem().Kind() == reflect.Uint8 {
			fmt.Fprintf(c.sb, "x%x", v.Bytes())
			return
		}
		fallthrough
	case reflect.Array:
		c.sb.WriteByte('[')
		for i := 0; i < v.Len(); i++ {
			if i > 0 {
				c.sb.WriteByte(',')
			}
			c.walk(v.Index(i), depth+1)
		}
		c.sb.WriteByte(']')
	case reflect.Map:
		keys := v.MapKeys()
		ks := make([]string, len(keys))
		idx := make([]int, len(keys))
		for i, k := range keys {
			var sb strings.Builder
			cc := canon{sb: &sb, seen: c.seen, noShare: c.noShare}
			cc.walk(k, depth+1)
			ks[i] = sb.String()
			idx[i] = i
		}
		sort.Slice(idx, func(a, b int) bool { return ks[idx[a]] < ks[idx[b]] })
		c.sb.WriteString("map{")
		for _, i := range idx {
			c.sb.WriteString(ks[i])
			c.sb.WriteByte(':')
			c.walk(v.MapIndex(keys[i]), depth+1)
			c.sb.WriteByte(';')
		}
		c.sb.WriteByte('}')
	case reflect.Struct:
		t := v.Type()
		if t == tTime && v.CanInterface() {
			fmt.Fprintf(c.sb, "time(%d)", v.Interface().(time.Time).UnixNano())
			return
		}
		c.sb.WriteByte('{')
		for i := 0; i < v.NumField(); i++ {
			f := t.Field(i)
			c.sb.WriteString(f.Name)
			c.sb.WriteByte('=')
			c.walk(v.Field(i), depth+1)
			c.sb.WriteByte(' ')
		}
		c.sb.WriteByte('}')
	default:
		fmt.Fprintf(c.sb, "?%s", v.Kind())
	}
}
