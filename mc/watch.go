package mc

import (
	"fmt"
	"os"
	"runtime"
	"sync"
	"sync/atomic"
	"time"
)

// Watchdog-protected parallel loop: every worker publishes the case it is running; if a case
// that normally takes microseconds makes no progress for `limit`, the run is declared a hang:
// the case is written out as a replay, a VIOLATION line is printed and the process exits 1
// (a goroutine stuck inside library code cannot be interrupted).
type slot struct {
	mu    sync.Mutex
	desc  any
	since time.Time
	beat0 int64
	busy  bool
}

// beatSink keeps the heartbeat's allocation on the heap; beats counts the heartbeats of the process.
var (
	beatSink  []byte
	beats     int64
	beatsOnce sync.Once
)

func startHeartbeat() {
	beatsOnce.Do(func() {
		go func() {
			for {
				time.Sleep(100 * time.Millisecond)
				beatSink = make([]byte, 64<<10)
				atomic.AddInt64(&beats, 1)
			}
		}()
	})
}

// A case is only declared a hang while the process itself is demonstrably alive: a heartbeat goroutine
// sleeps 100 ms, allocates 64 KiB and counts; a case is hung when `limit` worth of heartbeats went by
// while it was running. A goroutine spinning or blocked inside the library does not stop the heartbeat
// (the scheduler preempts it, the collector runs); a stall of the whole process (the runtime unable to
// start a collection, the machine not scheduling the process) stops the heartbeat together with the
// workers, and is not a hang of the case that happened to be running. First seen as a false alarm on a
// heavily oversubscribed machine: every allocating goroutine, the watchdog's own included, waited
// several minutes in the runtime's semaphore for the start of a collection, then the run went on.

// ParForWatched is ParFor with hang detection. describe(i) must return a JSON-serialisable
// description of case i (only called when a hang is reported).
func ParForWatched(c *Ctx, n int64, limit time.Duration, describe func(i int64) any, f func(i int64)) int64 {
	w := runtime.GOMAXPROCS(0)
	slots := make([]slot, w)
	cur := make([]int64, w)
	stopWatch := make(chan struct{})
	startHeartbeat()
	needBeats := int64(limit / (100 * time.Millisecond))
	go func() {
		t := time.NewTicker(time.Second)
		defer t.Stop()
		for {
			select {
			case <-stopWatch:
				return
			case <-t.C:
				for k := range slots {
					s := &slots[k]
					s.mu.Lock()
					hung := s.busy && time.Since(s.since) > limit && atomic.LoadInt64(&beats)-s.beat0 >= needBeats
					i := atomic.LoadInt64(&cur[k])
					s.mu.Unlock()
					if hung {
						p := writeReplay(c.ID, "hang", map[string]any{"property": c.ID, "signature": "hang", "detail": describe(i)})
						fmt.Printf("VIOLATION property=%s replay=%s\n  signature=hang (no progress for %s inside one case)\n", c.ID, p, limit)
						c.Ev.Write(c, c.Rep.Violations()+1, nil)
						os.Exit(1)
					}
				}
			}
		}
	}()
	var next, done int64
	var wg sync.WaitGroup
	const chunk = 256
	for k := 0; k < w; k++ {
		wg.Add(1)
		go func(k int) {
			defer wg.Done()
			s := &slots[k]
			for {
				lo := atomic.AddInt64(&next, chunk) - chunk
				if lo >= n || c.OverBudget() {
					return
				}
				hi := lo + chunk
				if hi > n {
					hi = n
				}
				for i := lo; i < hi; i++ {
					atomic.StoreInt64(&cur[k], i)
					s.mu.Lock()
					s.busy, s.since, s.beat0 = true, time.Now(), atomic.LoadInt64(&beats)
					s.mu.Unlock()
					safeJob(f, i)
					s.mu.Lock()
					s.busy = false
					s.mu.Unlock()
				}
				atomic.AddInt64(&done, hi-lo)
			}
		}(k)
	}
	wg.Wait()
	close(stopWatch)
	return done
}
