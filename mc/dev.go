package mc

import (
	"fmt"
	"runtime"
	"sync"
	"sync/atomic"
)

// Env answers the harness' choice points (engine E2). Choice 0 is always the default
// answer (full read, success, pass through, greedy packetisation); any other answer is a
// deviation. A run replays a prefix of choices and answers 0 afterwards.
type Env struct {
	prefix  []int
	Choices []int
	Arity   []int
	Kind    []int
	Free    []bool
}

// Choose returns the answer for a choice point with n alternatives.
func (e *Env) Choose(n int) int {
	i := len(e.Choices)
	c := 0
	if i < len(e.prefix) {
		c = e.prefix[i]
		if c >= n {
			panic(fmt.Sprintf("mc.Dev: replay divergence: choice %d of %d at point %d", c, n, i))
		}
	}
	e.Choices = append(e.Choices, c)
	e.Arity = append(e.Arity, n)
	return c
}

// Deviations counts the non-default answers taken so far.
func (e *Env) Deviations() int {
	d := 0
	for _, c := range e.Choices {
		if c != 0 {
			d++
		}
	}
	return d
}

// NewEnv returns an environment that replays the given choices (for replay files).
func NewEnv(prefix []int) *Env { return &Env{prefix: prefix} }

type devTask struct {
	prefix []int
	devs   int
}

// Explore runs `run` for every choice sequence with at most `bound` deviations from the
// default answers; every execution runs to completion. run must be deterministic given the
// choices and goroutine-safe. Returns executions and the total number of choice points seen.
func Explore(bound int, stop func() bool, run func(env *Env)) (execs, points int64, complete bool) {
	var mu sync.Mutex
	cond := sync.NewCond(&mu)
	stack := []devTask{{nil, 0}}
	active := 0
	stopped := false
	w := runtime.GOMAXPROCS(0)
	var wg sync.WaitGroup
	for k := 0; k < w; k++ {
		wg.Add(1)
		go func() {
			defer wg.Done()
			for {
				mu.Lock()
				for len(stack) == 0 && active > 0 && !stopped {
					cond.Wait()
				}
				if stopped || (len(stack) == 0 && active == 0) {
					mu.Unlock()
					cond.Broadcast()
					return
				}
				t := stack[len(stack)-1]
				stack = stack[:len(stack)-1]
				active++
				mu.Unlock()

				env := &Env{prefix: t.prefix}
				run(env)
				atomic.AddInt64(&execs, 1)
				atomic.AddInt64(&points, int64(len(env.Choices)-len(t.prefix)))
				var kids []devTask
				if t.devs < bound {
					for i := len(t.prefix); i < len(env.Choices); i++ {
						for alt := 1; alt < env.Arity[i]; alt++ {
							p := make([]int, i+1)
							copy(p, env.Choices[:i])
							p[i] = alt
							kids = append(kids, devTask{p, t.devs + 1})
						}
					}
				}
				mu.Lock()
				stack = append(stack, kids...)
				active--
				if stop != nil && stop() {
					stopped = true
				}
				mu.Unlock()
				cond.Broadcast()
			}
		}()
	}
	wg.Wait()
	return execs, points, !stopped
}

// ---------------------------------------------------------------------------------------
// Choice points of several kinds with one deviation bound per kind (used by the scheduler
// explorer: kind 0 = preemptions, kind 1 = data choices). A point marked free costs nothing
// for a non-default answer (e.g. switching away from a finished thread is not a preemption).

// ChooseK is Choose with a kind and a free flag.
func (e *Env) ChooseK(n, kind int, free bool) int {
	c := e.Choose(n)
	e.Kind = append(e.Kind, kind)
	e.Free = append(e.Free, free)
	return c
}

type devTaskK struct {
	prefix []int
	cost   []int
}

// ExploreK explores every choice sequence whose number of non-free deviations of each kind
// stays within bounds[kind]. All choice points must be made through ChooseK.
func ExploreK(bounds []int, stop func() bool, run func(env *Env)) (execs, points int64, complete bool) {
	return ExploreKShard(bounds, 0, 1, stop, run)
}

// ExploreKShard explores the shard-th of nshards slices of the space so that several processes
// can share one exploration: executions with at most one deviation are run by every shard (they
// are needed to discover the choice points) but counted by shard 0 only; executions with two
// deviations are dealt to the shards by a hash of their choice prefix, and each shard explores
// the subtrees below its own ones completely.
func ExploreKShard(bounds []int, shard, nshards int, stop func() bool, run func(env *Env)) (execs, points int64, complete bool) {
	var mu sync.Mutex
	cond := sync.NewCond(&mu)
	stack := []devTaskK{{nil, make([]int, len(bounds))}}
	active := 0
	stopped := false
	w := runtime.GOMAXPROCS(0)
	var wg sync.WaitGroup
	for k := 0; k < w; k++ {
		wg.Add(1)
		go func() {
			defer wg.Done()
			for {
				mu.Lock()
				for len(stack) == 0 && active > 0 && !stopped {
					cond.Wait()
				}
				if stopped || (len(stack) == 0 && active == 0) {
					mu.Unlock()
					cond.Broadcast()
					return
				}
				t := stack[len(stack)-1]
				stack = stack[:len(stack)-1]
				active++
				mu.Unlock()

				env := &Env{prefix: t.prefix}
				run(env)
				level := 0
				for _, c := range t.prefix {
					if c != 0 {
						level++
					}
				}
				if level >= 2 || shard == 0 {
					atomic.AddInt64(&execs, 1)
					atomic.AddInt64(&points, int64(len(env.Choices)-len(t.prefix)))
				}
				var kids []devTaskK
				for i := len(t.prefix); i < len(env.Choices); i++ {
					kind := env.Kind[i]
					cost := append([]int{}, t.cost...)
					if !env.Free[i] {
						cost[kind]++
					}
					if cost[kind] > bounds[kind] {
						continue
					}
					for alt := 1; alt < env.Arity[i]; alt++ {
						p := make([]int, i+1)
						copy(p, env.Choices[:i])
						p[i] = alt
						if level == 1 && nshards > 1 {
							h := uint32(2166136261)
							for _, c := range p {
								h = (h ^ uint32(c)) * 16777619
							}
							if int(h>>8)%nshards != shard {
								continue
							}
						}
						kids = append(kids, devTaskK{p, cost})
					}
				}
				mu.Lock()
				stack = append(stack, kids...)
				active--
				if stop != nil && stop() {
					stopped = true
				}
				mu.Unlock()
				cond.Broadcast()
			}
		}()
	}
	wg.Wait()
	return execs, points, !stopped
}
