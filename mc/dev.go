package mc

import (
	"fmt"
	"runtime"
	"sync"
	"sync/atomic"
)

// Env answers the harness' choice points (engine E2). Choice 0 is always the default
// answer (full read, success, pass through, greedy packetisation); any other answer is a
// deviation. A run replays a prefix of choices and answers 0 afterwards.
type Env struct {
	prefix  []int
	Choices []int
	Arity   []int
}

// Choose returns the answer for a choice point with n alternatives.
func (e *Env) Choose(n int) int {
	i := len(e.Choices)
	c := 0
	if i < len(e.prefix) {
		c = e.prefix[i]
		if c >= n {
			panic(fmt.Sprintf("mc.Dev: replay divergence: choice %d of %d at point %d", c, n, i))
		}
	}
	e.Choices = append(e.Choices, c)
	e.Arity = append(e.Arity, n)
	return c
}

// Deviations counts the non-default answers taken so far.
func (e *Env) Deviations() int {
	d := 0
	for _, c := range e.Choices {
		if c != 0 {
			d++
		}
	}
	return d
}

// NewEnv returns an environment that replays the given choices (for replay files).
func NewEnv(prefix []int) *Env { return &Env{prefix: prefix} }

type devTask struct {
	prefix []int
	devs   int
}

// Explore runs `run` for every choice sequence with at most `bound` deviations from the
// default answers; every execution runs to completion. run must be deterministic given the
// choices and goroutine-safe. Returns executions and the total number of choice points seen.
func Explore(bound int, stop func() bool, run func(env *Env)) (execs, points int64, complete bool) {
	var mu sync.Mutex
	cond := sync.NewCond(&mu)
	stack := []devTask{{nil, 0}}
	active := 0
	stopped := false
	w := runtime.GOMAXPROCS(0)
	var wg sync.WaitGroup
	for k := 0; k < w; k++ {
		wg.Add(1)
		go func() {
			defer wg.Done()
			for {
				mu.Lock()
				for len(stack) == 0 && active > 0 && !stopped {
					cond.Wait()
				}
				if stopped || (len(stack) == 0 && active == 0) {
					mu.Unlock()
					cond.Broadcast()
					return
				}
				t := stack[len(stack)-1]
				stack = stack[:len(stack)-1]
				active++
				mu.Unlock()

				env := &Env{prefix: t.prefix}
				run(env)
				atomic.AddInt64(&execs, 1)
				atomic.AddInt64(&points, int64(len(env.Choices)-len(t.prefix)))
				var kids []devTask
				if t.devs < bound {
					for i := len(t.prefix); i < len(env.Choices); i++ {
						for alt := 1; alt < env.Arity[i]; alt++ {
							p := make([]int, i+1)
							copy(p, env.Choices[:i])
							p[i] = alt
							kids = append(kids, devTask{p, t.devs + 1})
						}
					}
				}
				mu.Lock()
				stack = append(stack, kids...)
				active--
				if stop != nil && stop() {
					stopped = true
				}
				mu.Unlock()
				cond.Broadcast()
			}
		}()
	}
	wg.Wait()
	return execs, points, !stopped
}
