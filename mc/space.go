package mc

import (
	"crypto/sha256"
	"sync"
	"sync/atomic"
)

// Sys is a transition system explored on the real implementation (engine E1). A state is
// represented by the shortest operation history that reaches it; a successor is computed by
// replaying that history on a fresh real object plus one operation.
type Sys struct {
	NumOps int
	// Run builds a fresh instance, replays hist (operation indices) with the monitors active
	// and returns the canonical key of the resulting state (full concrete state of the real
	// object plus monitor state). Violations at the LAST step must be reported by Run itself
	// (earlier steps were reported when their own transition was explored). expand=false
	// prunes the successors of this state (used for states from which nothing is enabled).
	Run func(hist []uint8) (key string, expand bool)
}

type SpaceResult struct {
	States, Trans int64
	Depth         int
	Exhaustive    bool // fixpoint reached (or depth bound reached with bounded=true meaning: all histories <= depth covered)
	FrontierLeft  int
}

type shardSet struct {
	mu [64]sync.Mutex
	m  [64]map[[16]byte]struct{}
}

func newShardSet() *shardSet {
	s := &shardSet{}
	for i := range s.m {
		s.m[i] = map[[16]byte]struct{}{}
	}
	return s
}

func (s *shardSet) add(key string) bool {
	h := sha256.Sum256([]byte(key))
	var k [16]byte
	copy(k[:], h[:16])
	i := int(k[0]) & 63
	s.mu[i].Lock()
	_, ok := s.m[i][k]
	if !ok {
		s.m[i][k] = struct{}{}
	}
	s.mu[i].Unlock()
	return !ok
}

// BFS explores level by level from the given start histories. maxDepth < 0 means run to
// closure (fixpoint). dedup=false explores the full history tree (no state merging).
// stop() lets a budget end the run early (result then has Exhaustive=false).
func BFS(sys Sys, starts [][]uint8, maxDepth int, dedup bool, stop func() bool) SpaceResult {
	seen := newShardSet()
	var res SpaceResult
	var frontier [][]uint8
	for _, st := range starts {
		k, exp := sys.Run(st)
		if !dedup || seen.add(k) {
			res.States++
			if exp {
				frontier = append(frontier, append([]uint8{}, st...))
			}
		}
	}
	depth := 0
	for len(frontier) > 0 && (maxDepth < 0 || depth < maxDepth) {
		if stop != nil && stop() {
			res.FrontierLeft = len(frontier)
			res.Depth = depth
			return res
		}
		depth++
		var mu sync.Mutex
		var next [][]uint8
		var trans, states int64
		n := int64(len(frontier)) * int64(sys.NumOps)
		done := ParFor(n, stop, func(i int64) {
			h := frontier[i/int64(sys.NumOps)]
			nh := make([]uint8, len(h)+1)
			copy(nh, h)
			nh[len(h)] = uint8(i % int64(sys.NumOps))
			k, exp := sys.Run(nh)
			atomic.AddInt64(&trans, 1)
			if !dedup || seen.add(k) {
				atomic.AddInt64(&states, 1)
				if exp {
					mu.Lock()
					next = append(next, nh)
					mu.Unlock()
				}
			}
		})
		res.Trans += trans
		res.States += states
		res.Depth = depth
		if done < n {
			res.FrontierLeft = len(frontier)
			return res
		}
		frontier = next
	}
	res.Exhaustive = true
	res.FrontierLeft = len(frontier)
	return res
}
