package mc

import (
	"fmt"
	"os"
	"regexp"
	"runtime"
	"strings"
	"time"
)

// BlockWatch is a safety net for every check: the library is driven over in-memory readers and writers,
// so none of its calls can legitimately wait for anything. Every 20 s the goroutine dump is inspected; a
// goroutine that the runtime reports as waiting for more than a minute (lock, channel, select, semaphore)
// with a library frame on its stack is a call that blocks without consuming input: the run is declared a
// violation (a blocked goroutine cannot be interrupted, so the process exits). CPU-bound work of the check
// itself never matches: the runtime only annotates waiting goroutines with a duration.
//
// Two conditions keep a stall of the process itself from being taken for a blocked call (seen once on an
// oversubscribed machine: for minutes no goroutine could allocate - all of them, this watchdog included,
// queued on the runtime's semaphore for the start of a collection - then the run went on; the first dump
// after that still showed the old waiting time of a goroutine that had not been rescheduled yet):
// the goroutine must still be blocked in the next dump 20 s later (a deadlocked call stays blocked for
// ever), and a wait in state "semacquire" counts only when the semaphore was reached through package
// sync (WaitGroup, Once, ...): a library frame directly under the runtime's semaphore is an allocation
// waiting for the collector, not a wait the library asked for.
var blockedHeader = regexp.MustCompile(`^goroutine (\d+) \[(semacquire|sync\.Mutex\.Lock|sync\.RWMutex\.R?Lock|chan receive|chan send|select|sync\.Cond\.Wait|sync\.WaitGroup\.Wait)[^\]]*, (\d+) minutes\]`)

func StartBlockWatch(c *Ctx, libraryPrefix string) {
	go func() {
		buf := make([]byte, 8<<20)
		seenBefore := map[string]bool{}
		for {
			time.Sleep(20 * time.Second)
			n := runtime.Stack(buf, true)
			seenNow := map[string]bool{}
			for _, g := range strings.Split(string(buf[:n]), "\n\n") {
				m := blockedHeader.FindStringSubmatch(g)
				if m == nil || !strings.Contains(g, libraryPrefix) {
					continue
				}
				// the blocking primitive has to be reached from library code: the first non-runtime, non-sync frame
				// below the top is a library frame
				lines := strings.Split(g, "\n")
				inLib := false
				first := true
				for _, l := range lines[1:] {
					if strings.HasPrefix(l, "\t") {
						continue
					}
					if first && m[2] == "semacquire" && !strings.HasPrefix(l, "sync.") && !strings.HasPrefix(l, "internal/") {
						break // the runtime's own semaphore under an allocation
					}
					first = false
					if strings.HasPrefix(l, "runtime.") || strings.HasPrefix(l, "sync.") || strings.HasPrefix(l, "internal/") {
						continue
					}
					inLib = strings.HasPrefix(l, libraryPrefix)
					break
				}
				if !inLib {
					continue
				}
				seenNow[m[1]] = true
				if !seenBefore[m[1]] {
					continue // reported when it is still blocked in the next dump
				}
				p := writeReplay(c.ID, "blocked", map[string]any{"property": c.ID, "signature": "blocked-inside-library", "detail": map[string]any{"kind": "stack", "message": "a library call has been waiting for " + m[3] + " minutes (" + m[2] + ") although every reader and writer of the check is in memory", "stack": g}})
				fmt.Printf("VIOLATION property=%s replay=%s\n  signature=blocked-inside-library (%s for %s minutes)\n", c.ID, p, m[2], m[3])
				c.Ev.Write(c, c.Rep.Violations()+1, nil)
				os.Exit(1)
			}
			seenBefore = seenNow
		}
	}()
}
