// Package mc holds the hand-written exploration engines and the plumbing shared by all
// checks: reporter (violations / known findings / replay files), evidence writer,
// exact enumerators, explicit-state search by replay, deviation-bounded choice explorer.
package mc

import (
	"crypto/sha256"
	"encoding/hex"
	"encoding/json"
	"fmt"
	"os"
	"path/filepath"
	"runtime"
	"runtime/debug"
	"sort"
	"sync"
	"sync/atomic"
	"time"
)

// Root is the verification directory (evidence, replays, known findings live below it).
var Root = "/verif"

// Ctx is handed to every check.
type Ctx struct {
	ID     string
	Tier   string // quick | thorough
	Seed   int64
	Start  time.Time
	Budget time.Duration // soft deadline for thorough runs; never an oracle
	Rep    *Reporter
	Ev     *Evidence
	Hooks  bool // built with -tags verif
}

func (c *Ctx) Thorough() bool { return c.Tier == "thorough" }

// OverBudget reports whether the (thorough) run should stop enumerating; a check that stops
// early must mark the scenario non-exhaustive.
func (c *Ctx) OverBudget() bool { return c.Budget > 0 && time.Since(c.Start) > c.Budget }

// ---------------------------------------------------------------------------------------
// Known findings

type Finding struct {
	Property  string `json:"property"`
	Signature string `json:"signature"`
	Status    string `json:"status"` // open | fixed
	Commit    string `json:"commit,omitempty"`
	What      string `json:"what"`
	Witness   any    `json:"witness,omitempty"`
}

func LoadFindings() ([]Finding, error) {
	b, err := os.ReadFile(filepath.Join(Root, "known_findings.json"))
	if err != nil {
		if os.IsNotExist(err) {
			return nil, nil
		}
		return nil, err
	}
	var f struct {
		Findings []Finding `json:"findings"`
	}
	if err := json.Unmarshal(b, &f); err != nil {
		return nil, err
	}
	return f.Findings, nil
}

// ---------------------------------------------------------------------------------------
// Reporter

type viol struct {
	Sig    string
	Detail any
	Replay string
}

// Reporter collects violations. A violation carries a signature computed by the property's
// classifier from the locus of the failure; if the signature is listed as an *open* known
// finding of this property the violation is counted as known, otherwise it is a VIOLATION.
type Reporter struct {
	id       string
	mu       sync.Mutex
	known    map[string]*Finding
	seenK    map[string]int64
	firstK   map[string]any
	viols    []viol
	sigCount map[string]int64
	nviol    int64
	// ReplayCheck, if set, is called with the replay detail before a violation is believed;
	// it must re-execute the case twice and return the observation strings.
	maxKeep int
}

func NewReporter(id string, fs []Finding) *Reporter {
	r := &Reporter{id: id, known: map[string]*Finding{}, seenK: map[string]int64{}, firstK: map[string]any{}, maxKeep: 5, sigCount: map[string]int64{}}
	for i := range fs {
		f := &fs[i]
		if f.Property == id && f.Status == "open" {
			r.known[f.Signature] = f
		}
	}
	return r
}

// Known reports whether sig is an open known finding for this property.
func (r *Reporter) Known(sig string) bool { _, ok := r.known[sig]; return ok }

// Report records a violation with classifier signature sig; detail must be JSON-serialisable
// and sufficient to replay the case. Returns true if it was a listed (open) known finding.
func (r *Reporter) Report(sig string, detail any) bool {
	r.mu.Lock()
	defer r.mu.Unlock()
	if _, ok := r.known[sig]; ok {
		r.seenK[sig]++
		if _, ok := r.firstK[sig]; !ok {
			r.firstK[sig] = detail
		}
		return true
	}
	r.nviol++
	r.sigCount[sig]++
	if r.sigCount[sig] == 1 && len(r.viols) < r.maxKeep*4 || len(r.viols) < r.maxKeep {
		r.viols = append(r.viols, viol{Sig: sig, Detail: detail})
	}
	return false
}

func (r *Reporter) Violations() int64 { r.mu.Lock(); defer r.mu.Unlock(); return r.nviol }

// Finish writes replay files, prints the interface lines and returns the process exit code.
func (r *Reporter) Finish() (exit int, knownSeen map[string]int64) {
	r.mu.Lock()
	defer r.mu.Unlock()
	os.MkdirAll(filepath.Join(Root, "replays"), 0o755)
	sigs := make([]string, 0, len(r.seenK))
	for s := range r.seenK {
		sigs = append(sigs, s)
	}
	sort.Strings(sigs)
	for _, s := range sigs {
		f := r.known[s]
		p := writeReplay(r.id, "known-"+s, map[string]any{"property": r.id, "signature": s, "known_finding": true, "what": f.What, "detail": r.firstK[s]})
		fmt.Printf("KNOWN-FINDING: property=%s %s [signature=%s occurrences=%d witness=%s]\n", r.id, f.What, s, r.seenK[s], p)
	}
	for i := range r.viols {
		v := &r.viols[i]
		v.Replay = writeReplay(r.id, "", map[string]any{"property": r.id, "signature": v.Sig, "detail": v.Detail})
		fmt.Printf("VIOLATION property=%s replay=%s\n", r.id, v.Replay)
		fmt.Printf("  signature=%s\n", v.Sig)
	}
	for s, n := range r.sigCount {
		fmt.Printf("  violations with signature %s: %d\n", s, n)
	}
	if r.nviol > int64(len(r.viols)) {
		fmt.Printf("  (%d further violations not written out)\n", r.nviol-int64(len(r.viols)))
	}
	if r.nviol > 0 {
		return 1, r.seenK
	}
	return 0, r.seenK
}

func writeReplay(id, name string, v any) string {
	b, _ := json.MarshalIndent(v, "", " ")
	if name == "" {
		h := sha256.Sum256(b)
		name = hex.EncodeToString(h[:6])
	}
	p := filepath.Join(Root, "replays", id+"-"+name+".json")
	os.WriteFile(p, b, 0o644)
	return p
}

// ---------------------------------------------------------------------------------------
// Evidence

type Scenario struct {
	Name       string `json:"name"`
	SpaceSize  int64  `json:"space_size,omitempty"` // computed before running, where computable
	Executed   int64  `json:"executed"`
	States     int64  `json:"states,omitempty"`
	Trans      int64  `json:"transitions,omitempty"`
	Depth      int    `json:"max_depth,omitempty"`
	Bound      string `json:"bound,omitempty"`
	Exhaustive bool   `json:"exhaustive"`
	Outcomes   int64  `json:"distinct_outcomes,omitempty"`
	Note       string `json:"note,omitempty"`
}

type Evidence struct {
	mu          sync.Mutex
	Level       string
	Rule        string
	Scenarios   []Scenario
	Samples     []any
	Assumptions []string
	Classes     map[string]int64 // vacuity classes observed on the model/driver side
	Extra       map[string]any
	distinct    map[string]struct{}
	distinctN   int64
	States      int64
	Trans       int64
	Evals       int64
	Traces      int64
	required    []string
}

func NewEvidence(level string) *Evidence {
	return &Evidence{Level: level, Classes: map[string]int64{}, Extra: map[string]any{}, distinct: map[string]struct{}{}}
}

func (e *Evidence) AddScenario(s Scenario) {
	e.mu.Lock()
	defer e.mu.Unlock()
	e.Scenarios = append(e.Scenarios, s)
	e.Evals += s.Executed
	e.Traces += s.Executed
	e.States += s.States
	e.Trans += s.Trans
}

// Sample keeps up to 8 written-out cases.
func (e *Evidence) Sample(v any) {
	e.mu.Lock()
	defer e.mu.Unlock()
	if len(e.Samples) < 8 {
		e.Samples = append(e.Samples, v)
	}
}

// Class counts an outcome class seen on the driver/model side (vacuity guard).
func (e *Evidence) Class(name string, n int64) {
	e.mu.Lock()
	e.Classes[name] += n
	e.mu.Unlock()
}

// Distinct registers a non-trivial distinct shape key (bounded memory: keys are hashed).
func (e *Evidence) Distinct(key string) {
	h := sha256.Sum256([]byte(key))
	k := string(h[:12])
	e.mu.Lock()
	if _, ok := e.distinct[k]; !ok {
		if len(e.distinct) < 4_000_000 {
			e.distinct[k] = struct{}{}
		}
		e.distinctN++
	}
	e.mu.Unlock()
}

// DistinctAdd adds n distinct cases counted elsewhere (e.g. by a sharded set).
func (e *Evidence) DistinctAdd(n int64) { atomic.AddInt64(&e.distinctN, n) }

func (e *Evidence) Write(c *Ctx, violations int64, known map[string]int64) error {
	e.mu.Lock()
	defer e.mu.Unlock()
	exh := len(e.Scenarios) > 0
	for _, s := range e.Scenarios {
		if !s.Exhaustive {
			exh = false
		}
	}
	cov := map[string]any{
		"evaluations":                   e.Evals,
		"distinct_nontrivial":           e.distinctN,
		"rule":                          e.Rule,
		"samples":                       e.Samples,
		"exhaustive":                    exh,
		"scenarios":                     e.Scenarios,
		"vacuity_classes_seen":          e.Classes,
		"known_findings_seen":           known,
		"traces_validated_against_impl": e.Traces,
		"hooks":                         map[bool]string{true: "on", false: "off"}[c.Hooks],
		"gomaxprocs":                    runtime.GOMAXPROCS(0),
	}
	if e.States > 0 {
		cov["states"] = e.States
		cov["transitions"] = e.Trans
	}
	for k, v := range e.Extra {
		cov[k] = v
	}
	if len(e.Samples) == 0 {
		cov["samples"] = []any{"(none recorded)"}
	}
	doc := map[string]any{
		"property_id": c.ID,
		"tier":        c.Tier,
		"seed":        c.Seed,
		"level":       e.Level,
		"coverage":    cov,
		"assumptions": e.Assumptions,
		"wall_s":      time.Since(c.Start).Seconds(),
		"violations":  violations,
	}
	b, err := json.MarshalIndent(doc, "", " ")
	if err != nil {
		return err
	}
	os.MkdirAll(filepath.Join(Root, "evidence"), 0o755)
	return os.WriteFile(filepath.Join(Root, "evidence", c.ID+".json"), b, 0o644)
}

// ---------------------------------------------------------------------------------------
// Parallel helpers

// ParFor runs f(i) for i in [0,n) on all cores; f must be goroutine-safe. stop() is polled
// between items; returns the number of items executed (== n iff not stopped).
func ParFor(n int64, stop func() bool, f func(i int64)) int64 {
	var next, done int64
	w := runtime.GOMAXPROCS(0)
	if int64(w) > n {
		w = int(n)
	}
	if w < 1 {
		w = 1
	}
	const chunk = 64
	var wg sync.WaitGroup
	for k := 0; k < w; k++ {
		wg.Add(1)
		go func() {
			defer wg.Done()
			for {
				lo := atomic.AddInt64(&next, chunk) - chunk
				if lo >= n {
					return
				}
				if stop != nil && stop() {
					return
				}
				hi := lo + chunk
				if hi > n {
					hi = n
				}
				for i := lo; i < hi; i++ {
					safeJob(f, i)
				}
				atomic.AddInt64(&done, hi-lo)
			}
		}()
	}
	wg.Wait()
	return done
}

// OnJobPanic, when set, receives panics raised inside a ParFor job (the harness tripping over
// something the library returned, e.g. a nil where the property demands a value): the check
// reports them as violations instead of crashing without a verdict.
var OnJobPanic func(i int64, p any, stack string)

func safeJob(f func(i int64), i int64) {
	if OnJobPanic == nil {
		f(i)
		return
	}
	defer func() {
		if r := recover(); r != nil {
			OnJobPanic(i, r, string(debug.Stack()))
		}
	}()
	f(i)
}

// Catch runs f and converts a panic into an error string (with no stack; the replay
// reproduces it).
func Catch(f func()) (panicked any) {
	defer func() {
		if r := recover(); r != nil {
			panicked = r
		}
	}()
	f()
	return nil
}

// Hex is a []byte that marshals as a hex string.
type Hex []byte

func (h Hex) MarshalJSON() ([]byte, error) { return json.Marshal(hex.EncodeToString(h)) }
func (h *Hex) UnmarshalJSON(b []byte) error {
	var s string
	if err := json.Unmarshal(b, &s); err != nil {
		return err
	}
	x, err := hex.DecodeString(s)
	*h = x
	return err
}

// Require declares driver-side outcome classes a run must have exercised (vacuity guard).
func (e *Evidence) Require(classes ...string) {
	e.mu.Lock()
	e.required = append(e.required, classes...)
	e.mu.Unlock()
}

// Vacuous returns the first required class that was never seen ("" if none is missing).
func (e *Evidence) Vacuous() string {
	e.mu.Lock()
	defer e.mu.Unlock()
	for _, k := range e.required {
		if e.Classes[k] == 0 {
			return k
		}
	}
	return ""
}
