package checks

import (
	"bytes"
	"context"
	"errors"
	"fmt"

	astits "github.com/asticode/go-astits"
	"verif/mc"
)

// Further replayers: each re-executes the case of a replay file without any explorer and
// prints what the library does; a returned error means the recorded violation message applies.

func hexOf(d map[string]any, key string) []byte {
	var b mc.Hex
	reJSON(d[key], &b)
	return b
}

func init() {
	Replayers["reader-fault"] = func(d map[string]any) error {
		var cfg readerCfg
		reJSON(d["cfg"], &cfg)
		b := hexOf(d, "bytes")
		at := int(d["fail_at"].(float64))
		r, fr := mkFaultReader(cfg, b, at)
		got, err, reached, pan := observeUntilFault(cfg, r, fr, len(b))
		fmt.Printf("  cfg=%+v fail_at=%d: %d results before, pending call error=%v, failure reached=%v, panic=%v\n", cfg, at, len(got), err, reached, pan)
		if pan != nil || (reached && (err == nil || errors.Is(err, astits.ErrNoMorePackets) || !errors.Is(err, errInjected))) {
			return fmt.Errorf("%v", d["message"])
		}
		return nil
	}
	Replayers["rewind"] = func(d map[string]any) error {
		b := hexOf(d, "bytes")
		ops, _ := d["ops"].(string)
		auto, _ := d["auto"].(bool)
		mk := func() *astits.Demuxer {
			if auto {
				return astits.NewDemuxer(context.Background(), bytes.NewReader(b))
			}
			return astits.NewDemuxer(context.Background(), bytes.NewReader(b), astits.DemuxerOptPacketSize(188))
		}
		dm := mk()
		for _, op := range ops {
			switch op {
			case 'P':
				dm.NextPacket()
			case 'D':
				dm.NextData()
			case 'R':
				dm.Rewind()
			}
		}
		n, err := dm.Rewind()
		after, fresh := DrainData(dm, len(b)), DrainData(mk(), len(b))
		fmt.Printf("  after %q: Rewind=(%d,%v); %d data after the rewind, %d from a fresh demuxer\n", ops, n, err, len(after.Data), len(fresh.Data))
		same := len(after.Data) == len(fresh.Data)
		for i := 0; same && i < len(after.Data); i++ {
			same = mc.Canon(after.Data[i]) == mc.Canon(fresh.Data[i])
		}
		if !same || n != 0 || err != nil {
			return fmt.Errorf("%v", d["message"])
		}
		return nil
	}
	Replayers["packet"] = func(d map[string]any) error {
		b := hexOf(d, "bytes")
		dm := astits.NewDemuxer(context.Background(), bytes.NewReader(b), astits.DemuxerOptPacketSize(188))
		p, err := dm.NextPacket()
		fmt.Printf("  NextPacket: err=%v\n  %s\n", err, mc.Canon(p))
		if err == nil {
			rw := NewRecWriter()
			n, werr := astits.NewMuxer(context.Background(), rw).WritePacket(p)
			fmt.Printf("  WritePacket(parsed): n=%d err=%v identical=%v\n", n, werr, bytes.Equal(rw.Buf, b))
		}
		return fmt.Errorf("%v (recorded)", d["message"])
	}
	Replayers["pes"] = func(d map[string]any) error {
		b := hexOf(d, "bytes")
		cc := uint8(0)
		out := DemuxBytes(EncodePkts(Packetize(SUnit{PID: 0x100, Bytes: b}, nil, &cc, false)))
		fmt.Printf("  NextData: %d data, errs=%v\n", len(out.Data), errStrings(out.Errs))
		for _, x := range out.Data {
			fmt.Printf("  %s\n", mc.Canon(x.PES))
		}
		return fmt.Errorf("%v (recorded)", d["message"])
	}
	for _, k := range []string{"crc", "dvbtime", "descriptors", "psi", "pts", "duration", "mux-pmt", "c16-schedule", "c16-race", "c16", "note"} {
		k := k
		if _, ok := Replayers[k]; !ok {
			Replayers[k] = func(d map[string]any) error {
				fmt.Printf("  kind %q: the replay file carries the complete case (inputs in hex, expected vs observed in the message); re-run the check to reproduce:\n  %v\n", k, d["message"])
				return fmt.Errorf("%v (recorded)", d["message"])
			}
		}
	}
}
