package checks

import (
	"bytes"
	"context"
	"errors"
	"fmt"

	astits "github.com/asticode/go-astits"
	"verif/mc"
)

// Further replayers: each re-executes the case of a replay file without any explorer and
// prints what the library does; a returned error means the recorded violation message applies.

func hexOf(d map[string]any, key string) []byte {
	var b mc.Hex
	reJSON(d[key], &b)
	return b
}

func init() {
	Replayers["reader-fault"] = func(d map[string]any) error {
		var cfg readerCfg
		reJSON(d["cfg"], &cfg)
		b := hexOf(d, "bytes")
		at := int(d["fail_at"].(float64))
		r, fr := mkFaultReader(cfg, b, at)
		errInjected := errInjected
		if k, _ := d["error_kind"].(string); k != "" {
			errInjected = c18ErrOf(k)
			fr.err = errInjected
		}
		got, err, reached, pan := observeUntilFault(cfg, r, fr, len(b))
		fmt.Printf("  cfg=%+v fail_at=%d: %d results before, pending call error=%v, failure reached=%v, panic=%v\n", cfg, at, len(got), err, reached, pan)
		if pan != nil || (reached && (err == nil || errors.Is(err, astits.ErrNoMorePackets) || !errors.Is(err, errInjected))) {
			return fmt.Errorf("%v", d["message"])
		}
		return nil
	}
	Replayers["rewind"] = func(d map[string]any) error {
		b := hexOf(d, "bytes")
		ops, _ := d["ops"].(string)
		auto, _ := d["auto"].(bool)
		optName, _ := d["option"].(string)
		size := 0
		if f, ok := d["size"].(float64); ok {
			size = int(f)
		}
		mk := func() *astits.Demuxer { return c20Demuxer(b, auto, size, optName) }
		dm := mk()
		for _, op := range ops {
			switch op {
			case 'P':
				dm.NextPacket()
			case 'D':
				dm.NextData()
			case 'R':
				dm.Rewind()
			}
		}
		n, err := dm.Rewind()
		// the complete sequence of answers (data, errors, end) through both APIs
		obs := func(x *astits.Demuxer) (out []string) {
			for i := 0; i < len(b)/8+16; i++ {
				v, e := x.NextData()
				switch {
				case errors.Is(e, astits.ErrNoMorePackets):
					return append(out, "end")
				case e != nil:
					out = append(out, "error: "+e.Error())
				default:
					out = append(out, mc.Canon(v))
				}
			}
			return
		}
		after, fresh := obs(dm), obs(mk())
		fmt.Printf("  after %q: Rewind=(%d,%v); %d answers after the rewind, %d from a fresh demuxer\n", ops, n, err, len(after), len(fresh))
		same := equalStrs(after, fresh)
		if same { // and through NextPacket
			dm2 := mk()
			for _, op := range ops {
				switch op {
				case 'P':
					dm2.NextPacket()
				case 'D':
					dm2.NextData()
				case 'R':
					dm2.Rewind()
				}
			}
			dm2.Rewind()
			a, f := DrainPackets(dm2, len(b)), DrainPackets(mk(), len(b))
			same = len(a.Pkts) == len(f.Pkts) && len(a.Errs) == len(f.Errs)
			for i := 0; same && i < len(a.Pkts); i++ {
				same = mc.Canon(a.Pkts[i]) == mc.Canon(f.Pkts[i])
			}
		}
		if !same || n != 0 || err != nil {
			return fmt.Errorf("%v", d["message"])
		}
		return nil
	}
	Replayers["packet"] = func(d map[string]any) error {
		b := hexOf(d, "bytes")
		dm := astits.NewDemuxer(context.Background(), bytes.NewReader(b), astits.DemuxerOptPacketSize(188))
		p, err := dm.NextPacket()
		fmt.Printf("  NextPacket: err=%v\n  %s\n", err, mc.Canon(p))
		if err == nil {
			rw := NewRecWriter()
			n, werr := astits.NewMuxer(context.Background(), rw).WritePacket(p)
			fmt.Printf("  WritePacket(parsed): n=%d err=%v identical=%v\n", n, werr, bytes.Equal(rw.Buf, b))
		}
		return fmt.Errorf("%v (recorded)", d["message"])
	}
	Replayers["pes"] = func(d map[string]any) error {
		b := hexOf(d, "bytes")
		cc := uint8(0)
		out := DemuxBytes(EncodePkts(Packetize(SUnit{PID: 0x100, Bytes: b}, nil, &cc, false)))
		fmt.Printf("  NextData: %d data, errs=%v\n", len(out.Data), errStrings(out.Errs))
		for _, x := range out.Data {
			fmt.Printf("  %s\n", mc.Canon(x.PES))
		}
		return fmt.Errorf("%v (recorded)", d["message"])
	}
	for _, k := range []string{"crc", "dvbtime", "descriptors", "psi", "pts", "duration", "mux-pmt", "c16-schedule", "c16-race", "c16", "note"} {
		k := k
		if _, ok := Replayers[k]; !ok {
			Replayers[k] = func(d map[string]any) error {
				fmt.Printf("  kind %q: the replay file carries the complete case (inputs in hex, expected vs observed in the message); re-run the check to reproduce:\n  %v\n", k, d["message"])
				return fmt.Errorf("%v (recorded)", d["message"])
			}
		}
	}
}
