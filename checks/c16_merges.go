package checks

import (
	"bytes"
	"context"
	"errors"
	"fmt"
	"runtime/debug"
	"syscall"

	astits "github.com/asticode/go-astits"
	"verif/mc"
	"verif/ref"
)

var c16MuxScripts = [][]MOp{
	{opAddA, opAddB, opPcrA, {K: "data", PID: 0x100, Len: 10, AF: "raipcr"}, opDataB1, opRmA, opAddAuto, opTables, opDataAuto},
	{{K: "add", PID: 0x200, ST: 0x0f}, {K: "pcr", PID: 0x200}, {K: "data", PID: 0x200, Len: 400}, {K: "add", PID: 0x201, ST: 0x06, Desc: "lang"}, {K: "data", PID: 0x201, Len: 30, Hdr: "ptsdts"}, opTables, {K: "rm", PID: 0x200}},
}
var c16MuxPeriods = []int{2, 40}

type c16MuxOut struct {
	bytes []byte
	calls string
}

// c16RunMuxScripts drives two fresh Muxers with their scripts interleaved as order says.
func c16RunMuxScripts(order []int, seed int64) []c16MuxOut {
	hs := []*MuxH{NewMuxH(c16MuxPeriods[0]), NewMuxH(c16MuxPeriods[1])}
	pos := []int{0, 0}
	calls := []string{"", ""}
	for _, k := range order {
		op := c16MuxScripts[k][pos[k]]
		pos[k]++
		r := hs[k].Do(op, seed+int64(k))
		calls[k] += fmt.Sprintf("%s n=%d err=%v;", op, r.N, r.Err)
	}
	return []c16MuxOut{{hs[0].W.Buf, calls[0]}, {hs[1].W.Buf, calls[1]}}
}

func init() {
	Replayers["c16-merge"] = func(d map[string]any) error {
		if what, _ := d["what"].(string); what != "muxers" {
			return fmt.Errorf("replay of %q merges: run ./run.sh C16 quick (the order is in the replay file)", what)
		}
		var order, solo []int
		if err := reJSON(d["order"], &order); err != nil {
			return err
		}
		for k, s := range c16MuxScripts {
			for range s {
				solo = append(solo, k)
			}
		}
		got, alone := c16RunMuxScripts(order, 0), c16RunMuxScripts(solo, 0)
		for k := range got {
			fmt.Printf("  muxer %d: %d bytes interleaved, %d bytes alone\n", k, len(got[k].bytes), len(alone[k].bytes))
			if !bytes.Equal(got[k].bytes, alone[k].bytes) || got[k].calls != alone[k].calls {
				return fmt.Errorf("%v", d["message"])
			}
		}
		return nil
	}
}

// c16CallMerges: independent instances driven from ONE goroutine with their calls interleaved in
// every order-preserving way (the scheduler exploration bounds preemptions, which leaves out
// schedules that alternate between the instances at every call). Each instance must produce what
// it produces alone.
func c16CallMerges(c *mc.Ctx) {
	// --- two Muxers with different configurations ---------------------------------------
	scripts := c16MuxScripts
	runScript := func(order []int) []c16MuxOut { return c16RunMuxScripts(order, c.Seed) }
	var soloOrder []int
	for k, s := range scripts {
		for range s {
			soloOrder = append(soloOrder, k)
		}
	}
	solo := runScript(soloOrder) // one after the other
	lens := []int{len(scripts[0]), len(scripts[1])}
	var n int64
	mc.Merges(lens, func(order []int) bool {
		o := append([]int{}, order...)
		got := runScript(o)
		for k := range got {
			if !bytes.Equal(got[k].bytes, solo[k].bytes) || got[k].calls != solo[k].calls {
				c.Rep.Report("muxer-instances-interfere", map[string]any{"kind": "c16-merge", "what": "muxers", "order": o, "message": fmt.Sprintf("muxer %d: output or call results under this interleaving of calls differ from its run alone (%d vs %d bytes)", k, len(got[k].bytes), len(solo[k].bytes))})
				break
			}
		}
		n++
		return !c.OverBudget()
	})
	c.Ev.AddScenario(mc.Scenario{Name: "call-merges:2 muxers", SpaceSize: mc.MergeCount(lens), Executed: n, Exhaustive: n == mc.MergeCount(lens),
		Bound: fmt.Sprintf("all order-preserving merges of the call sequences of two Muxers (%d and %d calls: add/remove/SetPCRPID/WriteTables/WriteData), one goroutine", lens[0], lens[1])})
	c.Ev.DistinctAdd(n)
	if n > 1 {
		c.Ev.Class("muxer-call-merges", n)
	}
	// --- two Demuxers (NextData), and a Demuxer (NextPacket) with a Demuxer (NextData) -----------
	ss := StandardStreams(c.Seed)
	type dm struct {
		b   []byte
		api string
	}
	pairs := [][2]dm{{{ss[0].Bytes, "data"}, {ss[1].Bytes, "data"}}, {{ss[1].Bytes, "data"}, {AFVarietyStream(c.Seed), "packet"}}}
	// the same PIDs in opposite roles: what is the PMT PID of one stream carries audio in the other and vice versa
	// (what one instance has learnt about a PID says nothing about that PID in another instance's stream)
	{
		mk := func(pmtPID, esPID uint16, tag int) []byte {
			ccs := []uint8{0, 3, 8}
			pmt := &astits.PMTData{ProgramNumber: 1, PCRPID: esPID, ElementaryStreams: []*astits.PMTElementaryStream{{ElementaryPID: esPID, StreamType: astits.StreamTypeAACAudio}}}
			lists := [][]*ref.Pkt{
				Packetize(PSIUnit(0, 0, [][]byte{SecPAT(modelPAT(1, pmtPID), ref.SecHdr{CNI: true})}, nil), nil, &ccs[0], true),
				append(Packetize(PSIUnit(pmtPID, 0, [][]byte{SecPMT(pmt, ref.SecHdr{CNI: true})}, nil), nil, &ccs[1], true), Packetize(PSIUnit(pmtPID, 0, [][]byte{SecPMT(pmt, ref.SecHdr{CNI: true, Version: 1})}, nil), nil, &ccs[1], true)...),
				append(Packetize(PESUnit(esPID, 0xc0, pesPayload(tag, 100, c.Seed), uint64(tag), true), nil, &ccs[2], false), Packetize(PESUnit(esPID, 0xc0, pesPayload(tag+1, 60, c.Seed), uint64(tag+1), true), nil, &ccs[2], false)...),
			}
			return BuildStream("roles", lists, []int{0, 1, 2, 1, 2}, nil).Bytes
		}
		pairs = append(pairs, [2]dm{{mk(0x100, 0x1000, 40), "data"}, {mk(0x1000, 0x100, 50), "data"}})
	}
	for pi, pr := range pairs {
		drain := func(order []int, lensOut []int) [2][]string {
			ds := [2]*astits.Demuxer{}
			for k := 0; k < 2; k++ {
				ds[k] = astits.NewDemuxer(context.Background(), bytes.NewReader(pr[k].b))
			}
			var res [2][]string
			step := func(k int) {
				var x any
				var err error
				if pr[k].api == "data" {
					x, err = ds[k].NextData()
				} else {
					x, err = ds[k].NextPacket()
				}
				switch {
				case errors.Is(err, astits.ErrNoMorePackets):
					res[k] = append(res[k], "end")
				case err != nil:
					res[k] = append(res[k], "error: "+err.Error())
				default:
					res[k] = append(res[k], mc.Canon(x))
				}
			}
			if order == nil { // alone: until the end
				for k := 0; k < 2; k++ {
					for len(res[k]) == 0 || res[k][len(res[k])-1] != "end" {
						step(k)
					}
					lensOut[k] = len(res[k])
				}
				return res
			}
			for _, k := range order {
				step(k)
			}
			return res
		}
		dl := make([]int, 2)
		alone := drain(nil, dl)
		// keep the merge count tractable: the first instance's calls are grouped in blocks when long
		total := mc.MergeCount(dl)
		if total > 200000 {
			c.Ev.AddScenario(mc.Scenario{Name: fmt.Sprintf("call-merges:demuxer pair %d", pi), SpaceSize: total, Executed: 0, Exhaustive: false, Note: "too many merges; pair skipped"})
			continue
		}
		var m int64
		mc.Merges(dl, func(order []int) bool {
			o := append([]int{}, order...)
			got := drain(o, nil)
			for k := 0; k < 2; k++ {
				if !equalStrs(got[k], alone[k]) {
					c.Rep.Report("demuxer-instances-interfere", map[string]any{"kind": "c16-merge", "what": fmt.Sprintf("demuxer pair %d", pi), "order": o, "message": fmt.Sprintf("demuxer %d (%s): results under this interleaving of calls differ from its run alone", k, pr[k].api)})
					break
				}
			}
			m++
			return !c.OverBudget()
		})
		c.Ev.AddScenario(mc.Scenario{Name: fmt.Sprintf("call-merges:demuxer pair %d (%s + %s)", pi, pr[0].api, pr[1].api), SpaceSize: total, Executed: m, Exhaustive: m == total,
			Bound: fmt.Sprintf("all order-preserving merges of the %d + %d calls that drain two auto-detecting Demuxers, one goroutine", dl[0], dl[1])})
		c.Ev.DistinctAdd(m)
		if m > 1 {
			c.Ev.Class("demuxer-call-merges", m)
		}
	}
}

// c16CallerPayload: the caller's payload bytes are never modified - not after a call, not after a call that
// failed because the writer failed, and not while the Muxer is inside a call (the writer, or another goroutine
// reading the same buffer, would see it). Payload sizes from one to many packets, windows into a larger caller
// buffer, every Write call index as the failing one (once / permanently / accepting half), and no failure.
func c16CallerPayload(c *mc.Ctx) {
	var n int64
	sizes := []int{10, 169, 170, 400, 1000}
	if c.Thorough() {
		sizes = append(sizes, 3000, 9000)
	}
	for _, l := range sizes {
		for _, withAF := range []bool{false, true} {
			// number of Write calls of a fault-free run
			total := 0
			for fail := -1; fail < total || fail == -1; fail++ {
				for mode := 0; mode < 3; mode++ {
					if fail == -1 && mode > 0 {
						continue
					}
					backing := make([]byte, l+64)
					for j := range backing {
						backing[j] = byte(0x10 + (j*7+l)%0xd0)
					}
					orig := append([]byte{}, backing...)
					payload := backing[16 : 16+l]
					w := NewRecWriter()
					w.FailAt, w.Perm, w.Partial = fail, mode == 1, mode == 2
					during := -1
					w.OnWrite = func(i int) {
						if during < 0 && !bytes.Equal(backing, orig) {
							during = i
						}
					}
					m := astits.NewMuxer(context.Background(), w, astits.MuxerOptTablesRetransmitPeriod(2))
					m.AddElementaryStream(astits.PMTElementaryStream{ElementaryPID: 0x100, StreamType: astits.StreamTypeH264Video})
					m.SetPCRPID(0x100)
					var af *astits.PacketAdaptationField
					if withAF {
						af = &astits.PacketAdaptationField{RandomAccessIndicator: true, HasPCR: true, PCR: &astits.ClockReference{Base: 300, Extension: 11}}
					}
					var errs []error
					for k := 0; k < 2; k++ { // the second call runs after a possible failure of the first
						_, err := m.WriteData(&astits.MuxerData{PID: 0x100, AdaptationField: af, PES: &astits.PESData{Data: payload, Header: &astits.PESHeader{OptionalHeader: &astits.PESOptionalHeader{MarkerBits: 2, PTSDTSIndicator: astits.PTSDTSIndicatorOnlyPTS, PTS: &astits.ClockReference{Base: 3600}}}}})
						errs = append(errs, err)
					}
					if fail == -1 {
						total = w.Writes
					}
					n++
					det := map[string]any{"kind": "c16-payload", "payload_len": l, "with_af": withAF, "fail_at": fail, "mode": mode}
					if during >= 0 {
						det["message"] = fmt.Sprintf("the caller's buffer differs from what was handed over while the Muxer is inside WriteData (seen by the writer at Write call %d)", during)
						c.Rep.Report("caller-payload-modified-during-call", det)
					} else if !bytes.Equal(backing, orig) {
						det["message"] = fmt.Sprintf("the caller's buffer was modified (call results: %v)", errs)
						sig := "caller-payload-modified"
						if fail >= 0 {
							sig = "caller-payload-modified-by-failed-call"
						}
						c.Rep.Report(sig, det)
					}
					if fail >= 0 {
						c.Ev.Class("payload-checked-around-failing-write", 1)
					}
				}
			}
		}
	}
	// the same payloads (and the private data of an adaptation field) in read-only memory: a Muxer that changes the
	// caller's bytes and puts them back between two Write calls is invisible to comparisons, not to the MMU
	if page, err := syscall.Mmap(-1, 0, 1<<16, syscall.PROT_READ|syscall.PROT_WRITE, syscall.MAP_ANON|syscall.MAP_PRIVATE); err == nil {
		for i := range page {
			page[i] = byte(0x10 + (i*11)%0xd0)
		}
		if syscall.Mprotect(page, syscall.PROT_READ) == nil {
			old := debug.SetPanicOnFault(true)
			var nro int64
			for _, l := range append(append([]int{}, sizes...), 1, 183, 184, 185, 20000) {
				for _, kind := range []string{"data", "data+private", "packet"} {
					w := NewRecWriter()
					m := astits.NewMuxer(context.Background(), w, astits.MuxerOptTablesRetransmitPeriod(2))
					m.AddElementaryStream(astits.PMTElementaryStream{ElementaryPID: 0x100, StreamType: astits.StreamTypeH264Video})
					m.SetPCRPID(0x100)
					var err error
					p := mc.Catch(func() {
						switch kind {
						case "packet":
							if l > 184 {
								return
							}
							_, err = m.WritePacket(&astits.Packet{Header: astits.PacketHeader{PID: 0x300, HasPayload: true}, Payload: page[32 : 32+l]})
						default:
							var af *astits.PacketAdaptationField
							if kind == "data+private" {
								af = &astits.PacketAdaptationField{HasTransportPrivateData: true, TransportPrivateData: page[40000:40020], TransportPrivateDataLength: 20}
							}
							for k := 0; k < 2; k++ {
								_, err = m.WriteData(&astits.MuxerData{PID: 0x100, AdaptationField: af, PES: &astits.PESData{Data: page[32 : 32+l], Header: &astits.PESHeader{OptionalHeader: &astits.PESOptionalHeader{MarkerBits: 2, PTSDTSIndicator: astits.PTSDTSIndicatorOnlyPTS, PTS: &astits.ClockReference{Base: 3600}}}}})
							}
						}
					})
					nro++
					if p != nil {
						c.Rep.Report("caller-payload-modified-during-call", map[string]any{"kind": "c16-payload", "payload_len": l, "with_af": kind == "data+private", "fail_at": -1, "mode": "read-only memory: " + kind,
							"message": fmt.Sprintf("the Muxer writes to the caller's payload / private data bytes (they lie in read-only memory; the write faulted: %v)", p)})
					} else if err != nil {
						c.Rep.Report("valid-call-failed", map[string]any{"kind": "c16-payload", "payload_len": l, "with_af": kind == "data+private", "fail_at": -1, "mode": kind, "message": err.Error()})
					}
				}
			}
			debug.SetPanicOnFault(old)
			c.Ev.Class("payload-in-read-only-memory", nro)
			n += nro
		}
		syscall.Mprotect(page, syscall.PROT_READ|syscall.PROT_WRITE)
		syscall.Munmap(page)
	}
	c.Ev.DistinctAdd(n)
	c.Ev.AddScenario(mc.Scenario{Name: "caller-payload-integrity", SpaceSize: n, Executed: n, Exhaustive: true,
		Bound: "payload sizes {10,169,170,400,1000(,3000,9000)} x with/without adaptation field x failing Write index (none, every index; once / permanent / half accepted) x 2 calls: caller buffer compared at every Write call and after the calls"})
}

func init() {
	Replayers["c16-payload"] = func(d map[string]any) error {
		return fmt.Errorf("%v (re-run the check: the case is fully described by payload_len=%v with_af=%v fail_at=%v mode=%v)", d["message"], d["payload_len"], d["with_af"], d["fail_at"], d["mode"])
	}
}
