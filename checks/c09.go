package checks

import (
	"bytes"
	"context"
	"fmt"
	"sync"

	astits "github.com/asticode/go-astits"
	"verif/mc"
	"verif/ref"
)

func init() { register("C09", checkC09) }

type c09Base struct {
	Name string
	PID  uint16
	Secs [][]byte
	Exp  []ExpData
}

type c09Sent struct {
	unit []byte
	is   func(*astits.DemuxerData) bool
}

var (
	c09SentOnce sync.Once
	c09Sents    map[uint16]c09Sent
)

func c09SentinelFor(pid uint16) c09Sent {
	c09SentOnce.Do(func() {
		c09Sents = map[uint16]c09Sent{}
		for _, p := range []uint16{0, 0x1000, 0x10, 0x11, 0x12, 0x14} {
			u, f := c09Sentinel(p)
			c09Sents[p] = c09Sent{u, f}
		}
	})
	return c09Sents[pid]
}

// c09Sentinel builds the valid unit that follows the unit under test: a table the PID may carry, with contents no base uses.
func c09Sentinel(pid uint16) ([]byte, func(*astits.DemuxerData) bool) {
	unit := func(sec []byte) []byte { return append([]byte{0}, sec...) }
	switch {
	case pid == 0:
		d := modelPAT(0x7e, 0x1000)
		return unit(SecPAT(d, ref.SecHdr{CNI: true, Version: 30})), func(x *astits.DemuxerData) bool {
			return x.PAT != nil && len(x.PAT.Programs) == 1 && x.PAT.Programs[0].ProgramNumber == 0x7e
		}
	case pid == 0x1000:
		d := modelPMT(1, 0x1abc, 1)
		return unit(SecPMT(d, ref.SecHdr{CNI: true, Version: 30})), func(x *astits.DemuxerData) bool { return x.PMT != nil && x.PMT.PCRPID == 0x1abc }
	case pid == 0x14:
		d := modelTOT()
		d.UTCTime = d.UTCTime.AddDate(1, 2, 3)
		want := d.UTCTime
		return unit(SecTOT(d)), func(x *astits.DemuxerData) bool { return x.TOT != nil && x.TOT.UTCTime.Equal(want) }
	case pid == 0x10:
		d := modelNIT(1)
		d.NetworkID = 0x7e7e
		return unit(SecNIT(d, ref.SecHdr{CNI: true, Version: 30})), func(x *astits.DemuxerData) bool { return x.NIT != nil && x.NIT.NetworkID == 0x7e7e }
	case pid == 0x12:
		d := modelEIT(1)
		d.ServiceID = 0x7e7e
		return unit(SecEIT(d, ref.SecHdr{CNI: true, Version: 30})), func(x *astits.DemuxerData) bool { return x.EIT != nil && x.EIT.ServiceID == 0x7e7e }
	}
	d := modelSDT(1)
	d.TransportStreamID = 0x7e7e
	return unit(SecSDT(d, ref.SecHdr{CNI: true, Version: 30})), func(x *astits.DemuxerData) bool { return x.SDT != nil && x.SDT.TransportStreamID == 0x7e7e }
}

// c09MoreBases: larger units and the second table_id variants (thorough tier).
func c09MoreBases() []c09Base {
	eit, sdt, nit, pmt := modelEIT(12), modelSDT(10), modelNIT(6), modelPMT(1, 0x100, 14)
	patA, patB, patC := modelPAT(1, 0x1000), modelPAT(2, 0x1001, 3, 0x1002), modelPAT(4, 0x1003)
	return []c09Base{
		{"EIT-3-packets", 0x12, [][]byte{SecEIT(eit, ref.SecHdr{TableID: 0x6f, CNI: true})}, []ExpData{{Kind: "EIT", Table: eit}}},
		{"SDT-0x46-big", 0x11, [][]byte{SecSDT(sdt, ref.SecHdr{TableID: 0x46, CNI: true})}, []ExpData{{Kind: "SDT", Table: sdt}}},
		{"NIT-0x41", 0x10, [][]byte{SecNIT(nit, ref.SecHdr{TableID: 0x41, CNI: true})}, []ExpData{{Kind: "NIT", Table: nit}}},
		{"PMT-2-packets", 0x1000, [][]byte{SecPMT(pmt, ref.SecHdr{CNI: true, Version: 31})}, []ExpData{{Kind: "PMT", Table: pmt}}},
		{"PAT-3-sections", 0, [][]byte{SecPAT(patA, ref.SecHdr{CNI: true, LSN: 2}), SecPAT(patB, ref.SecHdr{CNI: true, SN: 1, LSN: 2}), SecPAT(patC, ref.SecHdr{CNI: true, SN: 2, LSN: 2})},
			[]ExpData{{Kind: "PAT", Table: patA}, {Kind: "PAT", Table: patB}, {Kind: "PAT", Table: patC}}},
	}
}

func c09Bases() []c09Base {
	pat := modelPAT(1, 0x1000, 2, 0x1001)
	pmt := modelPMT(1, 0x100, 4)
	sdtA, sdtB := modelSDT(2), modelSDT(1)
	nit := modelNIT(3)
	eit := modelEIT(3)
	tot := modelTOT()
	eitBig := modelEIT(48) // section_length beyond 1021: only EIT (and TOT-class tables) may be that long
	// sections whose CRC_32 ends in 0xFF / 0xFFFF (they look like the stuffing that follows them) and in 0x00
	var crcFF []c09Base
	want := []struct {
		mask, val uint32
		name      string
	}{{0xff, 0xff, "PAT-crc-ends-ff"}, {0xffff, 0xffff, "PAT-crc-ends-ffff"}, {0xff, 0x00, "PAT-crc-ends-00"}}
	for _, w := range want {
		for tsid := 0; tsid < 1<<16; tsid++ {
			d := &astits.PATData{TransportStreamID: uint16(tsid), Programs: []*astits.PATProgram{{ProgramNumber: 1, ProgramMapID: 0x1000}}}
			sec := SecPAT(d, ref.SecHdr{CNI: true})
			n := len(sec)
			crc := uint32(sec[n-4])<<24 | uint32(sec[n-3])<<16 | uint32(sec[n-2])<<8 | uint32(sec[n-1])
			if crc&w.mask == w.val {
				crcFF = append(crcFF, c09Base{w.name, 0, [][]byte{sec}, []ExpData{{Kind: "PAT", Table: d}}})
				break
			}
		}
	}
	return append(crcFF, []c09Base{
		{"PAT", 0, [][]byte{SecPAT(pat, ref.SecHdr{CNI: true, Version: 7})}, []ExpData{{Kind: "PAT", Table: pat}}},
		{"PMT", 0x1000, [][]byte{SecPMT(pmt, ref.SecHdr{CNI: true, Version: 1})}, []ExpData{{Kind: "PMT", Table: pmt}}},
		{"SDT-2-sections", 0x11, [][]byte{SecSDT(sdtA, ref.SecHdr{CNI: true, LSN: 1}), SecSDT(sdtB, ref.SecHdr{TableID: 0x46, CNI: true, SN: 1, LSN: 1})}, []ExpData{{Kind: "SDT", Table: sdtA}, {Kind: "SDT", Table: sdtB}}},
		{"NIT", 0x10, [][]byte{SecNIT(nit, ref.SecHdr{CNI: true})}, []ExpData{{Kind: "NIT", Table: nit}}},
		{"EIT-2-packets", 0x12, [][]byte{SecEIT(eit, ref.SecHdr{TableID: 0x51, CNI: true})}, []ExpData{{Kind: "EIT", Table: eit}}},
		{"TOT", 0x14, [][]byte{SecTOT(tot)}, []ExpData{{Kind: "TOT", Table: tot}}},
		// current_next_indicator 0 ("next" table): decoded and checked like any other section
		{"SDT-next", 0x11, [][]byte{SecSDT(sdtB, ref.SecHdr{CNI: false, Version: 4})}, []ExpData{{Kind: "SDT", Table: sdtB}}},
		{"PAT-next", 0, [][]byte{SecPAT(pat, ref.SecHdr{CNI: false, Version: 8})}, []ExpData{{Kind: "PAT", Table: pat}}},
		{"EIT-over-1021-bytes", 0x12, [][]byte{SecEIT(eitBig, ref.SecHdr{TableID: 0x60, CNI: true})}, []ExpData{{Kind: "EIT", Table: eitBig}}},
	}...)
}

// c09Run delivers a (possibly corrupted) unit payload on its PID and applies the oracle.
func c09Run(c *mc.Ctx, b *c09Base, unit []byte, what string) {
	var ps []*ref.Pkt
	if b.PID == 0x1000 {
		c0 := uint8(0)
		pat := modelPAT(1, 0x1000)
		ps = append(ps, Packetize(PSIUnit(0, 0, [][]byte{SecPAT(pat, ref.SecHdr{CNI: true})}, nil), nil, &c0, true)...)
	}
	cc := uint8(5)
	ps = append(ps, Packetize(SUnit{PID: b.PID, PSI: true, Bytes: unit}, nil, &cc, false)...)
	// a valid unit of the same PID behind it: whatever the unit under test is made of, the next valid table is delivered
	sent := c09SentinelFor(b.PID)
	ps = append(ps, Packetize(SUnit{PID: b.PID, PSI: true, Bytes: sent.unit}, nil, &cc, false)...)
	sentinelOK := sent.is
	stream := EncodePkts(ps)
	out := DemuxBytes(stream)
	if n := len(out.Data); n == 0 || out.Data[n-1].PID != b.PID || !sentinelOK(out.Data[n-1]) {
		c.Rep.Report("valid-table-behind-the-unit-not-delivered:"+b.Name, map[string]any{"kind": "stream", "base": b.Name, "what": what, "bytes": mc.Hex(stream),
			"message": fmt.Sprintf("a valid single-section unit follows the unit under test on the same PID; it is not the last datum delivered (%d data, errors: %v)", n, errStrings(out.Errs))})
	} else {
		out.Data = out.Data[:n-1]
	}
	det := func(msg string) map[string]any {
		return map[string]any{"kind": "stream", "base": b.Name, "what": what, "bytes": mc.Hex(stream), "message": msg}
	}
	if out.Panic != nil {
		c.Rep.Report("panic:"+b.Name, det(fmt.Sprint(out.Panic)))
		return
	}
	// reference verdict
	secs, framed := ref.ParseUnit(unit)
	type acc struct {
		exp *ExpData // nil: accepted by the reference but not one of the original sections
	}
	var accepted []acc
	all := framed && len(secs) > 0
	for _, s := range secs {
		ok := s.Kind != "" && s.Complete && s.CRCOK
		if s.Kind == "" && s.Complete {
			// not one of the six deliverable tables (a corrupted table_id): never delivered itself, and a
			// decoder may stop at it - the rest of the unit is then "nothing", which the statement allows
			all = false
			continue
		}
		if !ok {
			all = false
			continue
		}
		var e *ExpData
		for i := range b.Secs {
			if bytes.Equal(b.Secs[i], s.Bytes) {
				e = &b.Exp[i]
			}
		}
		accepted = append(accepted, acc{e})
	}
	var got []*astits.DemuxerData
	for _, d := range out.Data {
		if d.PID == b.PID {
			got = append(got, d)
		}
	}
	// (1) delivered data are a subsequence of the reference-accepted sections, content unaltered
	k := 0
	for _, d := range got {
		matched := false
		for k < len(accepted) {
			a := accepted[k]
			k++
			if a.exp == nil {
				c.Ev.Class("crc-valid-after-corruption", 1)
				matched = true // undecidable by this oracle: a different section with a valid CRC
				break
			}
			e := *a.exp
			e.PID = b.PID
			if ok, _ := e.Matches(d); ok {
				matched = true
				break
			}
		}
		if !matched {
			c.Rep.Report("corrupted-table-delivered:"+b.Name, det(fmt.Sprintf("a %s was delivered that the reference decoder does not accept (CRC_32 / framing) or whose content differs from the section carried", dataKind(d))))
			return
		}
	}
	// (2) a unit the reference accepts completely must be delivered completely
	if all && len(got) != len(accepted) {
		c.Rep.Report("valid-table-not-delivered:"+b.Name, det(fmt.Sprintf("the reference decoder accepts all %d sections, %d data delivered (errors: %v)", len(accepted), len(got), errStrings(out.Errs))))
	}
	// (3) error, not silence: when everything in front of it is accepted and the first thing the reference rejects is a
	// section of a deliverable kind that is cut short (its section_length reaches beyond the unit) or whose CRC_32 is
	// wrong, the outcome is "an error" - the unit is flushed in mid-stream by the valid unit behind it, so the error has
	// a call to be returned from (at the end of the stream it could only be logged)
	if !all && out.EOF {
		firstBad := -1
		for i, s := range secs {
			if s.Kind != "" && s.Complete && s.CRCOK {
				continue
			}
			firstBad = i
			break
		}
		// (kept to the case no reading of the bytes can dispute: pointer_field 0, the first section still carries its
		// own table_id, and it is cut short)
		if firstBad == 0 && unit[0] == 0 && secs[0].Kind != "" && !secs[0].Complete && len(secs[0].Bytes) >= 3 && secs[0].TableID == b.Secs[0][0] {
			c.Ev.Class("reference-outcome-is-an-error", 1)
			if len(out.Errs) == 0 {
				why := "its CRC_32 is wrong"
				if !secs[firstBad].Complete {
					why = "its section_length reaches beyond the unit"
				}
				c.Rep.Report("rejected-section-passed-over-in-silence:"+b.Name, det(fmt.Sprintf("section %d of the unit is a %s that the reference decoder rejects (%s): the outcome is an error, NextData returned none (%d data delivered)", firstBad, secs[firstBad].Kind, why, len(got))))
			}
		}
	}
	// (3b) the same rule for a cut inside the three-byte section header: pointer_field 0, every section in front
	// is accepted, and the unit ends one or two bytes into a section whose table_id is one of the six deliverable
	// kinds (no section_length can be read: the reference rejects the unit, the outcome is an error)
	if out.EOF && !framed && unit[0] == 0 {
		o, front := 1, true
		for _, s := range secs {
			front = front && s.Kind != "" && s.Complete && s.CRCOK
			o += len(s.Bytes)
		}
		if rest := unit[o:]; front && (len(rest) == 1 || len(rest) == 2) && ref.TableKind(rest[0]) != "" {
			c.Ev.Class("reference-outcome-is-an-error", 1)
			if len(out.Errs) == 0 {
				c.Rep.Report("rejected-section-passed-over-in-silence:"+b.Name, det(fmt.Sprintf("the unit ends %d byte(s) into a %s section header behind %d accepted section(s): the outcome is an error, NextData returned none (%d data delivered)", len(rest), ref.TableKind(rest[0]), len(secs), len(got))))
			}
		}
	}
	if all {
		c.Ev.Class("unit-still-valid", 1)
	} else {
		c.Ev.Class("unit-rejected-by-reference", 1)
	}
}

func checkC09(c *mc.Ctx) {
	c.Ev.Level = "fault_enumeration"
	c.Ev.Rule = "demux side: reference-encoded sections of the six table types x every single-bit flip, every byte x {0x00,0xFF,+1}, every burst of 2..32 bits at every bit offset (two patterns), truncation at every length, extension by 1..8 bytes; the real Demuxer's outcome is compared with an independent section validator (framing + CRC_32 by bit-serial LFSR); mux side: every PMT of a bounded family (0..N streams, every descriptor model that fits) and the PAT emitted by the real Muxer is validated (section_length, CRC_32) and compared with the reference encoding; distinct_nontrivial = distinct corruptions / PMT contents"
	c.Ev.Assumptions = append(c.Ev.Assumptions, "a corruption that yields a different section with a valid CRC (probability 2^-32 per case) is undecidable by this oracle and counted, not judged")
	bases := c09Bases()
	if c.Thorough() {
		bases = append(bases, c09MoreBases()...)
	}
	for bi := range bases {
		b := &bases[bi]
		unit := PSIUnit(b.PID, 0, b.Secs, nil).Bytes
		type mut struct {
			what string
			f    func() []byte
		}
		var muts []mut
		muts = append(muts, mut{"clean", func() []byte { return unit }})
		for bit := 0; bit < len(unit)*8; bit++ {
			bit := bit
			muts = append(muts, mut{fmt.Sprintf("flip bit %d", bit), func() []byte {
				x := append([]byte{}, unit...)
				x[bit/8] ^= 0x80 >> uint(bit%8)
				return x
			}})
		}
		for off := 0; off < len(unit); off++ {
			off := off
			for mi, m := range []func(byte) byte{func(byte) byte { return 0 }, func(byte) byte { return 0xff }, func(b byte) byte { return b + 1 }} {
				m := m
				if m(unit[off]) == unit[off] {
					continue
				}
				muts = append(muts, mut{fmt.Sprintf("byte %d class %d", off, mi), func() []byte {
					x := append([]byte{}, unit...)
					x[off] = m(x[off])
					return x
				}})
			}
		}
		maxBurst := 32
		step := 1
		if len(unit) > 1024 && !c.Thorough() {
			// sections beyond the 1021-byte class (EIT, up to 4093): single flips, byte classes and
			// truncations are complete; bursts start at every 8th bit with lengths 2, 9, 32 in the quick tier
			step = 8
		}
		for bit := 0; bit < len(unit)*8; bit += step {
			for l := 2; l <= maxBurst; l++ {
				if bit+l > len(unit)*8 {
					break
				}
				if step > 1 && l != 2 && l != 9 && l != 32 {
					continue
				}
				bit, l := bit, l
				for pat := 0; pat < 2; pat++ {
					pat := pat
					muts = append(muts, mut{fmt.Sprintf("burst at bit %d length %d pattern %d", bit, l, pat), func() []byte {
						x := append([]byte{}, unit...)
						for k := 0; k < l; k++ {
							if pat == 0 || k == 0 || k == l-1 || k%2 == 0 {
								x[(bit+k)/8] ^= 0x80 >> uint((bit+k)%8)
							}
						}
						return x
					}})
				}
			}
		}
		// a field wiped out: every run of 1..4 bytes, at every byte offset, forced to all zeros / all ones (a CRC_32 field
		// that reads 0x00000000 or 0xFFFFFFFF, a length that reads 0, ...)
		for off := 0; off < len(unit); off++ {
			for l := 1; l <= 4 && off+l <= len(unit); l++ {
				for _, fill := range []byte{0x00, 0xff} {
					off, l, fill := off, l, fill
					same := true
					for k := 0; k < l; k++ {
						same = same && unit[off+k] == fill
					}
					if same {
						continue
					}
					muts = append(muts, mut{fmt.Sprintf("bytes %d..%d forced to %#02x", off, off+l-1, fill), func() []byte {
						x := append([]byte{}, unit...)
						for k := 0; k < l; k++ {
							x[off+k] = fill
						}
						return x
					}})
				}
			}
		}
		// every pair of bit flips (CRC-32 detects all double errors in messages this short); quick: units
		// up to 64 bytes, thorough: all units
		if len(unit) <= 64 || c.Thorough() {
			nb := len(unit) * 8
			for b1 := 0; b1 < nb; b1++ {
				for b2 := b1 + 1; b2 < nb; b2++ {
					b1, b2 := b1, b2
					muts = append(muts, mut{fmt.Sprintf("flip bits %d and %d", b1, b2), func() []byte {
						x := append([]byte{}, unit...)
						x[b1/8] ^= 0x80 >> uint(b1%8)
						x[b2/8] ^= 0x80 >> uint(b2%8)
						return x
					}})
				}
			}
		}
		for n := 1; n < len(unit); n++ {
			n := n
			muts = append(muts, mut{fmt.Sprintf("truncate to %d", n), func() []byte { return unit[:n] }})
		}
		for n := 1; n <= 8; n++ {
			for _, fill := range []byte{0x00, 0xff, 0x42, 0x73} {
				n, fill := n, fill
				muts = append(muts, mut{fmt.Sprintf("extend by %d x %#x", n, fill), func() []byte { return append(append([]byte{}, unit...), bytes.Repeat([]byte{fill}, n)...) }})
			}
		}
		total := int64(len(muts))
		done := mc.ParFor(total, c.OverBudget, func(i int64) {
			c09Run(c, b, muts[i].f(), muts[i].what)
			if i%5003 == 1 {
				c.Ev.Sample(map[string]any{"base": b.Name, "corruption": muts[i].what})
			}
		})
		c.Ev.DistinctAdd(done)
		c.Ev.AddScenario(mc.Scenario{Name: "demux:" + b.Name, SpaceSize: total, Executed: done, Exhaustive: done == total,
			Bound: fmt.Sprintf("unit of %d bytes: every bit flip, every pair of bit flips (quick: units <= 64 bytes), every byte x 3 substitutions, bursts 2..32 bits (2 patterns), every run of 1..4 bytes forced to 0x00 / 0xFF, every truncation, extensions 1..8 x 4 fills", len(unit))})
	}
	c09Mux(c)
	c.Ev.Require("unit-still-valid", "unit-rejected-by-reference", "reference-outcome-is-an-error", "mux-pmt-validated", "mux-pmt-too-large", "mux-pmt-retransmitted")
}

// c09Mux: sections the Muxer emits carry a correct section_length and CRC.
func c09Mux(c *mc.Ctx) {
	var validate1 func(what string, m *astits.Muxer, w *RecWriter, model *astits.PMTData, lengthMode int) bool
	// every configuration is emitted three times: fresh, retransmitted unchanged, and retransmitted after
	// a WriteData call used the Muxer's buffers in between
	validate := func(what string, m *astits.Muxer, w *RecWriter, model *astits.PMTData, lengthMode int) {
		if !validate1(what, m, w, model, lengthMode) {
			return
		}
		validate1(what+" (retransmitted)", m, w, model, lengthMode)
		m.WriteData(&astits.MuxerData{PID: 0x100, PES: &astits.PESData{Data: bytes.Repeat([]byte{0x02}, 300), Header: &astits.PESHeader{OptionalHeader: &astits.PESOptionalHeader{MarkerBits: 2}}}})
		validate1(what+" (retransmitted after WriteData)", m, w, model, lengthMode)
		c.Ev.Class("mux-pmt-retransmitted", 1)
	}
	validate1 = func(what string, m *astits.Muxer, w *RecWriter, model *astits.PMTData, lengthMode int) (emitted bool) {
		from := len(w.Buf)
		_, err := m.WriteTables()
		if err != nil {
			if len(w.Buf) != from {
				c.Rep.Report("mux-failed-tables-left-bytes", map[string]any{"kind": "mux-pmt", "what": what, "message": "WriteTables failed but wrote bytes"})
			}
			c.Ev.Class("mux-pmt-too-large", 1)
			return false
		}
		raw, rest := ref.SplitPackets(w.Buf[from:])
		if len(raw) != 2 || len(rest) != 0 {
			c.Rep.Report("mux-table-packets", map[string]any{"kind": "mux-pmt", "what": what, "message": fmt.Sprintf("%d packets + %d bytes", len(raw), len(rest))})
			return false
		}
		for i, kind := range []string{"PAT", "PMT"} {
			p, err := ref.DecodePkt(raw[i])
			if err != nil {
				c.Rep.Report("mux-table-packet-undecodable", map[string]any{"kind": "mux-pmt", "what": what, "message": err.Error()})
				return false
			}
			secs, framed := ref.ParseUnit(p.Payload)
			if !framed || len(secs) != 1 || !secs[0].Complete || secs[0].Kind != kind {
				c.Rep.Report("mux-section-length:"+kind, map[string]any{"kind": "mux-pmt", "what": what, "length_mode": lengthMode, "bytes": mc.Hex(p.Payload), "message": "section_length does not match the bytes written after it (or framing broken)"})
				return false
			}
			if !secs[0].CRCOK {
				c.Rep.Report("mux-crc:"+kind, map[string]any{"kind": "mux-pmt", "what": what, "length_mode": lengthMode, "bytes": mc.Hex(p.Payload), "message": "CRC_32 of the emitted section is not accepted by the reference decoder"})
				return false
			}
			if !allFF(p.Payload[1+len(secs[0].Bytes):]) {
				c.Rep.Report("mux-padding:"+kind, map[string]any{"kind": "mux-pmt", "what": what, "message": "bytes after the section are not 0xFF"})
			}
			if kind == "PMT" && model != nil {
				want := SecPMT(model, ref.SecHdr{CNI: true, Version: secs[0].Hdr.Version})
				if !bytes.Equal(want, secs[0].Bytes) {
					c.Rep.Report("mux-pmt-content", map[string]any{"kind": "mux-pmt", "what": what, "length_mode": lengthMode, "bytes": mc.Hex(secs[0].Bytes), "message": fmt.Sprintf("PMT section differs from the reference encoding\n want %x", want)})
				}
			}
		}
		c.Ev.Class("mux-pmt-validated", 1)
		return true
	}
	var n int64
	// streams 0..N until too large
	{
		w := NewRecWriter()
		m := astits.NewMuxer(context.Background(), w)
		model := &astits.PMTData{ProgramNumber: 1, PCRPID: 0x100}
		for i := 0; i < 40; i++ {
			es := astits.PMTElementaryStream{ElementaryPID: uint16(0x100 + i), StreamType: astits.StreamType(i*5 + 1)}
			m.AddElementaryStream(es)
			m.SetPCRPID(0x100)
			model.ElementaryStreams = append(model.ElementaryStreams, &astits.PMTElementaryStream{ElementaryPID: es.ElementaryPID, StreamType: es.StreamType})
			validate(fmt.Sprintf("streams=%d", i+1), m, w, model, 0)
			n++
		}
	}
	// every descriptor model that fits, struct Length correct / 0 / wrong
	for _, g := range descGens {
		for _, d := range g.Gen(c.Thorough()) {
			if len(ref.DescBody(d)) > 160 {
				continue
			}
			for mode := 0; mode < 3; mode++ {
				x := *d
				bl := len(ref.DescBody(d))
				switch mode {
				case 0:
					x.Length = uint8(bl)
				case 1:
					x.Length = 0
				case 2:
					x.Length = uint8(bl + 3)
				}
				w := NewRecWriter()
				m := astits.NewMuxer(context.Background(), w)
				m.AddElementaryStream(astits.PMTElementaryStream{ElementaryPID: 0x100, StreamType: astits.StreamTypeH264Video, ElementaryStreamDescriptors: []*astits.Descriptor{&x}})
				m.AddElementaryStream(astits.PMTElementaryStream{ElementaryPID: 0x101, StreamType: astits.StreamTypeAACAudio})
				m.SetPCRPID(0x100)
				model := &astits.PMTData{ProgramNumber: 1, PCRPID: 0x100, ElementaryStreams: []*astits.PMTElementaryStream{
					{ElementaryPID: 0x100, StreamType: astits.StreamTypeH264Video, ElementaryStreamDescriptors: []*astits.Descriptor{d}}, {ElementaryPID: 0x101, StreamType: astits.StreamTypeAACAudio}}}
				if p := mc.Catch(func() { validate(g.Name, m, w, model, mode) }); p != nil {
					c.Rep.Report("mux-panic:"+g.Name, map[string]any{"kind": "mux-pmt", "what": g.Name, "message": fmt.Sprint(p)})
				}
				n++
			}
		}
	}
	c.Ev.DistinctAdd(n)
	c.Ev.AddScenario(mc.Scenario{Name: "mux:pmt-family", SpaceSize: n, Executed: n, Exhaustive: true, Bound: "1..40 streams (until the PMT no longer fits one packet); every descriptor model with body <= 160 bytes as ES descriptor x struct Length {correct, 0, wrong}"})
}
