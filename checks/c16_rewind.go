package checks

import (
	"fmt"

	astits "github.com/asticode/go-astits"
	"verif/mc"
)

// c16RewindRetention: "returned data is never modified by later calls on that Demuxer" with Rewind among the
// later calls. Over streams whose units deliver several data at once (the data of one PSI unit share their
// FirstPacket, some of them still wait inside the Demuxer when the Rewind falls) every sequence over
// {NextPacket, NextData, Rewind} up to the depth bound and every D^k R D^k2 is run on the real Demuxer; each
// returned packet / datum is canonicalised at delivery and again after every later call.
func c16RewindRetention(c *mc.Ctx) {
	depth := 5
	if c.Thorough() {
		depth = 7
	}
	streams := []*Stream{MultiSectionStream(c.Seed), HeadlessStream(c.Seed), PCRInsideUnitsStream(c.Seed)}
	for _, st := range c19StreamsT(c.Seed, false) {
		if st.Name == "af-variety" {
			streams = append(streams, st)
		}
	}
	var total, done int64
	for _, st := range streams {
		for _, auto := range []bool{false, true} {
			st, auto := st, auto
			fresh, ended := c20Answers(c20Demuxer(st.Bytes, auto, 188, ""), "data", len(st.Bytes))
			if !ended {
				continue // C20's subject
			}
			var seqs []string
			for l := 1; l <= depth; l++ {
				r := make(mc.Radix, l)
				for i := range r {
					r[i] = 3
				}
				for i := int64(0); i < r.Size(); i++ {
					s := ""
					for _, x := range r.Digits(i, nil) {
						s += string("DPR"[x])
					}
					seqs = append(seqs, s)
				}
			}
			rep := func(n int, ch byte) string {
				b := make([]byte, n)
				for i := range b {
					b[i] = ch
				}
				return string(b)
			}
			for k := 1; k <= len(fresh)+1; k++ {
				for k2 := 0; k2 <= len(fresh)+1; k2++ {
					seqs = append(seqs, rep(k, 'D')+"R"+rep(k2, 'D'))
				}
			}
			total += int64(len(seqs))
			done += mc.ParFor(int64(len(seqs)), c.OverBudget, func(i int64) {
				s := seqs[i]
				d := c20Demuxer(st.Bytes, auto, 188, "")
				type kept struct {
					v     any
					canon string
					at    int
				}
				var ks []kept
				det := map[string]any{"kind": "note", "stream": st.Name, "auto": auto, "ops": s, "bytes": mc.Hex(st.Bytes)}
				if p := mc.Catch(func() {
					for j, op := range s {
						var v any
						switch op {
						case 'D':
							if x, err := d.NextData(); err == nil && x != nil {
								v = x
							}
						case 'P':
							if x, err := d.NextPacket(); err == nil && x != nil {
								v = x
							}
						case 'R':
							d.Rewind()
						}
						for _, k := range ks {
							if mc.CanonValue(k.v) != k.canon {
								det["message"] = fmt.Sprintf("the result of call %d (%c) was modified by call %d (%c) of %q", k.at, s[k.at], j, op, s)
								c.Rep.Report("returned-value-modified-by-later-call:"+string(op), det)
								return
							}
						}
						if v != nil {
							ks = append(ks, kept{v, mc.CanonValue(v), j})
						}
					}
				}); p != nil {
					det["message"] = fmt.Sprint(p)
					c.Rep.Report("panic", det)
					return
				}
				if len(ks) > 0 {
					c.Ev.Class("results-kept-across-rewind", 1)
				}
			})
		}
	}
	c.Ev.AddScenario(mc.Scenario{Name: "retention-across-rewind", SpaceSize: total, Executed: done, Exhaustive: done == total,
		Bound: fmt.Sprintf("%d streams (several data per unit sharing a first packet; adaptation-field-only packets; headless units) x {explicit, auto-detected size} x all sequences over {NextData, NextPacket, Rewind} of length <= %d and D^k R D^k2 for all k, k2 up to the number of data + 1; every result canonicalised at delivery and after every later call", len(streams), depth)})
	c.Ev.DistinctAdd(done)
}

var _ = (*astits.Demuxer)(nil)
