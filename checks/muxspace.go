package checks

import (
	"fmt"
	"sync"
	"sync/atomic"

	"verif/mc"
)

// MuxScenario is one MUXSPACE search: set-up prefix, operation alphabet, depth (-1 =
// closure / fixpoint), with or without state merging.
type MuxScenario struct {
	Name   string
	Period int
	Setup  []MOp
	Alpha  []MOp
	Depth  int
	Dedup  bool
	// ShareAF: see MuxH.ShareAF
	ShareAF bool
}

const (
	stH264 = 0x1b
	stAAC  = 0x0f
	stMeta = 0x15
)

// Alphabets (ordered simplest first so that the first counterexample is the shortest).
var (
	opAddA    = MOp{K: "add", PID: 0x100, ST: stH264}
	opAddB    = MOp{K: "add", PID: 0x101, ST: stAAC, Desc: "lang"}
	opAddAuto = MOp{K: "add", PID: 0, ST: stMeta, Desc: "sid"}
	opAddC    = MOp{K: "add", PID: 0x102, ST: stAAC, Desc: "emptylast"}
	opAddD    = MOp{K: "add", PID: 0x103, ST: stMeta, Desc: "emptyonly"}
	// explicit PIDs at both ends of the range a stream may use (0x1fff is the null PID, 0x00-0x1f are reserved)
	opAddHi    = MOp{K: "add", PID: 0x1ffe, ST: stAAC}
	opAddLo    = MOp{K: "add", PID: 0x20, ST: stAAC}
	opRmA      = MOp{K: "rm", PID: 0x100}
	opRmB      = MOp{K: "rm", PID: 0x101}
	opRmX      = MOp{K: "rm", PID: 0x1ff}
	opPcrA     = MOp{K: "pcr", PID: 0x100}
	opPcrB     = MOp{K: "pcr", PID: 0x101}
	opPcrX     = MOp{K: "pcr", PID: 0x1ff}
	opTables   = MOp{K: "tables"}
	opDataA1   = MOp{K: "data", PID: 0x100, Len: 10}
	opDataAfit = MOp{K: "data", PID: 0x100, Len: 170}
	opDataAs1  = MOp{K: "data", PID: 0x100, Len: 169}
	opDataAs2  = MOp{K: "data", PID: 0x100, Len: 168}
	opDataA3   = MOp{K: "data", PID: 0x100, Len: 454}
	opDataA17  = MOp{K: "data", PID: 0x100, Len: 170 + 16*184}
	opDataA40  = MOp{K: "data", PID: 0x100, Len: 100 + 40*184} // the counter goes round more than twice inside one call
	opDataARAI = MOp{K: "data", PID: 0x100, Len: 50, AF: "raipcr"}
	opDataAprv = MOp{K: "data", PID: 0x100, Len: 400, AF: "priv10"}
	opDataAopc = MOp{K: "data", PID: 0x100, Len: 200, AF: "opcr"}
	// a header that uses every optional field, and one that also sets the pack header flag the writer cannot express
	opDataAltw  = MOp{K: "data", PID: 0x100, Len: 250, AF: "extltw"}
	opDataAfull = MOp{K: "data", PID: 0x100, Len: 300, Hdr: "full"}
	opDataApack = MOp{K: "data", PID: 0x100, Len: 300, Hdr: "pack"}
	// no PES data at all, only an adaptation field (with and without stuffing requested by the caller)
	opDataA0pcr   = MOp{K: "data", PID: 0x100, AF: "pcr"}
	opDataA0stp   = MOp{K: "data", PID: 0x100, AF: "noroomstuffpcr"}
	opDataAnor    = MOp{K: "data", PID: 0x100, Len: 30, AF: "noroom"}
	opDataAnorPCR = MOp{K: "data", PID: 0x100, Len: 30, AF: "noroompcr"}
	opDataAnorRAI = MOp{K: "data", PID: 0x100, Len: 30, AF: "noroomrai"}
	opDataAnorSt  = MOp{K: "data", PID: 0x100, Len: 30, AF: "noroomstuff"}
	opDataAnorStP = MOp{K: "data", PID: 0x100, Len: 200, AF: "noroomstuffpcr"}
	// adaptation field sized so that the first packet holds exactly the PES header and no payload byte
	opDataAhdr = MOp{K: "data", PID: 0x100, Len: 30, AF: "priv167"}
	opDataB1   = MOp{K: "data", PID: 0x101, Len: 10, Hdr: "ptsdts"}
	opDataB17  = MOp{K: "data", PID: 0x101, Len: 165 + 16*184, Hdr: "ptsdts"}
	opDataBRAI = MOp{K: "data", PID: 0x101, Len: 20, AF: "rai"}
	opDataAuto = MOp{K: "data", Auto: 1, Len: 10}
	opDataX    = MOp{K: "data", PID: 0x1fe, Len: 10}
	opPktNull  = MOp{K: "pkt", Pkt: "null"}
	opPktAF    = MOp{K: "pkt", Pkt: "afonly"}
	opPktOwn   = MOp{K: "pkt", Pkt: "ownpid"}
	opPktShort = MOp{K: "pkt", Pkt: "short"}
	opPktShAF  = MOp{K: "pkt", Pkt: "shortaf"}
	opPktBig   = MOp{K: "pkt", Pkt: "big"}
	opPktStale = MOp{K: "pkt", Pkt: "stalebig"}
	opPktWrap  = MOp{K: "pkt", Pkt: "afwrap"}
	opPktPriv0 = MOp{K: "pkt", Pkt: "priv0pkt"}
	// caller adaptation field with the private-data flag set and zero-length data, multi-packet payload
	opDataApr0 = MOp{K: "data", PID: 0x100, Len: 350, AF: "priv0"}
	opPktAF252 = MOp{K: "pkt", Pkt: "af252"}
	// WriteData with an adaptation field that cannot fit a packet at all (its length does not even fit 8 bits)
	opDataAwrap = MOp{K: "data", PID: 0x100, Len: 50, AF: "priv254"}
	opDataAbig  = MOp{K: "data", PID: 0x100, Len: 50, AF: "priv200"}
	opPktStAF   = MOp{K: "pkt", Pkt: "staleaf"}
	opPktStFit  = MOp{K: "pkt", Pkt: "stalefit"}
	opPktFitPr  = MOp{K: "pkt", Pkt: "fitpriv"}
	opPktBigPr  = MOp{K: "pkt", Pkt: "bigpriv"}
	opPktFitPE  = MOp{K: "pkt", Pkt: "fitpcrext"}
	opPktBigPE  = MOp{K: "pkt", Pkt: "bigpcrext"}
	opAddMany   = MOp{K: "addmany", N: 40}
	opRmMany    = MOp{K: "rmmany", N: 40}
)

var muxFullAlpha = []MOp{
	opAddA, opAddB, opAddC, opAddD, opAddAuto, opAddHi, opAddLo, opRmA, opRmB, opRmX, opPcrA, opPcrB, opPcrX, opTables,
	opDataA1, opDataAfit, opDataAs1, opDataAs2, opDataA3, opDataA17, opDataARAI, opDataAprv, opDataAopc, opDataA0pcr, opDataA0stp, opDataAnor, opDataAhdr, opDataAfull, opDataApack, opDataAltw,
	opDataB1, opDataBRAI, opDataAuto, opDataX,
	opPktNull, opPktOwn, opPktAF, opPktShort, opPktBig, opPktStale, opPktWrap, opPktPriv0, opPktAF252, opDataApr0, opAddMany, opRmMany,
}

// caller-built packets at the size limit: exact fit and one byte too many for each way of filling the
// adaptation field; a struct with a cleared flag and the part still attached
var muxPktEdgeAlpha = []MOp{opDataAwrap, opDataAbig, opPktStAF, opPktStFit, opPktFitPr, opPktBigPr, opPktFitPE, opPktBigPE, opPktBig, opPktStale, opPktShort, opDataA1, opTables}

// A smaller alphabet for deeper searches.
var muxCoreAlpha = []MOp{
	opAddB, opRmA, opPcrA, opPcrX, opTables, opDataA1, opDataAs1, opDataA17, opDataA40, opDataARAI, opDataAnor, opDataAhdr, opDataB1, opDataX, opAddMany, opRmMany, opAddAuto, opDataAuto,
}

var (
	setupA   = []MOp{opAddA, opPcrA}
	setupAB  = []MOp{opAddA, opAddB, opPcrA}
	setupABT = []MOp{opAddA, opAddB, opPcrA, opTables}
)

// MuxScenarios returns the scenarios for a tier (shared by C04, C05, C17).
func MuxScenarios(thorough bool) []MuxScenario {
	d := 3
	if thorough {
		d = 4
	}
	var sc []MuxScenario
	for _, p := range []int{1, 2, 40} {
		sc = append(sc, MuxScenario{Name: fmt.Sprintf("full-d%d-empty-p%d", d-1, p), Period: p, Alpha: muxFullAlpha, Depth: d - 1, Dedup: true})
		sc = append(sc, MuxScenario{Name: fmt.Sprintf("full-d%d-A-p%d", d, p), Period: p, Setup: setupA, Alpha: muxFullAlpha, Depth: d, Dedup: true})
	}
	sc = append(sc, MuxScenario{Name: fmt.Sprintf("full-d%d-ABT-p3", d), Period: 3, Setup: setupABT, Alpha: muxFullAlpha, Depth: d, Dedup: true})
	cd := 4
	if thorough {
		cd = 6
	}
	for _, p := range []int{1, 2, 3} {
		sc = append(sc, MuxScenario{Name: fmt.Sprintf("core-d%d-A-p%d", cd, p), Period: p, Setup: setupA, Alpha: muxCoreAlpha, Depth: cd, Dedup: true})
	}
	// every retransmit period 1..64 (the default is 40: option values beyond it matter too): first
	// emission, explicit tables before it, RAP forcing
	for p := 1; p <= 64; p++ {
		sc = append(sc, MuxScenario{Name: fmt.Sprintf("periods-d3-p%d", p), Period: p, Setup: setupA, Alpha: []MOp{opDataA1, opDataARAI, opTables}, Depth: 3, Dedup: true})
	}
	// two streams whose PIDs differ in a single bit (every bit of the 13): whatever the Muxer keys its per-stream
	// state with, the two never share a counter
	for k := 0; k < 13; k++ {
		pid2 := uint16(0x100 ^ (1 << uint(k)))
		if isReservedPID(pid2) {
			continue
		}
		sc = append(sc, MuxScenario{Name: fmt.Sprintf("pid-bit-%d-neighbour-p40", k), Period: 40, Setup: []MOp{opAddA, opPcrA, {K: "add", PID: pid2, ST: stAAC}},
			Alpha: []MOp{opDataA1, {K: "data", PID: pid2, Len: 10}, {K: "rm", PID: pid2}, {K: "add", PID: pid2, ST: stAAC}, opTables}, Depth: 4, Dedup: true})
	}
	sc = append(sc, MuxScenario{Name: "fix-data1-p50", Period: 50, Setup: setupA, Alpha: []MOp{opDataA1}, Depth: -1, Dedup: true})
	// fixpoint scenarios: restricted alphabets run to closure (unbounded depth)
	fixDepth, readdDepth := 9, 7
	if thorough {
		fixDepth, readdDepth = -1, 10
	}
	for _, p := range []int{1, 2, 3, 5, 40} {
		if p > 3 && !thorough {
			continue
		}
		sc = append(sc, MuxScenario{Name: fmt.Sprintf("fix-data1-p%d", p), Period: p, Setup: setupA, Alpha: []MOp{opDataA1}, Depth: -1, Dedup: true})
	}
	sc = append(sc,
		MuxScenario{Name: "fix-version-wrap", Period: 40, Setup: setupA, Alpha: []MOp{opPcrA, opTables}, Depth: -1, Dedup: true},
		MuxScenario{Name: "fix-two-pids-p3", Period: 3, Setup: setupAB, Alpha: []MOp{opDataA1, opDataB17}, Depth: -1, Dedup: true},
		MuxScenario{Name: "fix-failing-tables", Period: 40, Setup: setupA, Alpha: []MOp{opTables, opPcrX, opPcrA}, Depth: fixDepth, Dedup: true},
		// a refused WriteData (adaptation field that cannot fit) at every value of the PID's counter, including right
		// after the wrap from 15 to 0
		MuxScenario{Name: "fix-refused-p3", Period: 3, Setup: setupA, Alpha: []MOp{opDataA1, opDataAwrap}, Depth: -1, Dedup: true},
		MuxScenario{Name: "fix-noroom-p2", Period: 2, Setup: setupA, Alpha: []MOp{opDataAnor, opDataA1, opTables}, Depth: -1, Dedup: true},
		MuxScenario{Name: "noroom-kinds-p3", Period: 3, Setup: setupA, Alpha: []MOp{opDataAnor, opDataAnorPCR, opDataAnorRAI, opDataAnorSt, opDataAnorStP, opDataA1, opDataARAI}, Depth: 4, Dedup: true},
		// insertion order survives removals from the front and the middle of four streams (PCR on the second)
		MuxScenario{Name: "remove-order-p40", Period: 40, Setup: []MOp{opAddA, opAddB, opAddAuto, opAddAuto, opPcrB},
			Alpha: []MOp{opRmA, opAddA, {K: "rm", PID: 0x102}, {K: "add", PID: 0x102, ST: 0x0f}, {K: "rm", PID: 0x103}, opTables, opDataB1}, Depth: 5, Dedup: true},
		// the PMT grows and shrinks across the one-packet limit in steps of a few bytes: 32 plain streams leave
		// 7 bytes; a stream with an empty descriptor fills them exactly, one with a 3-byte descriptor is one byte
		// too many, others overshoot by 3 and 4; a refused emission must not consume a version or a counter value
		MuxScenario{Name: "pmt-size-boundary-p2", Period: 2, Setup: []MOp{opAddA, opPcrA, {K: "addmany", N: 31}, opTables},
			Alpha: []MOp{opAddD, {K: "add", PID: 0x104, ST: stMeta, Desc: "sid"}, opAddC, opAddB, {K: "rm", PID: 0x103}, {K: "rm", PID: 0x104}, {K: "rm", PID: 0x102}, opRmB, opTables, opDataA1}, Depth: 4, Dedup: true},
		// automatic PID assignment after explicit PIDs at the ends of the range, around streams that are live
		MuxScenario{Name: "auto-pid-extremes-p40", Period: 40, Setup: setupA, Alpha: []MOp{opAddHi, opAddLo, opAddAuto, opDataA1, opDataAuto, {K: "rm", PID: 0x1ffe}, opTables}, Depth: 5, Dedup: true},
		// the automatic assignment cursor is walked up to a stream that sits right below the PMT PID (0x0fff in
		// use, 0x1000 reserved), and to the end of the range (0x1ffe in use, 0x1fff the null PID)
		MuxScenario{Name: "auto-pid-next-to-reserved-p40", Period: 40, Setup: []MOp{opAddA, opPcrA, {K: "add", PID: 0x0fff, ST: stAAC}, opAddHi},
			Alpha: []MOp{{K: "churn", N: 3837}, {K: "churn", N: 4090}, opAddAuto, opDataA1, opDataAuto, opTables}, Depth: 4, Dedup: true},
		MuxScenario{Name: "packet-size-edges-p2", Period: 2, Setup: setupA, Alpha: muxPktEdgeAlpha, Depth: 3, Dedup: true},
		// caller packets with every value of the header's small fields (scrambling control, transport_error, priority)
		MuxScenario{Name: "packet-header-values-p2", Period: 2, Setup: setupA,
			Alpha: []MOp{{K: "pkt", Pkt: "scr1"}, {K: "pkt", Pkt: "scr2"}, {K: "pkt", Pkt: "scr3"}, {K: "pkt", Pkt: "teiprio"}, {K: "pkt", Pkt: "onebyte"}, {K: "pkt", Pkt: "onebytepcr"}, opDataA1, opTables}, Depth: 3, Dedup: true},
		// every part of the adaptation field extension on its own (piecewise rate without a legal time window, ...); variable
		// and fixed parts in a unit so short that the Muxer has to add its stuffing behind them
		MuxScenario{Name: "af-extension-parts-p2", Period: 2, Setup: setupA,
			Alpha: []MOp{{K: "data", PID: 0x100, Len: 250, AF: "extpw"}, {K: "data", PID: 0x100, Len: 10, AF: "extss"}, {K: "data", PID: 0x100, Len: 30, AF: "extss0"}, {K: "data", PID: 0x100, Len: 20, AF: "priv10"}, {K: "data", PID: 0x100, Len: 5, AF: "allfixed"}, opDataAltw, {K: "data", PID: 0x100, Len: 400, AF: "ext"}, opDataA1}, Depth: 3, Dedup: true},
		// one adaptation field struct edited between calls: fields that fit, that leave no room for the PES header, that
		// cannot fit a packet at all - whatever a call leaves in the struct's length bookkeeping is what the next call finds
		MuxScenario{Name: "shared-af-struct-p2", Period: 2, Setup: setupA, ShareAF: true,
			Alpha: []MOp{opDataAbig, opDataAwrap, opDataAnor, opDataARAI, opDataAprv, opDataAs1, opDataA1, {K: "data", PID: 0x100, Len: 10, AF: "priv167"}, {K: "data", PID: 0x100, Len: 400, AF: "splice"}}, Depth: 3},
		MuxScenario{Name: "fix-add-remove", Period: 40, Setup: setupA, Alpha: []MOp{opAddB, opRmB, opTables}, Depth: -1, Dedup: true},
		MuxScenario{Name: "fix-readd-p1", Period: 1, Setup: setupA, Alpha: []MOp{opRmA, opAddA, opDataA1}, Depth: fixDepth, Dedup: true},
		MuxScenario{Name: "readd-two-pids-p40", Period: 40, Setup: setupAB, Alpha: []MOp{opRmA, opAddA, opDataA1, opDataB1, opRmB, opAddB}, Depth: readdDepth, Dedup: true},
	)
	// the oversize closure is large (millions of states): depth-bounded in both tiers, placed last
	overDepth := 9
	if thorough {
		overDepth = 16
	}
	sc = append(sc, MuxScenario{Name: "fix-oversize", Period: 2, Setup: setupA, Alpha: []MOp{opAddMany, opRmMany, opTables, opDataA1}, Depth: overDepth, Dedup: true})
	return sc
}

type muxRun struct {
	H   *MuxH
	Mon *MuxMon
	Vs  [][]Viol // per step
}

// runMux replays setup+history on a fresh Muxer with the monitor in lock-step.
func runMux(sc *MuxScenario, hist []uint8, seed int64) *muxRun {
	h := NewMuxH(sc.Period)
	h.ShareAF = sc.ShareAF
	mon := NewMuxMon(sc.Period)
	r := &muxRun{H: h, Mon: mon}
	step := func(op MOp) {
		h.Do(op, seed)
		r.Vs = append(r.Vs, mon.Step(h, len(h.Calls)-1))
	}
	for _, op := range sc.Setup {
		step(op)
	}
	for _, k := range hist {
		step(sc.Alpha[k])
	}
	return r
}

func histOps(sc *MuxScenario, hist []uint8) []MOp {
	ops := append([]MOp{}, sc.Setup...)
	for _, k := range hist {
		ops = append(ops, sc.Alpha[k])
	}
	return ops
}

// ExploreMux searches one scenario, reporting violations of property prop found at the last
// step of every explored transition. classSeen collects driver-side vacuity classes.
func ExploreMux(c *mc.Ctx, sc MuxScenario, prop string) {
	var mu sync.Mutex
	classes := map[string]int64{}
	var sampled int32
	sys := mc.Sys{NumOps: len(sc.Alpha), Run: func(hist []uint8) (string, bool) {
		var r *muxRun
		if p := mc.Catch(func() { r = runMux(&sc, hist, c.Seed) }); p != nil {
			// a panic inside the Muxer on a history of valid calls violates every muxer property
			c.Rep.Report("panic-in-muxer", map[string]any{"scenario": sc.Name, "period": sc.Period, "ops": histOps(&sc, hist), "message": fmt.Sprint(p), "kind": "mux-history"})
			return "panic", false
		}
		last := len(r.Vs) - 1
		for step, vs := range r.Vs {
			// the set-up prefix is explored once (empty history); later only the last step
			if !(step == last || (len(hist) == 0)) {
				continue
			}
			for _, v := range vs {
				if v.Prop != prop {
					continue
				}
				c.Rep.Report(v.Sig, map[string]any{"scenario": sc.Name, "period": sc.Period, "ops": histOps(&sc, hist), "step": step, "message": v.Msg, "kind": "mux-history"})
			}
		}
		// vacuity classes (driver/model side)
		if len(hist) > 0 {
			cl := muxClasses(r)
			mu.Lock()
			for _, k := range cl {
				classes[k]++
			}
			mu.Unlock()
		}
		if len(hist) == 2 && atomic.AddInt32(&sampled, 1) <= 1 {
			c.Ev.Sample(map[string]any{"scenario": sc.Name, "history": fmt.Sprint(histOps(&sc, hist)), "output_bytes": len(r.H.W.Buf)})
		}
		return mc.Canon(r.H.M) + "|" + r.Mon.Key() + fmt.Sprintf("|len%%188=%d", len(r.H.W.Buf)%188), true
	}}
	res := mc.BFS(sys, [][]uint8{{}}, sc.Depth, sc.Dedup, c.OverBudget)
	bound := fmt.Sprintf("all histories of depth <= %d over %d operations, merged on full concrete state", sc.Depth, len(sc.Alpha))
	if sc.Depth < 0 {
		bound = fmt.Sprintf("closure: all reachable states over %d operations, unbounded depth (fixpoint at depth %d)", len(sc.Alpha), res.Depth)
	}
	c.Ev.AddScenario(mc.Scenario{Name: sc.Name, Executed: res.Trans + 1, States: res.States, Trans: res.Trans, Depth: res.Depth, Bound: bound, Exhaustive: res.Exhaustive})
	c.Ev.DistinctAdd(res.States)
	for k, n := range classes {
		c.Ev.Class(k, n)
	}
}

// muxClasses names the situations the last step of a run exercised (model side only).
func muxClasses(r *muxRun) (cl []string) {
	h := r.H
	c := &h.Calls[len(h.Calls)-1]
	if c.Err != nil && (c.Op.K == "tables" || c.Op.K == "data") {
		cl = append(cl, "failed-"+c.Op.K)
		// ok -> fail -> ok shape is recognised when an earlier call succeeded with output
	}
	if c.Err == nil && c.To > c.From {
		for i := len(h.Calls) - 2; i >= 0; i-- {
			p := &h.Calls[i]
			if p.Err != nil && (p.Op.K == "tables" || p.Op.K == "data") {
				cl = append(cl, "success-after-failed-call")
				break
			}
		}
	}
	if c.Op.K == "data" && c.Err == nil {
		n := (c.To - c.From) / 188
		if n >= 17 {
			cl = append(cl, "cc-wrap-inside-call")
		}
		if c.AF != nil && afLeavesNoRoom(c) {
			cl = append(cl, "af-leaves-no-room")
		}
	}
	for pid, cc := range r.Mon.LastCC {
		if cc == 0 {
			cl = append(cl, "cc-wrapped-or-started:"+pidClass(pid))
		}
		if cc == 15 {
			cl = append(cl, "cc-at-15:"+pidClass(pid))
		}
	}
	if r.Mon.LastPMTVer == 31 {
		cl = append(cl, "pmt-version-31")
	}
	if c.Op.K == "rm" && c.Err == nil {
		cl = append(cl, "stream-removed")
	}
	return cl
}

func init() {
	Replayers["mux-history"] = func(d map[string]any) error {
		var ops []MOp
		if err := reJSON(d["ops"], &ops); err != nil {
			return err
		}
		period := int(d["period"].(float64))
		sc := MuxScenario{Period: period, Setup: ops}
		r := runMux(&sc, nil, 0)
		var first error
		for step, vs := range r.Vs {
			for _, v := range vs {
				fmt.Printf("  step %d [%s %s] %s\n", step, v.Prop, v.Sig, v.Msg)
				if first == nil {
					first = fmt.Errorf("%s", v.Msg)
				}
			}
		}
		return first
	}
}
