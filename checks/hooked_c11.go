//go:build verif

package checks

import (
	"bytes"
	"context"
	"fmt"

	astits "github.com/asticode/go-astits"
	"verif/mc"
	"verif/ref"
)

func init() { register("C11", checkC11) }

type afField struct {
	name    string
	present func(a *ref.AF) bool
	alpha   []uint64
	set     func(a *ref.AF, v uint64)
}

var afFields = []afField{
	{"pcr.base", func(a *ref.AF) bool { return a.PCR != nil }, ts33Alpha, func(a *ref.AF, v uint64) { a.PCR.Base = v }},
	{"pcr.ext", func(a *ref.AF) bool { return a.PCR != nil }, ext9Alpha, func(a *ref.AF, v uint64) { a.PCR.Ext = uint16(v) }},
	{"opcr.base", func(a *ref.AF) bool { return a.OPCR != nil }, ts33Alpha, func(a *ref.AF, v uint64) { a.OPCR.Base = v }},
	{"opcr.ext", func(a *ref.AF) bool { return a.OPCR != nil }, ext9Alpha, func(a *ref.AF, v uint64) { a.OPCR.Ext = uint16(v) }},
	{"splice_countdown", func(a *ref.AF) bool { return a.HasSplice }, func() []uint64 {
		var x []uint64
		for i := 0; i < 256; i++ {
			x = append(x, uint64(i))
		}
		return x
	}(), func(a *ref.AF, v uint64) { a.Splice = uint8(v) }},
	{"private_data_length", func(a *ref.AF) bool { return a.HasPrivate }, func() []uint64 {
		var x []uint64
		for i := 0; i <= 150; i++ {
			x = append(x, uint64(i))
		}
		return x
	}(), func(a *ref.AF, v uint64) {
		a.Private = make([]byte, v)
		for i := range a.Private {
			a.Private[i] = byte(0x30 + i)
		}
	}},
	{"ltw_valid", func(a *ref.AF) bool { return a.Ext != nil && a.Ext.LTW }, []uint64{0, 1}, func(a *ref.AF, v uint64) { a.Ext.LTWValid = v == 1 }},
	{"ltw_offset", func(a *ref.AF) bool { return a.Ext != nil && a.Ext.LTW }, bitsAlpha(15), func(a *ref.AF, v uint64) { a.Ext.LTWOffset = uint16(v) }},
	{"piecewise_rate", func(a *ref.AF) bool { return a.Ext != nil && a.Ext.Piecewise }, bitsAlpha(22), func(a *ref.AF, v uint64) { a.Ext.Rate = uint32(v) }},
	{"splice_type", func(a *ref.AF) bool { return a.Ext != nil && a.Ext.Seamless }, bitsAlpha(4), func(a *ref.AF, v uint64) { a.Ext.Splice = uint8(v) }},
	{"dts_next_au", func(a *ref.AF) bool { return a.Ext != nil && a.Ext.Seamless }, ts33Alpha, func(a *ref.AF, v uint64) { a.Ext.DTS = v }},
}

// afShape builds the default-valued AF for a structural shape (0..143) and indicator set.
func afShape(shape, ind int) *ref.AF {
	a := &ref.AF{Disc: ind&1 != 0, RAI: ind&2 != 0, ESPrio: ind&4 != 0}
	parts := shape % 32
	extSet := shape / 32 // 0 when no ext; shapes with ext: 16 base x 8
	if parts&1 != 0 {
		a.PCR = &ref.PCR{Base: 0x123456789 & (1<<33 - 1), Ext: 0x12a}
	}
	if parts&2 != 0 {
		a.OPCR = &ref.PCR{Base: 0x0fedcba98, Ext: 0x0d5}
	}
	if parts&4 != 0 {
		a.HasSplice, a.Splice = true, 0x81
	}
	if parts&8 != 0 {
		a.HasPrivate, a.Private = true, []byte{0xde, 0xad, 0xbe, 0xef}
	}
	if parts&16 != 0 {
		e := &ref.AFExt{LTW: extSet&1 != 0, Piecewise: extSet&2 != 0, Seamless: extSet&4 != 0}
		if e.LTW {
			e.LTWValid, e.LTWOffset = true, 0x2aaa
		}
		if e.Piecewise {
			e.Rate = 0x155555
		}
		if e.Seamless {
			e.Splice, e.DTS = 0xa, 0x1f0f0f0f0
		}
		a.Ext = e
	}
	return a
}

// shapes enumerates the 144 structural shapes: 16 without extension + 16 x 8 with.
func afShapes() []int {
	var s []int
	for parts := 0; parts < 32; parts++ {
		if parts&16 == 0 {
			s = append(s, parts)
			continue
		}
		for e := 0; e < 8; e++ {
			s = append(s, parts+32*e)
		}
	}
	return s
}

// mkPkt completes a packet around an AF: payload fills the rest (afc=11) or the AF is
// stuffed to the whole packet (afc=10 when payload is false).
func mkPkt(a *ref.AF, stuffing int, payload bool) (*ref.Pkt, bool) {
	x := *a
	x.Stuffing = stuffing
	size := x.Size()
	p := &ref.Pkt{PID: 0x0abc, CC: 9, HasAF: true, AF: &x}
	if payload {
		if size > 183 {
			return nil, false
		}
		p.HasPL = true
		p.Payload = make([]byte, 184-size)
		for i := range p.Payload {
			p.Payload[i] = byte(i*5 + 1)
		}
	} else if size != 184 {
		return nil, false
	}
	x.Len = size - 1
	if x.Ext != nil {
		e := *x.Ext
		e.Len = 1
		if e.LTW {
			e.Len += 2
		}
		if e.Piecewise {
			e.Len += 3
		}
		if e.Seamless {
			e.Len += 5
		}
		x.Ext = &e
	}
	return p, true
}

func normPktForCompare(p *ref.Pkt) *ref.Pkt {
	q := *p
	if q.AF != nil {
		a := *q.AF
		a.Zero = a.Len == 0
		if len(a.Private) == 0 {
			a.Private = nil
		}
		if a.Zero {
			a.Stuffing = 0
		}
		q.AF = &a
	}
	if len(q.Payload) == 0 {
		q.Payload = nil
	}
	return &q
}

// c11Case runs the three directions for one model packet, through the hooks and optionally
// through the public API.
func c11Case(c *mc.Ctx, p *ref.Pkt, what string, public bool) {
	want := p.Encode()
	det := func(msg string) map[string]any {
		return map[string]any{"kind": "packet", "what": what, "bytes": mc.Hex(want), "message": msg}
	}
	// decode
	var got *astits.Packet
	var err error
	if pn := mc.Catch(func() { got, err = astits.VerifParsePacket(want) }); pn != nil || err != nil {
		c.Rep.Report("decode-failed:"+fieldOf(what), det(fmt.Sprintf("parsePacket: panic=%v err=%v", pn, err)))
		return
	}
	g, w := normPktForCompare(toRefPkt(got)), normPktForCompare(p)
	if !mc.SemEq(g, w) {
		c.Rep.Report("decode-differs:"+fieldOf(what), det("parsed packet differs from the model\n got  "+mc.Canon(g)+"\n want "+mc.Canon(w)))
	}
	// encode from the model
	lp := fromRefPkt(p)
	out, n, err := c11Write(c, lp)
	if err != nil || n != 188 || !bytes.Equal(out, want) {
		c.Rep.Report("encode-differs:"+fieldOf(what), det(fmt.Sprintf("writePacket(model): n=%d err=%v\n got  %x\n want %x", n, err, out, want)))
	}
	// redundant / leftover struct content must not change the encoding: a stale Length field, and one part
	// whose flag is cleared while its value stays in the struct (the stuffing grows by the part's size)
	if p.HasAF && p.AF != nil && !p.AF.Zero {
		stale := fromRefPkt(p)
		stale.AdaptationField.Length = (stale.AdaptationField.Length + 5) % 184
		if o, n, err := c11Write(c, stale); err != nil || n != 188 || !bytes.Equal(o, want) {
			c.Rep.Report("encode-differs:stale-length-field", det(fmt.Sprintf("writePacket with a stale AdaptationField.Length: n=%d err=%v\n got  %x\n want %x", n, err, o, want)))
		}
		q := *p
		af := *p.AF
		q.AF = &af
		lq := fromRefPkt(p)
		a := lq.AdaptationField
		removed := 0
		switch {
		case af.Ext != nil:
			removed = af.Size()
			af.Ext = nil
			removed -= af.Size()
			a.HasAdaptationExtensionField = false
		case af.HasPrivate:
			removed = 1 + len(af.Private)
			af.HasPrivate, af.Private = false, nil
			a.HasTransportPrivateData = false
		case af.PCR != nil:
			removed = 6
			af.PCR = nil
			a.HasPCR = false
		case af.OPCR != nil:
			removed = 6
			af.OPCR = nil
			a.HasOPCR = false
		case af.HasSplice:
			removed = 1
			af.HasSplice = false
			a.HasSplicingCountdown = false
		}
		if removed > 0 {
			af.Stuffing += removed
			a.StuffingLength += removed
			w2 := q.Encode()
			if o, n, err := c11Write(c, lq); err != nil || n != 188 || !bytes.Equal(o, w2) {
				c.Rep.Report("encode-differs:leftover-behind-cleared-flag", det(fmt.Sprintf("a part whose flag is cleared (value left in the struct) changes the written packet: n=%d err=%v\n got  %x\n want %x", n, err, o, w2)))
			}
			c.Ev.Class("leftover-behind-cleared-flag", 1)
		}
	}
	// a packet that does not fill 188 bytes (the caller left the stuffing out): the reference encoding of what the
	// struct holds, padded with 0xFF behind it - the adaptation_field_length says what the field holds, not more
	if p.HasAF && p.AF != nil && !p.AF.Zero && p.AF.Stuffing > 0 {
		af2 := *p.AF
		af2.Stuffing = 0
		short := append(append(append([]byte{}, want[:4]...), af2.Encode()...), p.Payload...)
		for len(short) < 188 {
			short = append(short, 0xff)
		}
		ls := fromRefPkt(p)
		ls.AdaptationField.StuffingLength = 0
		if o, n, err := c11Write(c, ls); err != nil || n != 188 || !bytes.Equal(o, short) {
			c.Rep.Report("encode-differs:short-packet-padding", det(fmt.Sprintf("writePacket of a packet shorter than 188 bytes (stuffing left out): n=%d err=%v\n got  %x\n want %x", n, err, o, short)))
		}
		c.Ev.Class("short-packet-padded", 1)
	}
	// re-emit what was parsed
	out2, n2, err2 := c11Write(c, got)
	if err2 != nil || n2 != 188 || !bytes.Equal(out2, want) {
		sig := "reemit-differs:" + fieldOf(what)
		if p.AF != nil && p.AF.Zero {
			sig = "reemit-af-length-0"
		}
		c.Rep.Report(sig, det(fmt.Sprintf("NextPacket -> WritePacket is not the identity: n=%d err=%v\n got  %x\n want %x", n2, err2, out2, want)))
	}
	if public {
		d := astits.NewDemuxer(context.Background(), bytes.NewReader(want), astits.DemuxerOptPacketSize(188))
		pp, err := d.NextPacket()
		if err != nil || !mc.SemEq(normPktForCompare(toRefPkt(pp)), w) {
			c.Rep.Report("decode-differs-public:"+fieldOf(what), det(fmt.Sprintf("NextPacket: err=%v", err)))
		} else {
			rw := NewRecWriter()
			m := astits.NewMuxer(context.Background(), rw)
			n, err := m.WritePacket(pp)
			if err != nil || n != 188 || !bytes.Equal(rw.Buf, want) {
				sig := "reemit-differs-public:" + fieldOf(what)
				if p.AF != nil && p.AF.Zero {
					sig = "reemit-af-length-0"
				}
				c.Rep.Report(sig, det(fmt.Sprintf("Muxer.WritePacket(NextPacket()): n=%d err=%v out=%d bytes", n, err, len(rw.Buf))))
			}
		}
		rw := NewRecWriter()
		m := astits.NewMuxer(context.Background(), rw)
		if n, err := m.WritePacket(fromRefPkt(p)); err != nil || n != 188 || !bytes.Equal(rw.Buf, want) {
			c.Rep.Report("encode-differs-public:"+fieldOf(what), det(fmt.Sprintf("Muxer.WritePacket(model): n=%d err=%v", n, err)))
		}
	}
}

func fieldOf(what string) string {
	for i := 0; i < len(what); i++ {
		if what[i] == '=' || what[i] == ' ' {
			return what[:i]
		}
	}
	return what
}

func checkC11(c *mc.Ctx) {
	checkSpecConstants(c, "packet", specConstsPacket())
	c.Ev.Level = "exploration"
	c.Ev.Rule = "bounded-exhaustive codec input space: all header values (2^13 PIDs x 16 counters x 4 scrambling values x 8 flag sets x 3 adaptation_field_control values); all 144 structural adaptation-field shapes x 8 indicator sets x (defaults, every field over its boundary alphabet alone, every pair of fields over 3-value alphabets, every admissible stuffing length); each model packet is reference-encoded -> parsed by the library, written by the library -> compared with the reference bytes, and parsed-then-written; distinct_nontrivial = distinct model packets"
	c.Ev.Assumptions = append(c.Ev.Assumptions, "struct inputs are consistent (pointer present iff flag set, TransportPrivateDataLength == len(TransportPrivateData))",
		"representation-only fields ignored (Length, StuffingLength on parse of length-0 fields, IsOneByteStuffing); SpliceCountdown compared modulo 256",
		"adaptation extension without trailing reserved bytes (the writer derives its length from the flags)")
	// headers: thorough = the full product; quick = all PIDs x all counters, plus all
	// (scrambling, flags, afc, counter) combinations x a PID boundary alphabet
	mkHdr := func(pid, cc, tsc, fl, afc int) *ref.Pkt {
		p := &ref.Pkt{PID: uint16(pid), CC: uint8(cc), TSC: uint8(tsc), TEI: fl&1 != 0, PUSI: fl&2 != 0, Prio: fl&4 != 0}
		switch afc {
		case 0:
			p.HasPL = true
			p.Payload = bytes.Repeat([]byte{byte(pid)}, 184)
		case 1:
			p.HasAF, p.AF = true, &ref.AF{Stuffing: 182, Len: 183}
		case 2:
			p.HasAF, p.AF, p.HasPL = true, &ref.AF{Stuffing: 5, Len: 6}, true
			p.Payload = bytes.Repeat([]byte{byte(cc)}, 177)
		}
		return p
	}
	if c.Thorough() {
		hdr := mc.Radix{8192, 16, 4, 8, 3}
		hdone := mc.ParFor(hdr.Size(), c.OverBudget, func(i int64) {
			d := hdr.Digits(i, make([]int, 0, 5))
			c11Case(c, mkHdr(d[0], d[1], d[2], d[3], d[4]), "header", i%64 == 0)
		})
		c.Ev.AddScenario(mc.Scenario{Name: "all header values", SpaceSize: hdr.Size(), Executed: hdone, Exhaustive: hdone == hdr.Size(), Bound: "8192 PIDs x 16 counters x 4 scrambling x 8 flag sets x afc {01,10,11}; 1/64 also through NextPacket / Muxer.WritePacket"})
		c.Ev.DistinctAdd(hdone)
	} else {
		h1 := mc.Radix{8192, 16, 3}
		d1 := mc.ParFor(h1.Size(), c.OverBudget, func(i int64) {
			d := h1.Digits(i, make([]int, 0, 3))
			c11Case(c, mkHdr(d[0], d[1], int(i)%4, int(i/4)%8, d[2]), "header", i%64 == 0)
		})
		pidAlpha := []int{0, 0x1fff, 0x1555, 0x0aaa, 0x1000, 0x100}
		for k := 0; k < 13; k++ {
			pidAlpha = append(pidAlpha, 1<<uint(k))
		}
		h2 := mc.Radix{len(pidAlpha), 16, 4, 8, 3}
		d2 := mc.ParFor(h2.Size(), c.OverBudget, func(i int64) {
			d := h2.Digits(i, make([]int, 0, 5))
			c11Case(c, mkHdr(pidAlpha[d[0]], d[1], d[2], d[3], d[4]), "header", i%16 == 0)
		})
		c.Ev.AddScenario(mc.Scenario{Name: "header values", SpaceSize: h1.Size() + h2.Size(), Executed: d1 + d2, Exhaustive: d1+d2 == h1.Size()+h2.Size(),
			Bound: "all 8192 PIDs x 16 counters x afc {01,10,11} (other fields rotating) + 19-value PID alphabet x 16 counters x 4 scrambling x 8 flag sets x 3 afc (thorough: the full 12.6 M product)"})
		c.Ev.DistinctAdd(d1 + d2)
	}

	// adaptation fields
	type job struct {
		p      *ref.Pkt
		what   string
		public bool
	}
	var jobs []job
	add := func(a *ref.AF, stuffing int, payload bool, what string, public bool) {
		if p, ok := mkPkt(a, stuffing, payload); ok {
			jobs = append(jobs, job{p, what, public})
		}
	}
	small := func(al []uint64) []uint64 {
		if len(al) < 3 {
			return al
		}
		return al[:3]
	}
	nExact := int64(0)
	for _, sh := range afShapes() {
		for ind := 0; ind < 8; ind++ {
			a := afShape(sh, ind)
			add(a, 0, true, fmt.Sprintf("shape=%d ind=%d", sh, ind), true)
			// stuffing: every admissible AF size
			for st := 1; st <= 183; st++ {
				add(a, st, true, fmt.Sprintf("stuffing=%d shape=%d", st, sh), ind == 0 && st%7 == 0)
				add(a, st, false, fmt.Sprintf("stuffing=%d shape=%d afc=10", st, sh), true)
			}
			// no stuffing at all: transport private data sized so that the last part of the field - whichever part that is in
			// this shape - ends on the last byte of the packet (afc=10), or one byte before it (afc=11, one payload byte)
			if ind == 0 || ind == 7 {
				for _, payload := range []bool{false, true} {
					b := afShape(sh, ind)
					b.HasPrivate, b.Private = true, nil
					b.Stuffing = 0
					room := 184 - b.Size()
					if payload {
						room--
					}
					if room >= 0 {
						b.Private = bytes.Repeat([]byte{0xa7}, room)
						add(b, 0, payload, fmt.Sprintf("exact-fill shape=%d ind=%d payload=%v", sh, ind, payload), true)
						nExact++
					}
				}
			}
			if ind != 0 && ind != 7 {
				continue
			}
			// one deviation: every field over its alphabet
			for fi, f := range afFields {
				if !f.present(a) {
					continue
				}
				for _, v := range f.alpha {
					b := afShape(sh, ind)
					f.set(b, v)
					add(b, 0, true, fmt.Sprintf("%s=%#x shape=%d", f.name, v, sh), false)
				}
				// two deviations: pairs over 3-value alphabets
				for fj := fi + 1; fj < len(afFields); fj++ {
					g := afFields[fj]
					if !g.present(a) {
						continue
					}
					for _, v := range small(f.alpha) {
						for _, w := range small(g.alpha) {
							b := afShape(sh, ind)
							f.set(b, v)
							g.set(b, w)
							add(b, 2, true, fmt.Sprintf("%s+%s shape=%d", f.name, g.name, sh), false)
						}
					}
				}
			}
		}
	}
	// adaptation_field_length == 0 (one byte, no flags)
	z := &ref.Pkt{PID: 0x111, CC: 1, HasAF: true, HasPL: true, AF: &ref.AF{Zero: true}, Payload: bytes.Repeat([]byte{0x77}, 183)}
	jobs = append(jobs, job{z, "af_length=0", true})
	total := int64(len(jobs))
	done := mc.ParFor(total, c.OverBudget, func(i int64) {
		j := jobs[i]
		c11Case(c, j.p, j.what, j.public)
		if j.p.AF.Zero {
			c.Ev.Class("af-length-0", 1)
		}
		if !j.p.HasPL {
			c.Ev.Class("afc-10", 1)
		}
	})
	c.Ev.AddScenario(mc.Scenario{Name: "adaptation fields", SpaceSize: total, Executed: done, Exhaustive: done == total,
		Bound: "144 shapes x 8 indicator sets x (defaults + every stuffing length 1..183 with payload / filling the packet) ; for indicator sets {none, all}: every field over its alphabet (33-bit values: 0, every single bit, all ones, alternating; splice countdown all 256; private data length 0..150) and every pair of fields over 3 values"})
	c.Ev.DistinctAdd(done)
	// whole streams: read ALL packets first, re-emit them afterwards (a packet must stay valid
	// after later NextPacket calls): the output must be the input, byte for byte
	var nre int64
	for _, st := range c19Streams(c.Seed) {
		d := astits.NewDemuxer(context.Background(), bytes.NewReader(st.Bytes), astits.DemuxerOptPacketSize(188))
		po := DrainPackets(d, len(st.Bytes))
		rw := NewRecWriter()
		m := astits.NewMuxer(context.Background(), rw)
		for _, p := range po.Pkts {
			m.WritePacket(p)
		}
		nre += int64(len(po.Pkts))
		// the same through a Muxer that already knows the stream's PIDs as elementary streams and has
		// written data on one of them (WritePacket must emit the caller's packet as it is)
		rw2 := NewRecWriter()
		m2 := astits.NewMuxer(context.Background(), rw2)
		seenPID := map[uint16]bool{}
		for _, p := range po.Pkts {
			if pid := p.Header.PID; !seenPID[pid] && pid > 0x1f && pid != 0x1000 && pid != 0x1fff {
				seenPID[pid] = true
				m2.AddElementaryStream(astits.PMTElementaryStream{ElementaryPID: pid, StreamType: astits.StreamTypeH264Video})
				m2.SetPCRPID(pid)
			}
		}
		for pid := range seenPID {
			m2.WriteData(&astits.MuxerData{PID: pid, PES: &astits.PESData{Data: []byte{1, 2, 3}, Header: MakeHdr("pts", 0, 1)}})
			break
		}
		from := len(rw2.Buf)
		for _, p := range po.Pkts {
			m2.WritePacket(p)
		}
		if !bytes.Equal(rw2.Buf[from:], st.Bytes) {
			c.Rep.Report("reemit-stream-differs:registered-pids", map[string]any{"kind": "stream", "stream": st.Name, "bytes": mc.Hex(st.Bytes), "message": "packets re-emitted with WritePacket through a Muxer that has their PIDs registered as elementary streams do not reproduce the stream"})
		}
		if !bytes.Equal(rw.Buf, st.Bytes) {
			c.Rep.Report("reemit-stream-differs", map[string]any{"kind": "stream", "stream": st.Name, "bytes": mc.Hex(st.Bytes), "message": "packets read with NextPacket and re-emitted after the whole stream was read do not reproduce the stream"})
		}
		c.Ev.Class("stream-reemitted", 1)
	}
	c.Ev.AddScenario(mc.Scenario{Name: "re-emit whole streams", SpaceSize: nre, Executed: nre, Exhaustive: true, Bound: "every packet of 4 multi-PID streams (all adaptation-field kinds), re-emitted after all packets were read"})
	c.Ev.Sample(map[string]any{"what": jobs[len(jobs)/2].what, "bytes": mc.Hex(jobs[len(jobs)/2].p.Encode()[:24])})
	c.Ev.Class("adaptation-field-ends-on-last-byte", nExact)
	c.Ev.Require("af-length-0", "afc-10", "stream-reemitted", "short-packet-padded", "adaptation-field-ends-on-last-byte")
}

// c11Write encodes a packet whose payload (and private data) are handed over the way a zero-copy caller does - as
// windows of larger buffers with other data right behind them: writing a packet reads the caller's memory, it
// never writes to it.
func c11Write(c *mc.Ctx, lp *astits.Packet) ([]byte, int, error) {
	if lp == nil {
		return astits.VerifWritePacket(lp)
	}
	checks := []func() bool{}
	if lp.Payload != nil {
		orig := lp.Payload
		in, intact := callerSlice(orig)
		lp.Payload = in
		defer func() { lp.Payload = orig }()
		checks = append(checks, intact)
	}
	if af := lp.AdaptationField; af != nil && af.TransportPrivateData != nil {
		orig := af.TransportPrivateData
		in, intact := callerSlice(orig)
		af.TransportPrivateData = in
		defer func() { af.TransportPrivateData = orig }()
		checks = append(checks, intact)
	}
	o, n, err := astits.VerifWritePacket(lp)
	for _, ok := range checks {
		if !ok() {
			c.Rep.Report("encode-writes-into-caller-memory", map[string]any{"kind": "packet", "what": "writePacket", "bytes": mc.Hex(o), "message": "writePacket changed the caller's payload / private data buffer (the bytes handed over or the memory behind them: len < cap)"})
		}
	}
	return o, n, err
}
