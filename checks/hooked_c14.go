//go:build verif

package checks

import (
	"bytes"
	"fmt"

	astits "github.com/asticode/go-astits"
	"verif/mc"
	"verif/ref"
)

func init() { register("C14", checkC14) }

// c14Decode: reference loop bytes -> parseDescriptors -> compare with the model.
func c14Decode(c *mc.Ctx, ds []*astits.Descriptor, what string) {
	loop := ref.Loop12(0xf, ref.DescLoop(ds))
	var want []*astits.Descriptor
	for _, d := range ds {
		want = append(want, withBodyLen(d))
	}
	var got []*astits.Descriptor
	var off int
	var err error
	det := func(msg string) map[string]any {
		return map[string]any{"kind": "descriptors", "what": what, "bytes": mc.Hex(loop), "message": msg}
	}
	if p := mc.Catch(func() { got, off, err = astits.VerifParseDescriptors(append(append([]byte{}, loop...), 0xEE, 0xEE)) }); p != nil {
		c.Rep.Report("decode-panic:"+what, det(fmt.Sprint(p)))
		return
	}
	if err != nil {
		c.Rep.Report("decode-failed:"+what, det(err.Error()))
		return
	}
	if off != len(loop) {
		c.Rep.Report("decode-consumed:"+what, det(fmt.Sprintf("parser stopped at offset %d, the loop ends at %d", off, len(loop))))
	}
	if !mc.SemEq(got, want) {
		c.Rep.Report("decode-differs:"+what, det("decoded descriptors differ from the model\n got  "+mc.Canon(got)+"\n want "+mc.Canon(want)))
	}
}

// c14Encode: model (with a chosen struct Length) -> writeDescriptorsWithLength -> reference bytes.
func c14Encode(c *mc.Ctx, ds []*astits.Descriptor, lengthMode int, what string) {
	var in []*astits.Descriptor
	for _, d := range ds {
		x := *d
		n := len(ref.DescBody(d))
		switch lengthMode {
		case 0:
			x.Length = uint8(n)
		case 1:
			x.Length = 0
		case 2:
			x.Length = uint8(n + 7)
		}
		in = append(in, &x)
	}
	want := ref.Loop12(0xf, ref.DescLoop(ds))
	var got []byte
	var n int
	var err error
	det := func(msg string) map[string]any {
		return map[string]any{"kind": "descriptors", "what": what, "length_mode": lengthMode, "bytes": mc.Hex(want), "message": msg}
	}
	if p := mc.Catch(func() { got, n, err = astits.VerifWriteDescriptorsWithLength(in) }); p != nil {
		c.Rep.Report("encode-panic:"+what, det(fmt.Sprint(p)))
		return
	}
	if err != nil {
		c.Rep.Report("encode-failed:"+what, det(err.Error()))
		return
	}
	// declared lengths must equal emitted bytes whatever else is wrong
	if len(got) >= 2 {
		decl := int(got[0]&0xf)<<8 | int(got[1])
		if decl != len(got)-2 {
			sig := "loop-length-mismatch:" + what
			switch {
			case lengthMode == 1:
				sig = "struct-length-0-writes-header-only"
			case what == "VBIData":
				sig = "vbi-data-length"
			}
			c.Rep.Report(sig, det(fmt.Sprintf("loop length field says %d, %d bytes follow", decl, len(got)-2)))
			return
		}
		o := 2
		for o+2 <= len(got) {
			o += 2 + int(got[o+1])
		}
		if o != len(got) {
			c.Rep.Report("descriptor-length-mismatch:"+what, det("descriptor_length fields do not add up to the emitted bytes"))
			return
		}
	}
	if n != len(got) {
		c.Rep.Report("encode-count:"+what, det(fmt.Sprintf("returned n=%d, %d bytes written", n, len(got))))
	}
	if !bytes.Equal(got, want) {
		sig := "encode-differs:" + what
		if what == "VBIData" {
			sig = "vbi-data-length"
		}
		c.Rep.Report(sig, det(fmt.Sprintf("written bytes differ from the reference encoding\n got  %x\n want %x", got, want)))
	}
}

func checkC14(c *mc.Ctx) {
	checkSpecConstants(c, "descriptors", specConstsDescriptors())
	c.Ev.Level = "exploration"
	c.Ev.Rule = "bounded-exhaustive descriptor model space per tag (all flag subsets, numeric fields over boundary alphabets, variable parts over length alphabets up to the 255-byte limit, 0..max loop items), decoded from the reference encoding and encoded against it with the struct Length correct / 0 / wrong; all ordered pairs of tags and a rotating set of triples in one loop; malformed input: declared length shorter/longer than the body for every tag followed by a sentinel; distinct_nontrivial = distinct model descriptors / loops"
	c.Ev.Assumptions = append(c.Ev.Assumptions, "maximum-bitrate values are multiples of 50; teletext pages 0..99; language/country codes 3 bytes; ISO 639 descriptor with one entry",
		"an empty body leaves the typed pointer nil on decode (library convention); unknown VBI data_service_id carry one reserved 0xFF byte")
	var firsts []*astits.Descriptor
	for _, g := range descGens {
		ds := g.Gen(true)
		firsts = append(firsts, ds[len(ds)/2])
		n := int64(len(ds))
		done := mc.ParFor(n, c.OverBudget, func(i int64) {
			d := ds[i]
			c14Decode(c, []*astits.Descriptor{d}, g.Name)
			for m := 0; m < 3; m++ {
				c14Encode(c, []*astits.Descriptor{d}, m, g.Name)
			}
			c.Ev.Distinct(g.Name + mc.Canon(d))
		})
		c.Ev.AddScenario(mc.Scenario{Name: "tag:" + g.Name, SpaceSize: n * 4, Executed: done * 4, Exhaustive: done == n, Bound: "each model value: decode, encode with struct Length correct / 0 / wrong"})
		c.Ev.Class("tag:"+g.Name, 1)
	}
	c.Ev.Sample(map[string]any{"tag": "0x48 service", "bytes": mc.Hex(ref.Desc(firsts[10]))})
	// loops: empty, all ordered pairs, rotating triples
	c14Decode(c, nil, "empty-loop")
	c14Encode(c, nil, 0, "empty-loop")
	var np int64
	for i, a := range firsts {
		for j, b := range firsts {
			np++
			c14Decode(c, []*astits.Descriptor{a, b}, "pair")
			c14Encode(c, []*astits.Descriptor{a, b}, 0, "pair")
			k := (i + j + 1) % len(firsts)
			if len(ref.DescLoop([]*astits.Descriptor{a, b, firsts[k]})) < 4000 {
				c14Decode(c, []*astits.Descriptor{a, b, firsts[k]}, "triple")
				c14Encode(c, []*astits.Descriptor{a, b, firsts[k]}, i%3, "triple")
			}
		}
	}
	if c.Thorough() {
		// every model value of every tag next to every model value of every tag (ordered pairs in one loop):
		// a descriptor must account for exactly its own bytes whatever precedes or follows it
		var all []*astits.Descriptor
		for _, g := range descGens {
			all = append(all, g.Gen(true)...)
		}
		na := int64(len(all))
		donep := mc.ParFor(na*na, c.OverBudget, func(i int64) {
			ds := []*astits.Descriptor{all[i%na], all[i/na]}
			c14Decode(c, ds, "pair")
			if i%7 == 0 {
				c14Encode(c, ds, int(i%3), "pair")
			}
		})
		c.Ev.AddScenario(mc.Scenario{Name: "all ordered pairs of all model values", SpaceSize: na * na, Executed: donep, Exhaustive: donep == na*na, Bound: fmt.Sprintf("%d model values x %d model values, decoded as one loop; every 7th pair also encoded", na, na)})
		c.Ev.DistinctAdd(donep)
		nt := int64(len(firsts)) * int64(len(firsts)) * int64(len(firsts))
		done := mc.ParFor(nt, c.OverBudget, func(i int64) {
			n := int64(len(firsts))
			ds := []*astits.Descriptor{firsts[i%n], firsts[i/n%n], firsts[i/n/n]}
			if len(ref.DescLoop(ds)) < 4000 {
				c14Decode(c, ds, "triple")
				c14Encode(c, ds, int(i%3), "triple")
			}
		})
		c.Ev.AddScenario(mc.Scenario{Name: "all ordered triples of tag families", SpaceSize: nt, Executed: done, Exhaustive: done == nt})
		c.Ev.DistinctAdd(done)
	}
	c.Ev.AddScenario(mc.Scenario{Name: "mixed loops", SpaceSize: np*2 + 1, Executed: np*2 + 1, Exhaustive: true, Bound: "empty loop, all ordered pairs of the 26 tag families, one triple per pair"})
	c.Ev.DistinctAdd(np * 2)
	// long loops: the 12-bit loop length over its whole range (every single-bit value and the
	// maximum), built from user-defined descriptors of chosen sizes
	var nl int64
	for _, target := range []int{255, 256, 257, 511, 512, 513, 1023, 1024, 1025, 1028, 2047, 2048, 2049, 3072, 4094, 4095} {
		var ds []*astits.Descriptor
		rest := target
		for i := 0; rest > 0; i++ {
			n := 257
			if rest < n {
				n = rest
			}
			if n == 1 { // a descriptor needs at least its 2-byte header: borrow from the previous one
				ds[len(ds)-1].UserDefined = ds[len(ds)-1].UserDefined[:len(ds[len(ds)-1].UserDefined)-1]
				n = 2
			}
			ds = append(ds, &astits.Descriptor{Tag: uint8(0x80 + i%0x7f), UserDefined: fillBytes(n-2, uint8(i))})
			rest -= n
		}
		if len(ref.DescLoop(ds)) != target {
			panic("long loop construction")
		}
		c14Decode(c, ds, "long-loop")
		c14Encode(c, ds, 0, "long-loop")
		nl++
	}
	c.Ev.AddScenario(mc.Scenario{Name: "long loops", SpaceSize: nl * 2, Executed: nl * 2, Exhaustive: true, Bound: "descriptor loops of 255..4095 bytes: every single-bit loop length +-1 and the 12-bit maximum"})
	c.Ev.Class("loop-over-1023-bytes", nl)
	// malformed input: declared length != body length, sentinel follows
	sentinel := []byte{0x52, 1, 0x99}
	var nm int64
	for ti, d := range firsts {
		body := ref.DescBody(d)
		for _, decl := range []int{0, 1, len(body) / 2, len(body) - 1, len(body) + 1, len(body) + 3} {
			if decl < 0 || decl > 255 || decl == len(body) {
				continue
			}
			nm++
			// the descriptor accounts for exactly `decl` bytes: if longer than the body, extra bytes follow
			raw := append([]byte{d.Tag, byte(decl)}, body...)
			if decl < len(body) {
				raw = raw[:2+decl]
			} else {
				raw = append(raw, bytes.Repeat([]byte{0xaa}, decl-len(body))...)
			}
			loop := ref.Loop12(0xf, append(raw, sentinel...))
			var got []*astits.Descriptor
			var err error
			if p := mc.Catch(func() { got, _, err = astits.VerifParseDescriptors(loop) }); p != nil {
				c.Rep.Report("malformed-panic:"+descGens[ti].Name, map[string]any{"kind": "descriptors", "bytes": mc.Hex(loop), "message": fmt.Sprint(p)})
				continue
			}
			if err != nil {
				c.Ev.Class("malformed-rejected", 1)
				continue
			}
			// the same descriptor as the LAST one of its loop, with whatever follows the loop behind it (the next entry of the
			// enclosing table): a body parser that reads ahead finds bytes there, the loop still ends where it says it ends
			if decl < len(body) {
				only := ref.Loop12(0xf, raw)
				buf := append(append([]byte{}, only...), bytes.Repeat([]byte{0x5c}, 300)...)
				var g2 []*astits.Descriptor
				var used int
				var e2 error
				if p := mc.Catch(func() { g2, used, e2 = astits.VerifParseDescriptors(buf) }); p != nil || e2 != nil || used != len(only) || len(g2) != 1 {
					c.Rep.Report("malformed-last-descriptor-breaks-the-loop:"+descGens[ti].Name, map[string]any{"kind": "descriptors", "bytes": mc.Hex(buf),
						"message": fmt.Sprintf("declared length %d (body %d), last descriptor of its loop, 300 bytes of the enclosing table behind the loop: panic=%v err=%v, %d of %d loop bytes consumed, %d descriptors", decl, len(body), p, e2, used, len(only), len(g2))})
				}
				c.Ev.Class("malformed-last-in-loop", 1)
			}
			last := got[len(got)-1]
			if len(got) != 2 || last.Tag != 0x52 || last.StreamIdentifier == nil || last.StreamIdentifier.ComponentTag != 0x99 {
				c.Rep.Report("malformed-shifts-following:"+descGens[ti].Name, map[string]any{"kind": "descriptors", "bytes": mc.Hex(loop),
					"message": fmt.Sprintf("declared length %d (body %d): the following descriptor was not decoded intact: %s", decl, len(body), mc.Canon(got))})
			}
			c.Ev.Class("malformed-sentinel-intact", 1)
		}
	}
	c.Ev.AddScenario(mc.Scenario{Name: "malformed declared lengths", SpaceSize: nm, Executed: nm, Exhaustive: true, Bound: "every tag family x declared length {0,1,half,body-1,body+1,body+3}, sentinel descriptor after it"})
	c.Ev.Require("tag:VBIData", "tag:Unknown", "tag:UserDefined", "malformed-sentinel-intact", "malformed-last-in-loop", "loop-over-1023-bytes")
}
