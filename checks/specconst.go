package checks

import (
	"fmt"

	astits "github.com/asticode/go-astits"
	"verif/mc"
)

// The exported constants are the names a caller compares decoded fields with (and fills encoded
// fields from): a decoded field equals "what the stream carries" only if the constant a caller tests
// it against has the value the specification assigns. The tables below are written from
// ISO 13818-1 / EN 300 468, not from the library.
type specConst struct {
	Name      string
	Got, Want uint64
}

func u(x any) uint64 {
	switch v := x.(type) {
	case int:
		return uint64(v)
	case uint8:
		return uint64(v)
	case uint16:
		return uint64(v)
	case astits.PSITableID:
		return uint64(v)
	case astits.StreamType:
		return uint64(v)
	}
	panic(fmt.Sprintf("specconst: unsupported type %T", x))
}

func checkSpecConstants(c *mc.Ctx, group string, cs []specConst) {
	for _, k := range cs {
		if k.Got != k.Want {
			c.Rep.Report("spec-constant-wrong:"+k.Name, map[string]any{"kind": "spec-constant", "group": group, "name": k.Name, "got": k.Got, "want": k.Want,
				"message": fmt.Sprintf("%s is %#x, the specification assigns %#x", k.Name, k.Got, k.Want)})
		}
	}
	c.Ev.AddScenario(mc.Scenario{Name: "spec-constants-" + group, SpaceSize: int64(len(cs)), Executed: int64(len(cs)), Exhaustive: true,
		Bound: "every exported constant of this group against the value its specification assigns"})
}

func specConstsTables() []specConst {
	return []specConst{
		{"PSITableIDPAT", u(astits.PSITableIDPAT), 0x00}, {"PSITableIDPMT", u(astits.PSITableIDPMT), 0x02},
		{"PSITableIDNITVariant1", u(astits.PSITableIDNITVariant1), 0x40}, {"PSITableIDNITVariant2", u(astits.PSITableIDNITVariant2), 0x41},
		{"PSITableIDSDTVariant1", u(astits.PSITableIDSDTVariant1), 0x42}, {"PSITableIDSDTVariant2", u(astits.PSITableIDSDTVariant2), 0x46},
		{"PSITableIDBAT", u(astits.PSITableIDBAT), 0x4a}, {"PSITableIDEITStart", u(astits.PSITableIDEITStart), 0x4e}, {"PSITableIDEITEnd", u(astits.PSITableIDEITEnd), 0x6f},
		{"PSITableIDTDT", u(astits.PSITableIDTDT), 0x70}, {"PSITableIDRST", u(astits.PSITableIDRST), 0x71}, {"PSITableIDST", u(astits.PSITableIDST), 0x72},
		{"PSITableIDTOT", u(astits.PSITableIDTOT), 0x73}, {"PSITableIDDIT", u(astits.PSITableIDDIT), 0x7e}, {"PSITableIDSIT", u(astits.PSITableIDSIT), 0x7f},
		{"PSITableIDNull", u(astits.PSITableIDNull), 0xff},
		{"PIDPAT", u(astits.PIDPAT), 0}, {"PIDCAT", u(astits.PIDCAT), 1}, {"PIDTSDT", u(astits.PIDTSDT), 2}, {"PIDNull", u(astits.PIDNull), 0x1fff},
		// EN 300 468 table 6
		{"RunningStatusUndefined", u(astits.RunningStatusUndefined), 0}, {"RunningStatusNotRunning", u(astits.RunningStatusNotRunning), 1},
		{"RunningStatusStartsInAFewSeconds", u(astits.RunningStatusStartsInAFewSeconds), 2}, {"RunningStatusPausing", u(astits.RunningStatusPausing), 3},
		{"RunningStatusRunning", u(astits.RunningStatusRunning), 4}, {"RunningStatusServiceOffAir", u(astits.RunningStatusServiceOffAir), 5},
		// ISO 13818-1 table 2-34 and the registered private values
		{"StreamTypeMPEG1Video", u(astits.StreamTypeMPEG1Video), 0x01}, {"StreamTypeMPEG2Video", u(astits.StreamTypeMPEG2Video), 0x02},
		{"StreamTypeMPEG1Audio", u(astits.StreamTypeMPEG1Audio), 0x03}, {"StreamTypeMPEG2Audio", u(astits.StreamTypeMPEG2Audio), 0x04},
		{"StreamTypeMPEG2HalvedSampleRateAudio", u(astits.StreamTypeMPEG2HalvedSampleRateAudio), 0x04},
		{"StreamTypePrivateSection", u(astits.StreamTypePrivateSection), 0x05}, {"StreamTypePrivateData", u(astits.StreamTypePrivateData), 0x06},
		{"StreamTypeMPEG2PacketizedData", u(astits.StreamTypeMPEG2PacketizedData), 0x06},
		{"StreamTypeADTS", u(astits.StreamTypeADTS), 0x0f}, {"StreamTypeAACAudio", u(astits.StreamTypeAACAudio), 0x0f},
		{"StreamTypeMPEG4Video", u(astits.StreamTypeMPEG4Video), 0x10}, {"StreamTypeAACLATMAudio", u(astits.StreamTypeAACLATMAudio), 0x11},
		{"StreamTypeMetadata", u(astits.StreamTypeMetadata), 0x15}, {"StreamTypeH264Video", u(astits.StreamTypeH264Video), 0x1b},
		{"StreamTypeH265Video", u(astits.StreamTypeH265Video), 0x24}, {"StreamTypeHEVCVideo", u(astits.StreamTypeHEVCVideo), 0x24},
		{"StreamTypeCAVSVideo", u(astits.StreamTypeCAVSVideo), 0x42}, {"StreamTypeVC1Video", u(astits.StreamTypeVC1Video), 0xea},
		{"StreamTypeDIRACVideo", u(astits.StreamTypeDIRACVideo), 0xd1}, {"StreamTypeAC3Audio", u(astits.StreamTypeAC3Audio), 0x81},
		{"StreamTypeDTSAudio", u(astits.StreamTypeDTSAudio), 0x82}, {"StreamTypeTRUEHDAudio", u(astits.StreamTypeTRUEHDAudio), 0x83},
		{"StreamTypeSCTE35", u(astits.StreamTypeSCTE35), 0x86}, {"StreamTypeEAC3Audio", u(astits.StreamTypeEAC3Audio), 0x87},
	}
}

func specConstsPES() []specConst {
	return []specConst{
		{"PTSDTSIndicatorNoPTSOrDTS", u(astits.PTSDTSIndicatorNoPTSOrDTS), 0}, {"PTSDTSIndicatorIsForbidden", u(astits.PTSDTSIndicatorIsForbidden), 1},
		{"PTSDTSIndicatorOnlyPTS", u(astits.PTSDTSIndicatorOnlyPTS), 2}, {"PTSDTSIndicatorBothPresent", u(astits.PTSDTSIndicatorBothPresent), 3},
		{"StreamIDPrivateStream1", u(astits.StreamIDPrivateStream1), 0xbd}, {"StreamIDPaddingStream", u(astits.StreamIDPaddingStream), 0xbe},
		{"StreamIDPrivateStream2", u(astits.StreamIDPrivateStream2), 0xbf},
		// ISO 13818-1 table 2-24
		{"TrickModeControlFastForward", u(astits.TrickModeControlFastForward), 0}, {"TrickModeControlSlowMotion", u(astits.TrickModeControlSlowMotion), 1},
		{"TrickModeControlFreezeFrame", u(astits.TrickModeControlFreezeFrame), 2}, {"TrickModeControlFastReverse", u(astits.TrickModeControlFastReverse), 3},
		{"TrickModeControlSlowReverse", u(astits.TrickModeControlSlowReverse), 4},
		{"PSTDBufferScale128Bytes", u(astits.PSTDBufferScale128Bytes), 0}, {"PSTDBufferScale1024Bytes", u(astits.PSTDBufferScale1024Bytes), 1},
	}
}

func specConstsPacket() []specConst {
	return []specConst{
		{"ScramblingControlNotScrambled", u(astits.ScramblingControlNotScrambled), 0}, {"ScramblingControlReservedForFutureUse", u(astits.ScramblingControlReservedForFutureUse), 1},
		{"ScramblingControlScrambledWithEvenKey", u(astits.ScramblingControlScrambledWithEvenKey), 2}, {"ScramblingControlScrambledWithOddKey", u(astits.ScramblingControlScrambledWithOddKey), 3},
		{"MpegTsPacketSize", u(astits.MpegTsPacketSize), 188},
	}
}

func specConstsDescriptors() []specConst {
	return []specConst{
		{"DescriptorTagRegistration", u(astits.DescriptorTagRegistration), 0x05}, {"DescriptorTagDataStreamAlignment", u(astits.DescriptorTagDataStreamAlignment), 0x06},
		{"DescriptorTagISO639LanguageAndAudioType", u(astits.DescriptorTagISO639LanguageAndAudioType), 0x0a}, {"DescriptorTagMaximumBitrate", u(astits.DescriptorTagMaximumBitrate), 0x0e},
		{"DescriptorTagPrivateDataIndicator", u(astits.DescriptorTagPrivateDataIndicator), 0x0f}, {"DescriptorTagAVCVideo", u(astits.DescriptorTagAVCVideo), 0x28},
		{"DescriptorTagNetworkName", u(astits.DescriptorTagNetworkName), 0x40}, {"DescriptorTagVBIData", u(astits.DescriptorTagVBIData), 0x45},
		{"DescriptorTagVBITeletext", u(astits.DescriptorTagVBITeletext), 0x46}, {"DescriptorTagService", u(astits.DescriptorTagService), 0x48},
		{"DescriptorTagShortEvent", u(astits.DescriptorTagShortEvent), 0x4d}, {"DescriptorTagExtendedEvent", u(astits.DescriptorTagExtendedEvent), 0x4e},
		{"DescriptorTagComponent", u(astits.DescriptorTagComponent), 0x50}, {"DescriptorTagStreamIdentifier", u(astits.DescriptorTagStreamIdentifier), 0x52},
		{"DescriptorTagContent", u(astits.DescriptorTagContent), 0x54}, {"DescriptorTagParentalRating", u(astits.DescriptorTagParentalRating), 0x55},
		{"DescriptorTagTeletext", u(astits.DescriptorTagTeletext), 0x56}, {"DescriptorTagLocalTimeOffset", u(astits.DescriptorTagLocalTimeOffset), 0x58},
		{"DescriptorTagSubtitling", u(astits.DescriptorTagSubtitling), 0x59}, {"DescriptorTagPrivateDataSpecifier", u(astits.DescriptorTagPrivateDataSpecifier), 0x5f},
		{"DescriptorTagAC3", u(astits.DescriptorTagAC3), 0x6a}, {"DescriptorTagEnhancedAC3", u(astits.DescriptorTagEnhancedAC3), 0x7a},
		{"DescriptorTagExtension", u(astits.DescriptorTagExtension), 0x7f}, {"DescriptorTagExtensionSupplementaryAudio", u(astits.DescriptorTagExtensionSupplementaryAudio), 0x06},
		// ISO 13818-1 table 2-60, 2-53; EN 300 468 tables 87, 100, 109
		{"AudioTypeCleanEffects", u(astits.AudioTypeCleanEffects), 1}, {"AudioTypeHearingImpaired", u(astits.AudioTypeHearingImpaired), 2},
		{"AudioTypeVisualImpairedCommentary", u(astits.AudioTypeVisualImpairedCommentary), 3},
		{"DataStreamAligmentAudioSyncWord", u(astits.DataStreamAligmentAudioSyncWord), 1}, {"DataStreamAligmentVideoSliceOrAccessUnit", u(astits.DataStreamAligmentVideoSliceOrAccessUnit), 1},
		{"DataStreamAligmentVideoAccessUnit", u(astits.DataStreamAligmentVideoAccessUnit), 2}, {"DataStreamAligmentVideoGOPOrSEQ", u(astits.DataStreamAligmentVideoGOPOrSEQ), 3},
		{"DataStreamAligmentVideoSEQ", u(astits.DataStreamAligmentVideoSEQ), 4},
		{"ServiceTypeDigitalTelevisionService", u(astits.ServiceTypeDigitalTelevisionService), 1},
		{"TeletextTypeInitialTeletextPage", u(astits.TeletextTypeInitialTeletextPage), 1}, {"TeletextTypeTeletextSubtitlePage", u(astits.TeletextTypeTeletextSubtitlePage), 2},
		{"TeletextTypeAdditionalInformationPage", u(astits.TeletextTypeAdditionalInformationPage), 3}, {"TeletextTypeProgramSchedulePage", u(astits.TeletextTypeProgramSchedulePage), 4},
		{"TeletextTypeTeletextSubtitlePageForHearingImpairedPeople", u(astits.TeletextTypeTeletextSubtitlePageForHearingImpairedPeople), 5},
		{"VBIDataServiceIDEBUTeletext", u(astits.VBIDataServiceIDEBUTeletext), 1}, {"VBIDataServiceIDInvertedTeletext", u(astits.VBIDataServiceIDInvertedTeletext), 2},
		{"VBIDataServiceIDVPS", u(astits.VBIDataServiceIDVPS), 4}, {"VBIDataServiceIDWSS", u(astits.VBIDataServiceIDWSS), 5},
		{"VBIDataServiceIDClosedCaptioning", u(astits.VBIDataServiceIDClosedCaptioning), 6}, {"VBIDataServiceIDMonochrome442Samples", u(astits.VBIDataServiceIDMonochrome442Samples), 7},
	}
}

func init() {
	Replayers["spec-constant"] = func(d map[string]any) error {
		name, _ := d["name"].(string)
		for _, g := range [][]specConst{specConstsTables(), specConstsPES(), specConstsPacket(), specConstsDescriptors()} {
			for _, k := range g {
				if k.Name == name && k.Got != k.Want {
					return fmt.Errorf("%s is %#x, the specification assigns %#x", k.Name, k.Got, k.Want)
				}
			}
		}
		return nil
	}
}

func init() {
	// a blocked call is reported with the goroutine stack; there is nothing to re-run
	Replayers["stack"] = func(d map[string]any) error {
		return fmt.Errorf("%v\n%v", d["message"], d["stack"])
	}
}
