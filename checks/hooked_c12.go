//go:build verif

package checks

import (
	"bytes"
	"context"
	"fmt"
	"reflect"
	"strings"
	"time"

	astits "github.com/asticode/go-astits"
	"verif/mc"
	"verif/ref"
)

func init() { register("C12", checkC12) }

func up64(v uint64) *uint64 { return &v }

// pesShape builds the default-valued model header for a structural shape.
// digits: indicator(3) escr rate trick copy crc ext(1+16)
var pesShapeRadix = mc.Radix{4, 2, 2, 2, 2, 2, 17}

func pesShape(i int64, sid uint8) *ref.PESHdr {
	d := pesShapeRadix.Digits(i, nil)
	h := &ref.PESHdr{StreamID: sid}
	switch d[0] {
	case 1:
		h.PTS = up64(0x123456789 & (1<<33 - 1))
	case 2:
		h.PTS, h.DTS = up64(0x1fedcba98), up64(0x0aaaaaaaa)
	case 3:
		h.Ind01 = true // PTS_DTS_flags '01': one of the 2^8 flag combinations (decode side only)
	}
	if d[1] == 1 {
		h.ESCR = &ref.PCR{Base: 0x155555555, Ext: 0x0aa}
	}
	if d[2] == 1 {
		v := uint32(0x2aaaaa)
		h.ESRate = &v
	}
	if d[3] == 1 {
		h.Trick = &ref.Trick{Ctl: 3, FieldID: 1, Intra: 1, FreqTrunc: 2}
	}
	if d[4] == 1 {
		v := uint8(0x55)
		h.CopyInfo = &v
	}
	if d[5] == 1 {
		v := uint16(0x1234)
		h.CRC = &v
	}
	if d[6] > 0 {
		e := d[6] - 1
		x := &ref.PESExt{}
		if e&1 != 0 {
			x.Private = []byte{1, 2, 3, 4, 5, 6, 7, 8, 9, 10, 11, 12, 13, 14, 15, 16}
		}
		if e&2 != 0 {
			x.Seq = &ref.PESSeq{Counter: 0x55, MPEG1or2: 1, OrigStuff: 0x2a}
		}
		if e&4 != 0 {
			x.PSTD = &ref.PSTD{Scale: 1, Size: 0x0aaa}
		}
		if e&8 != 0 {
			x.HasExt2, x.Ext2 = true, []byte{0xc1, 0xc2}
		}
		h.Ext = x
	}
	return h
}

type pesField struct {
	name    string
	present func(h *ref.PESHdr) bool
	alpha   []uint64
	set     func(h *ref.PESHdr, v uint64)
}

func rangeAlpha(n int) []uint64 {
	a := make([]uint64, n)
	for i := range a {
		a[i] = uint64(i)
	}
	return a
}

var pesFields = []pesField{
	{"flags1", func(*ref.PESHdr) bool { return true }, rangeAlpha(64), func(h *ref.PESHdr, v uint64) {
		h.Scrambling, h.Priority, h.Alignment, h.Copyright, h.Original = uint8(v>>4), v&8 != 0, v&4 != 0, v&2 != 0, v&1 != 0
	}},
	{"pts", func(h *ref.PESHdr) bool { return h.PTS != nil }, ts33Alpha, func(h *ref.PESHdr, v uint64) { h.PTS = up64(v) }},
	{"dts", func(h *ref.PESHdr) bool { return h.DTS != nil }, ts33Alpha, func(h *ref.PESHdr, v uint64) { h.DTS = up64(v) }},
	{"escr.base", func(h *ref.PESHdr) bool { return h.ESCR != nil }, ts33Alpha, func(h *ref.PESHdr, v uint64) { h.ESCR = &ref.PCR{Base: v, Ext: h.ESCR.Ext} }},
	{"escr.ext", func(h *ref.PESHdr) bool { return h.ESCR != nil }, ext9Alpha, func(h *ref.PESHdr, v uint64) { h.ESCR = &ref.PCR{Base: h.ESCR.Base, Ext: uint16(v)} }},
	{"es_rate", func(h *ref.PESHdr) bool { return h.ESRate != nil }, bitsAlpha(22), func(h *ref.PESHdr, v uint64) { x := uint32(v); h.ESRate = &x }},
	{"trick", func(h *ref.PESHdr) bool { return h.Trick != nil }, rangeAlpha(256), func(h *ref.PESHdr, v uint64) { h.Trick = ref.TrickFromByte(byte(v)) }},
	{"copy_info", func(h *ref.PESHdr) bool { return h.CopyInfo != nil }, rangeAlpha(128), func(h *ref.PESHdr, v uint64) { x := uint8(v); h.CopyInfo = &x }},
	{"crc", func(h *ref.PESHdr) bool { return h.CRC != nil }, rangeAlpha(65536), func(h *ref.PESHdr, v uint64) { x := uint16(v); h.CRC = &x }},
	{"seq.counter", func(h *ref.PESHdr) bool { return h.Ext != nil && h.Ext.Seq != nil }, bitsAlpha(7), func(h *ref.PESHdr, v uint64) {
		s := *h.Ext.Seq
		s.Counter = uint8(v)
		e := *h.Ext
		e.Seq = &s
		h.Ext = &e
	}},
	{"seq.id+stuff", func(h *ref.PESHdr) bool { return h.Ext != nil && h.Ext.Seq != nil }, rangeAlpha(128), func(h *ref.PESHdr, v uint64) {
		s := *h.Ext.Seq
		s.MPEG1or2, s.OrigStuff = uint8(v>>6), uint8(v&0x3f)
		e := *h.Ext
		e.Seq = &s
		h.Ext = &e
	}},
	{"pstd", func(h *ref.PESHdr) bool { return h.Ext != nil && h.Ext.PSTD != nil }, append(bitsAlpha(13), 1<<13, 1<<13|0x1fff), func(h *ref.PESHdr, v uint64) {
		e := *h.Ext
		e.PSTD = &ref.PSTD{Scale: uint8(v >> 13), Size: uint16(v & 0x1fff)}
		h.Ext = &e
	}},
	{"ext2_length", func(h *ref.PESHdr) bool { return h.Ext != nil && h.Ext.HasExt2 }, rangeAlpha(128), func(h *ref.PESHdr, v uint64) {
		e := *h.Ext
		e.Ext2 = make([]byte, v)
		for i := range e.Ext2 {
			e.Ext2[i] = byte(0x60 + i)
		}
		h.Ext = &e
	}},
	{"header_stuffing", func(*ref.PESHdr) bool { return true }, rangeAlpha(33), func(h *ref.PESHdr, v uint64) { h.Stuffing = int(v) }},
}

func pesPayloadBytes(n int) []byte {
	b := make([]byte, n)
	for i := range b {
		b[i] = byte(0x20 + i%0xc0)
	}
	return b
}

func normRefPES(h *ref.PESHdr) *ref.PESHdr {
	x := *h
	x.Stuffing = 0 // header stuffing is not represented in the library struct
	if x.Ext != nil {
		e := *x.Ext
		if len(e.Ext2) == 0 {
			e.Ext2 = nil
		}
		x.Ext = &e
	}
	if x.Trick != nil {
		t := *ref.TrickFromByte(x.Trick.Byte())
		x.Trick = &t
	}
	return &x
}

// c12Decode: reference bytes -> library -> compare with the model.
func c12Decode(c *mc.Ctx, h *ref.PESHdr, what string, public bool) {
	payload := pesPayloadBytes(37)
	b := h.Encode(payload, ref.LenExact)
	det := func(msg string) map[string]any {
		return map[string]any{"kind": "pes", "what": what, "bytes": mc.Hex(b), "message": msg}
	}
	check := func(d *astits.PESData, err error, via string) {
		if err != nil || d == nil {
			sig := "decode-failed:" + fieldOf(what)
			if isF10ID(h.StreamID) {
				sig = "optional-header-assumed-for-headerless-stream-id"
			}
			c.Rep.Report(sig, det(fmt.Sprintf("%s: %v", via, err)))
			return
		}
		g := normRefPES(toRefPES(d.Header, d.Header.StreamID))
		w := normRefPES(h)
		if !ref.HasOptHeader(h.StreamID) {
			w = &ref.PESHdr{StreamID: h.StreamID}
		}
		if !mc.SemEq(g, w) {
			sig := "decode-differs:" + diffFields(g, w)
			if d.Header.OptionalHeader != nil && !ref.HasOptHeader(h.StreamID) {
				sig = "optional-header-assumed-for-headerless-stream-id"
			}
			c.Rep.Report(sig, det(via+": decoded header differs from the model\n got  "+mc.Canon(g)+"\n want "+mc.Canon(w)))
			return
		}
		wantData := payload
		if !ref.HasOptHeader(h.StreamID) {
			wantData = b[6:]
		}
		if !bytes.Equal(d.Data, wantData) {
			c.Rep.Report("payload-boundary:"+fieldOf(what), det(fmt.Sprintf("%s: %d payload bytes, want %d", via, len(d.Data), len(wantData))))
		}
		if int(d.Header.PacketLength) != len(b)-6 {
			c.Rep.Report("packet-length-field:"+fieldOf(what), det(fmt.Sprintf("%s: PES_packet_length decoded as %d, is %d", via, d.Header.PacketLength, len(b)-6)))
		}
	}
	var d *astits.PESData
	var err error
	if p := mc.Catch(func() { d, err = astits.VerifParsePESData(b) }); p != nil {
		c.Rep.Report("decode-panic:"+fieldOf(what), det(fmt.Sprint(p)))
		return
	}
	check(d, err, "parsePESData")
	// the same packet cut short: PES_packet_length announces more bytes than there are. Whatever is done with it
	// (an error, nothing), a PES delivered without error carries exactly the announced number of bytes
	if ref.HasOptHeader(h.StreamID) {
		for _, cut := range []int{1, len(payload) / 2, len(payload) - 1} {
			var d2 *astits.PESData
			var err2 error
			if p := mc.Catch(func() { d2, err2 = astits.VerifParsePESData(b[:len(b)-cut]) }); p != nil {
				c.Rep.Report("decode-panic:"+fieldOf(what), det(fmt.Sprintf("packet cut by %d bytes: %v", cut, p)))
				break
			}
			if err2 == nil && d2 != nil && len(d2.Data) != len(payload) {
				c.Rep.Report("payload-boundary:bounded-packet-cut-short-accepted", det(fmt.Sprintf("PES_packet_length announces %d payload bytes, the packet is cut by %d bytes and is delivered without error with %d payload bytes", len(payload), cut, len(d2.Data))))
				break
			}
		}
		c.Ev.Class("bounded-packet-cut-short", 1)
	}
	if public {
		cc := uint8(3)
		ps := Packetize(SUnit{PID: 0x100, Bytes: b}, nil, &cc, false)
		out := DemuxBytes(EncodePkts(ps))
		if len(out.Data) != 1 || out.Data[0].PES == nil {
			sig := "decode-failed-public:" + fieldOf(what)
			if isF10ID(h.StreamID) {
				sig = "optional-header-assumed-for-headerless-stream-id"
			}
			c.Rep.Report(sig, det(fmt.Sprintf("NextData delivered %d data, errs=%v", len(out.Data), errStrings(out.Errs))))
		} else {
			check(out.Data[0].PES, nil, "NextData")
		}
	}
}

// c12Encode: model -> library writer -> compare with reference bytes.
func c12Encode(c *mc.Ctx, h *ref.PESHdr, what string, public bool) {
	if h.CRC != nil || (h.Ext != nil && h.Ext.HasPack) || h.Stuffing != 0 || h.Ind01 {
		return // not writable by the library (documented TODOs) - outside the encode domain
	}
	for _, plen := range []int{0, 1, 200, 65535, 65536} {
		lh := fromRefPES(h)
		want := h.Encode(nil, len(h.OptHeaderIfAny())+plen)
		if len(h.OptHeaderIfAny())+plen > 0xffff {
			want = h.Encode(nil, 0)
		}
		got, n, err := astits.VerifWritePESHeader(lh, plen)
		det := map[string]any{"kind": "pes", "what": what, "payload_len": plen, "bytes": mc.Hex(want)}
		if err != nil || n != len(got) {
			det["message"] = fmt.Sprintf("writePESHeader: n=%d len=%d err=%v", n, len(got), err)
			c.Rep.Report("encode-failed:"+fieldOf(what), det)
			continue
		}
		if !bytes.Equal(got, want) {
			// PES_packet_length 0 is also acceptable for video stream ids
			alt := h.Encode(nil, 0)
			if bytes.Equal(got, alt) && (h.StreamID >= 0xe0 && h.StreamID <= 0xef || h.StreamID == 0xfd) {
				continue
			}
			det["message"] = fmt.Sprintf("written header differs from the reference encoding\n got  %x\n want %x", got, want)
			c.Rep.Report("encode-differs:"+fieldOf(what), det)
		}
	}
	// leftover values behind cleared flags: a caller that strips a part from a demuxed header clears the
	// flag that announces it and leaves the rest of the struct as it is. The encoding is that of the header
	// without the part, and the announced lengths match the bytes written
	if ref.HasOptHeader(h.StreamID) && (h.Ext != nil || h.PTS != nil || h.ESCR != nil) {
		lh := fromRefPES(h)
		o := lh.OptionalHeader
		x := *h
		if h.Ext != nil {
			o.HasExtension = false // HasPrivateData, HasExtension2 ... stay set
			x.Ext = nil
		} else if h.ESCR != nil {
			o.HasESCR = false // the ESCR value stays
			x.ESCR = nil
		} else {
			o.PTSDTSIndicator = 0 // PTS / DTS values stay
			x.PTS, x.DTS = nil, nil
		}
		want := x.Encode(nil, len(x.OptHeaderIfAny())+200)
		got, n, err := astits.VerifWritePESHeader(lh, 200)
		alt := x.Encode(nil, 0)
		if err != nil || n != len(got) || (!bytes.Equal(got, want) && !(bytes.Equal(got, alt) && (h.StreamID >= 0xe0 && h.StreamID <= 0xef || h.StreamID == 0xfd))) {
			c.Rep.Report("encode-differs:leftover-behind-cleared-flag", map[string]any{"kind": "pes", "what": what, "payload_len": 200, "bytes": mc.Hex(want), "message": fmt.Sprintf("a part whose flag is cleared (values left in the struct) changes the written header: n=%d err=%v\n got  %x\n want %x", n, err, got, want)})
		}
		c.Ev.Class("leftover-behind-cleared-flag", 1)
	}
	// a stream id that has no optional header, written from a struct that still carries one (a header template
	// reused across streams): ISO 13818-1 2.4.3.7 defines no optional header for these ids, so the encoding is
	// the six fixed bytes whatever the struct holds
	if !ref.HasOptHeader(h.StreamID) && !isF10ID(h.StreamID) {
		for _, sh := range []int64{0, 1, pesShapeRadix.Size() - 1} {
			lh := fromRefPES(pesShape(sh, 0xc0))
			lh.StreamID = h.StreamID
			for _, plen := range []int{0, 24, 65535} {
				want := h.Encode(nil, plen)
				got, n, err := astits.VerifWritePESHeader(lh, plen)
				if err != nil || n != len(got) || !bytes.Equal(got, want) {
					c.Rep.Report("encode-differs:optional-header-written-for-headerless-stream-id", map[string]any{"kind": "pes", "what": what, "payload_len": plen, "bytes": mc.Hex(want), "message": fmt.Sprintf("stream id %#x has no optional header; a leftover OptionalHeader in the struct changes the written header: n=%d err=%v\n got  %x\n want %x", h.StreamID, n, err, got, want)})
				}
			}
		}
		c.Ev.Class("leftover-optional-header-on-headerless-id", 1)
	}
	if public && ref.HasOptHeader(h.StreamID) {
		// through Muxer.WriteData: reassemble the PES bytes from the packets
		rw := NewRecWriter()
		m := astits.NewMuxer(context.Background(), rw)
		m.AddElementaryStream(astits.PMTElementaryStream{ElementaryPID: 0x100, StreamType: astits.StreamTypeAACAudio})
		m.SetPCRPID(0x100)
		payload := pesPayloadBytes(300)
		if _, err := m.WriteData(&astits.MuxerData{PID: 0x100, PES: &astits.PESData{Data: payload, Header: fromRefPES(h)}}); err != nil {
			c.Rep.Report("encode-failed-public:"+fieldOf(what), map[string]any{"kind": "pes", "what": what, "message": fmt.Sprint(err)})
			return
		}
		var pes []byte
		raw, _ := ref.SplitPackets(rw.Buf)
		for _, b := range raw {
			if p, err := ref.DecodePkt(b); err == nil && p.PID == 0x100 {
				pes = append(pes, p.Payload...)
			}
		}
		want := h.Encode(payload, ref.LenExact)
		alt := h.Encode(payload, 0)
		if !bytes.Equal(pes, want) && !(bytes.Equal(pes, alt) && (h.StreamID >= 0xe0 && h.StreamID <= 0xef || h.StreamID == 0xfd)) {
			c.Rep.Report("encode-differs-public:"+fieldOf(what), map[string]any{"kind": "pes", "what": what, "bytes": mc.Hex(want), "message": fmt.Sprintf("PES reassembled from WriteData output differs from the reference encoding\n got  %x", pes[:minInt(len(pes), 80)])})
		}
	}
}

func minInt(a, b int) int {
	if a < b {
		return a
	}
	return b
}

func checkC12(c *mc.Ctx) {
	checkSpecConstants(c, "pes", specConstsPES())
	c.Ev.Level = "exploration"
	c.Ev.Rule = "bounded-exhaustive codec input space: all 256 stream ids; all 2176 structural optional-header shapes; every field over its boundary alphabet alone (all 256 trick bytes, all 128 copy-info values, all 2^16 CRC values, 33-bit values: 0, every single bit, all ones, alternating); header stuffing 0..32; PES_packet_length classes; timestamps: stratified 2^25 (quick) or all 2^33 (thorough) values through parse and write; Duration() against exact rational arithmetic; distinct_nontrivial = distinct model headers / values"
	c.Ev.Assumptions = append(c.Ev.Assumptions, "pack_header_field_flag=1 is outside the decode domain; CRC, pack header and header stuffing are outside the encode domain (not writable, documented TODO)",
		"PES_packet_length 0 accepted on the encode side for stream ids 0xE0-0xEF and 0xFD and whenever the length exceeds 65535",
		"Duration(): both readings of 'truncated' accepted (sum of truncated terms, or truncated sum)")
	// stream ids
	for sid := 0; sid < 256; sid++ {
		for _, sh := range []int64{0, 1} {
			h := pesShape(sh, uint8(sid))
			c12Decode(c, h, fmt.Sprintf("stream_id=%#x", sid), sid%16 == 0)
			c12Encode(c, h, fmt.Sprintf("stream_id=%#x", sid), false)
		}
		if !ref.HasOptHeader(uint8(sid)) {
			c.Ev.Class("stream-id-without-optional-header", 1)
		}
	}
	c.Ev.AddScenario(mc.Scenario{Name: "all stream ids", SpaceSize: 512, Executed: 512, Exhaustive: true})
	// structural shapes
	ns := pesShapeRadix.Size()
	done := mc.ParFor(ns, c.OverBudget, func(i int64) {
		for _, sid := range []uint8{0xe0, 0xc0, 0xbd} {
			h := pesShape(i, sid)
			c12Decode(c, h, fmt.Sprintf("shape=%d", i), i%8 == 0)
			c12Encode(c, h, fmt.Sprintf("shape=%d", i), i%8 == 0)
		}
	})
	// decode only: the extension's pack_header_field_flag with an empty pack header (pack_field_length 0 - the library
	// reads the length byte and not the pack header itself, as its source says), in front of every subset of the other
	// extension parts; the writer cannot express the flag
	var npack int64
	for e := 0; e < 16; e++ {
		for _, top := range []int64{0, 2} {
			idx := pesShapeRadix.Index([]int{int(top), 0, 0, 0, 0, 0, e + 1})
			h := pesShape(idx, 0xe0)
			h.Ext.HasPack, h.Ext.PackHeader = true, []byte{}
			c12Decode(c, h, fmt.Sprintf("shape=%d + empty pack header", idx), false)
			npack++
		}
	}
	c.Ev.Class("pack-header-flag-decoded", npack)
	c.Ev.AddScenario(mc.Scenario{Name: "pack header flag", SpaceSize: npack, Executed: npack, Exhaustive: true, Bound: "16 extension subsets x {no timestamps, PTS+DTS} with pack_header_field_flag and pack_field_length 0, decode side"})
	c.Ev.AddScenario(mc.Scenario{Name: "structural shapes", SpaceSize: ns * 3, Executed: done * 3, Exhaustive: done == ns, Bound: "PTS/DTS indicator x ESCR x ES rate x trick x copy info x CRC x (no extension | 16 extension subsets) x 3 stream ids"})
	c.Ev.DistinctAdd(done * 3)
	// one deviation per field on a family of shapes that contain it
	type job struct {
		h    *ref.PESHdr
		what string
	}
	var jobs []job
	shapes := []int64{pesShapeRadix.Size() - 1, 2, 0}
	// full shape index: indicator 2, all flags, ext subset 16 -> last index; the same without the CRC (which the
	// library cannot write) so that every field value is also ENCODED with other fields behind it
	shapes = append(shapes, pesShapeRadix.Index([]int{2, 1, 1, 1, 1, 0, 16}))
	for _, sh := range shapes {
		base := pesShape(sh, 0xe0)
		for _, f := range pesFields {
			if !f.present(base) {
				continue
			}
			for _, v := range f.alpha {
				h := pesShape(sh, 0xe0)
				f.set(h, v)
				jobs = append(jobs, job{h, fmt.Sprintf("%s=%#x shape=%d", f.name, v, sh)})
			}
		}
	}
	// pairs over 3-value alphabets on the full shape
	full := shapes[0]
	fb := pesShape(full, 0xe0)
	for i, f := range pesFields {
		if !f.present(fb) || f.name == "crc" {
			continue
		}
		for j := i + 1; j < len(pesFields); j++ {
			g := pesFields[j]
			if !g.present(fb) {
				continue
			}
			for _, v := range f.alpha[:3] {
				for _, w := range g.alpha[:3] {
					h := pesShape(full, 0xe0)
					f.set(h, v)
					g.set(h, w)
					jobs = append(jobs, job{h, fmt.Sprintf("%s+%s", f.name, g.name)})
				}
			}
		}
	}
	nj := int64(len(jobs))
	done = mc.ParFor(nj, c.OverBudget, func(i int64) {
		j := jobs[i]
		c12Decode(c, j.h, j.what, false)
		c12Encode(c, j.h, j.what, false)
	})
	c.Ev.AddScenario(mc.Scenario{Name: "field alphabets", SpaceSize: nj, Executed: done, Exhaustive: done == nj, Bound: "every field over its alphabet alone on 4 shapes (none, PTS only, everything, everything writable); every pair of fields over 3 values on the full shape"})
	c.Ev.DistinctAdd(done)
	c.Ev.Sample(map[string]any{"what": jobs[len(jobs)/3].what, "bytes": mc.Hex(jobs[len(jobs)/3].h.Encode(nil, ref.LenExact))})

	// payload boundaries: PES_packet_length in {0, exact, shorter, longer than available}
	nb := 0
	// payload contents: ordinary bytes, a tail of 0xFF, only 0xFF, only 0x00, a PES start code first: the
	// boundary is a matter of lengths only, never of what the bytes are
	contents := [][]byte{pesPayloadBytes(60), append(pesPayloadBytes(57), 0xff, 0xff, 0xff), bytes.Repeat([]byte{0xff}, 60), bytes.Repeat([]byte{0x00}, 60), append([]byte{0, 0, 1, 0xe0, 0, 0, 0x80, 0, 0}, pesPayloadBytes(51)...)}
	for ci := 0; ci < len(contents)*3; ci++ {
		sid := []uint8{0xe0, 0xc0, 0xbe}[ci%3]
		h := pesShape(1, sid)
		payload := contents[ci/3]
		exact := len(h.OptHeaderIfAny()) + len(payload)
		for _, l := range []int{0, exact, exact - 1, exact - 20, exact - len(payload), exact + 1, exact + 500} {
			nb++
			b := h.Encode(payload, l)
			var d *astits.PESData
			var err error
			if p := mc.Catch(func() { d, err = astits.VerifParsePESData(b) }); p != nil {
				c.Rep.Report("payload-boundary-panic", map[string]any{"kind": "pes", "bytes": mc.Hex(b), "message": fmt.Sprint(p)})
				continue
			}
			hdrLen := len(b) - len(payload)
			var want []byte
			switch {
			case l == 0:
				want = payload
			case l <= exact:
				want = b[hdrLen : 6+l]
			}
			if l > exact {
				// longer than available: an error, or everything that is there
				if err == nil && !bytes.Equal(d.Data, payload) {
					c.Rep.Report("payload-boundary:length-exceeds-available", map[string]any{"kind": "pes", "bytes": mc.Hex(b), "message": fmt.Sprintf("declared %d, available %d: delivered %d bytes", l, exact, len(d.Data))})
				}
				continue
			}
			if err != nil || !bytes.Equal(d.Data, want) {
				c.Rep.Report("payload-boundary:length", map[string]any{"kind": "pes", "bytes": mc.Hex(b), "message": fmt.Sprintf("PES_packet_length %d (exact %d): err=%v, %d payload bytes delivered, want %d", l, exact, err, len(dataOf(d)), len(want))})
			}
			c.Ev.Class("payload-boundary", 1)
		}
	}
	// the top of the 16-bit PES_packet_length range: exact lengths 65520..65535 (and through the Demuxer)
	for l := 65520; l <= 65535; l++ {
		for _, sid := range []uint8{0xc0, 0xe0} {
			nb++
			h := pesShape(1, sid)
			payload := bytes.Repeat([]byte{byte(l)}, l-len(h.OptHeaderIfAny()))
			b := h.Encode(payload, ref.LenExact)
			var d *astits.PESData
			var err error
			if p := mc.Catch(func() { d, err = astits.VerifParsePESData(b) }); p != nil || err != nil || !bytes.Equal(dataOf(d), payload) || int(d.Header.PacketLength) != l {
				c.Rep.Report("payload-boundary:length-near-65535", map[string]any{"kind": "pes", "bytes": mc.Hex(b[:64]), "message": fmt.Sprintf("PES_packet_length %d (exact): panic=%v err=%v, %d payload bytes delivered, want %d", l, p, err, len(dataOf(d)), len(payload))})
			}
			if l%5 == 0 {
				cc := uint8(1)
				ps := Packetize(SUnit{PID: 0x100, Bytes: b}, nil, &cc, false)
				ps = append(ps, Packetize(PESUnit(0x100, sid, pesPayloadBytes(10), 5, true), nil, &cc, false)...)
				out := DemuxBytes(EncodePkts(ps))
				if len(out.Errs) > 0 || len(out.Data) != 2 || out.Data[0].PES == nil || !bytes.Equal(out.Data[0].PES.Data, payload) {
					c.Rep.Report("payload-boundary:length-near-65535", map[string]any{"kind": "pes", "bytes": mc.Hex(b[:64]), "message": fmt.Sprintf("PES_packet_length %d through NextData: %d data, errs=%v", l, len(out.Data), errStrings(out.Errs))})
				}
			}
			c.Ev.Class("payload-boundary", 1)
		}
	}
	c.Ev.AddScenario(mc.Scenario{Name: "payload boundaries", SpaceSize: int64(nb), Executed: int64(nb), Exhaustive: true, Bound: "PES_packet_length 0, exact, exact-1, exact-20, header only, exact+1, exact+500 x 3 stream ids x 5 payload contents (ordinary, 0xFF tail, all 0xFF, all 0x00, start code first)"})

	// timestamps through parse/write
	tsCheck := func(v uint64) {
		w := &ref.W{}
		ref.PutTS33(w, 0b0010, v)
		want := w.Out()
		cr, err := astits.VerifParsePTSOrDTS(want)
		if err != nil || uint64(cr.Base) != v || cr.Extension != 0 {
			c.Rep.Report("pts-decode", map[string]any{"kind": "pts", "value": v, "bytes": mc.Hex(want), "message": fmt.Sprintf("decoded %+v err=%v", cr, err)})
		}
		got, n, err := astits.VerifWritePTSOrDTS(0b0010, &astits.ClockReference{Base: int64(v)})
		if err != nil || n != 5 || !bytes.Equal(got, want) {
			c.Rep.Report("pts-encode", map[string]any{"kind": "pts", "value": v, "message": fmt.Sprintf("encoded %x, want %x", got, want)})
		}
		// Duration with extension 0
		durCheck(c, int64(v), 0)
	}
	if c.Thorough() {
		const blk = 1 << 16
		done = mc.ParFor((1<<33)/blk, c.OverBudget, func(b int64) {
			for v := uint64(b) * blk; v < uint64(b+1)*blk; v++ {
				tsCheck(v)
			}
		}) * blk
		c.Ev.AddScenario(mc.Scenario{Name: "all 2^33 timestamp values (parse, write, Duration)", SpaceSize: 1 << 33, Executed: done, Exhaustive: done == 1<<33})
		c.Ev.DistinctAdd(done)
	} else {
		// two stratified sweeps of 2^24: all low-segment values x 512 (high, mid) patterns and all
		// mid-segment values x 512 (high, low) patterns
		done = mc.ParFor(1<<9, c.OverBudget, func(i int64) {
			seg1, pat := uint64(i>>6), uint64(i&63)
			p15 := pat * 0x0208 // 6-bit pattern spread over 15 bits
			for x := uint64(0); x < 1<<15; x++ {
				tsCheck(seg1<<30 | (p15&0x7fff)<<15 | x)
				tsCheck(seg1<<30 | x<<15 | (p15 & 0x7fff))
			}
		}) << 16
		c.Ev.AddScenario(mc.Scenario{Name: "stratified 2^25 timestamp values (parse, write, Duration)", SpaceSize: 1 << 25, Executed: done, Exhaustive: done == 1<<25,
			Bound: "all 2^15 values of the low segment and of the middle segment, each x all 8 values of the top segment x 64 patterns of the remaining segment"})
		c.Ev.DistinctAdd(done)
	}
	// Duration: base alphabet x all 512 extensions
	for _, b := range ts33Alpha {
		for e := int64(0); e < 512; e++ {
			durCheck(c, int64(b), e)
		}
	}
	c.Ev.AddScenario(mc.Scenario{Name: "Duration(): base alphabet x all 512 extensions", SpaceSize: int64(len(ts33Alpha)) * 512, Executed: int64(len(ts33Alpha)) * 512, Exhaustive: true})
	c.Ev.Require("stream-id-without-optional-header", "payload-boundary", "leftover-behind-cleared-flag", "leftover-optional-header-on-headerless-id", "bounded-packet-cut-short")
}

func dataOf(d *astits.PESData) []byte {
	if d == nil {
		return nil
	}
	return d.Data
}

func durCheck(c *mc.Ctx, base, ext int64) {
	got := astits.ClockReference{Base: base, Extension: ext}.Duration()
	// small values: exact int arithmetic suffices and is fast
	a := base * 1e9 / 90000 // base < 2^33: base*1e9 < 2^63
	b := ext * 1e9 / 27000000
	sumTrunc := time.Duration(a + b)
	// truncated sum: floor((base*300+ext)*1e9/27e6) = floor((base*300+ext)*1000/27); base < 2^33 keeps it in int64
	t := (base*300 + ext) * 1000 / 27
	if got != sumTrunc && got != time.Duration(t) {
		c.Rep.Report("duration", map[string]any{"kind": "duration", "base": base, "extension": ext, "message": fmt.Sprintf("Duration() = %d ns, expected %d or %d", got, sumTrunc, t)})
	}
}

// diffFields names the model fields in which two headers differ (the locus of a decode error).
func diffFields(g, w *ref.PESHdr) string {
	var out []string
	gv, wv := reflect.ValueOf(*g), reflect.ValueOf(*w)
	for i := 0; i < gv.NumField(); i++ {
		name := gv.Type().Field(i).Name
		if name == "Ext" && g.Ext != nil && w.Ext != nil {
			ge, we := reflect.ValueOf(*g.Ext), reflect.ValueOf(*w.Ext)
			for j := 0; j < ge.NumField(); j++ {
				if !mc.SemEq(ge.Field(j).Interface(), we.Field(j).Interface()) {
					out = append(out, "Ext."+ge.Type().Field(j).Name)
				}
			}
			continue
		}
		if !mc.SemEq(gv.Field(i).Interface(), wv.Field(i).Interface()) {
			out = append(out, name)
		}
	}
	return strings.Join(out, ",")
}

// isF10ID: stream ids without optional header per ISO that the library treats as having one
// (driver-side fact for the known-finding classifier).
func isF10ID(id uint8) bool {
	switch id {
	case 0xbc, 0xf0, 0xf1, 0xf2, 0xf8, 0xff:
		return true
	}
	return false
}
