package checks

import (
	"bufio"
	"bytes"
	"context"
	"errors"
	"fmt"
	"io"
	"strings"

	astits "github.com/asticode/go-astits"
	"verif/mc"
	"verif/ref"
)

func init() { register("C08", checkC08) }

// enlarge converts a 188-byte-packet stream into the library's 188+k layout: sync byte, k extra
// bytes, then the remaining 187 bytes of the packet.
func enlarge(b []byte, k int) []byte {
	if k == 0 {
		return b
	}
	var o []byte
	for i := 0; i+188 <= len(b); i += 188 {
		o = append(o, 0x47)
		for j := 0; j < k; j++ {
			o = append(o, byte(0xa0+j))
		}
		o = append(o, b[i+1:i+188]...)
	}
	return o
}

// schedReader returns bytes according to a read schedule: either a fixed chunk size or
// environment choices (deviation-bounded exploration). Never seekable.
type schedReader struct {
	b     []byte
	off   int
	chunk int // > 0: at most chunk bytes per Read; < 0: a single chunk boundary at offset -chunk
	env   *mc.Env
	// eofWithData: the Read that hands over the last bytes returns io.EOF in the same call (n > 0 and io.EOF, as
	// io.Reader allows and testing/iotest.DataErrReader does)
	eofWithData bool
}

func (r *schedReader) Read(p []byte) (int, error) {
	if r.off >= len(r.b) {
		return 0, io.EOF
	}
	n := len(p)
	if n > len(r.b)-r.off {
		n = len(r.b) - r.off
	}
	if r.chunk > 0 && n > r.chunk {
		n = r.chunk
	}
	if r.chunk < 0 && r.off < -r.chunk && r.off+n > -r.chunk {
		n = -r.chunk - r.off
	}
	if r.env != nil && n > 1 {
		switch r.env.Choose(5) {
		case 1:
			n = 1
		case 2:
			if n > 2 {
				n = 2
			}
		case 3:
			n = (n + 1) / 2
		case 4:
			n = n - 1
		}
	}
	copy(p, r.b[r.off:r.off+n])
	r.off += n
	if r.eofWithData && r.off == len(r.b) {
		return n, io.EOF
	}
	return n, nil
}

type schedSeeker struct{ schedReader }

func (r *schedSeeker) Seek(off int64, whence int) (int64, error) {
	switch whence {
	case io.SeekStart:
	case io.SeekCurrent:
		off += int64(r.off)
	case io.SeekEnd:
		off += int64(len(r.b))
	default:
		return 0, errors.New("unsupported whence")
	}
	if off < 0 {
		return 0, errors.New("negative position")
	}
	r.off = int(off)
	return off, nil
}

type c08Cfg struct {
	Kind string // bytes bufio plain seek seekoff bytesoff section
	Auto bool
	K    int // packet size 188+k
}

func (c c08Cfg) String() string { return fmt.Sprintf("%s/auto=%v/size=%d", c.Kind, c.Auto, 188+c.K) }

func c08Reader(cfg c08Cfg, b []byte, chunk int, env *mc.Env) io.Reader {
	switch cfg.Kind {
	case "bytes":
		return bytes.NewReader(b)
	case "bufio":
		return bufio.NewReader(&schedReader{b: b, chunk: chunk, env: env})
	case "bufio16", "bufio64", "bufio192", "bufio193", "bufio200":
		// a bufio.Reader whose buffer is smaller than / just as large as / larger than the 193 bytes auto-detection peeks
		var n int
		fmt.Sscanf(cfg.Kind, "bufio%d", &n)
		return bufio.NewReaderSize(&schedReader{b: b, chunk: chunk, env: env}, n)
	case "seek":
		return &schedSeeker{schedReader{b: b, chunk: chunk, env: env}}
	case "plain+eof":
		return &schedReader{b: b, chunk: chunk, env: env, eofWithData: true}
	case "seek+eof":
		return &schedSeeker{schedReader{b: b, chunk: chunk, env: env, eofWithData: true}}
	case "bufio16+eof":
		return bufio.NewReaderSize(&schedReader{b: b, chunk: chunk, env: env, eofWithData: true}, 16)
	case "bytesoff", "section":
		// library reader types that also implement io.ReaderAt: a *bytes.Reader that was advanced past a
		// prefix, and an *io.SectionReader over the part of a larger input that holds the stream
		pre := bytes.Repeat([]byte{0xaa, 0x47, 0x00}, 67)
		all := append(append(pre, b...), 0x47, 0x00, 0x47)
		if cfg.Kind == "section" {
			return io.NewSectionReader(bytes.NewReader(all), int64(len(pre)), int64(len(b)))
		}
		r := bytes.NewReader(all[:len(pre)+len(b)])
		r.Seek(int64(len(pre)), io.SeekStart)
		return r
	case "seekoff":
		// a seekable reader that does not stand at offset 0 when the Demuxer gets it (the stream follows
		// 300 bytes of something else): the stream is what the reader delivers from where it stands
		pre := bytes.Repeat([]byte{0xaa, 0x47, 0x00}, 100)
		if chunk < 0 {
			chunk -= len(pre)
		}
		return &schedSeeker{schedReader{b: append(pre, b...), off: len(pre), chunk: chunk, env: env}}
	}
	return &schedReader{b: b, chunk: chunk, env: env}
}

// c08Observe returns the canonical packet sequence and data sequence (two fresh demuxers).
func c08Observe(cfg c08Cfg, b []byte, chunk int, envP, envD *mc.Env) (pk, da []string, problem string) {
	opts := func() []func(*astits.Demuxer) {
		if cfg.Auto {
			return nil
		}
		return []func(*astits.Demuxer){astits.DemuxerOptPacketSize(188 + cfg.K)}
	}
	d1 := astits.NewDemuxer(context.Background(), c08Reader(cfg, b, chunk, envP), opts()...)
	po := DrainPackets(d1, len(b))
	if po.Panic != nil {
		return nil, nil, fmt.Sprintf("panic in NextPacket: %v", po.Panic)
	}
	if !po.EOF {
		return nil, nil, fmt.Sprintf("NextPacket never reached ErrNoMorePackets (errors: %v)", firstN(errStrings(po.Errs), 2))
	}
	if len(po.Errs) > 0 {
		return nil, nil, fmt.Sprintf("NextPacket returned an error on a well-formed stream: %v", po.Errs[0])
	}
	for _, p := range po.Pkts {
		pk = append(pk, mc.Canon(p))
	}
	d2 := astits.NewDemuxer(context.Background(), c08Reader(cfg, b, chunk, envD), opts()...)
	do := DrainData(d2, len(b))
	if do.Panic != nil {
		return nil, nil, fmt.Sprintf("panic in NextData: %v", do.Panic)
	}
	if !do.EOF {
		return nil, nil, fmt.Sprintf("NextData never reached ErrNoMorePackets (errors: %v)", firstN(errStrings(do.Errs), 2))
	}
	if len(do.Errs) > 0 {
		return nil, nil, fmt.Sprintf("NextData returned an error on a well-formed stream: %v", do.Errs[0])
	}
	for _, x := range do.Data {
		da = append(da, mc.Canon(x))
	}
	return pk, da, ""
}

// c08Loose summarises what a configuration yields without requiring success: packet and data sequences
// and whether any call returned an error (the error text may name the reader-specific cause).
func c08Loose(cfg c08Cfg, b []byte, chunk int) string {
	var opts []func(*astits.Demuxer)
	if !cfg.Auto {
		opts = append(opts, astits.DemuxerOptPacketSize(188+cfg.K))
	}
	po := DrainPackets(astits.NewDemuxer(context.Background(), c08Reader(cfg, b, chunk, nil), opts...), len(b))
	do := DrainData(astits.NewDemuxer(context.Background(), c08Reader(cfg, b, chunk, nil), opts...), len(b))
	var sb strings.Builder
	fmt.Fprintf(&sb, "NextPacket: panic=%v eof=%v errors=%v packets=[", po.Panic != nil, po.EOF, len(po.Errs) > 0)
	for _, p := range po.Pkts {
		sb.WriteString(mc.Canon(p) + ";")
	}
	fmt.Fprintf(&sb, "] NextData: panic=%v eof=%v errors=%v data=[", do.Panic != nil, do.EOF, len(do.Errs) > 0)
	for _, x := range do.Data {
		sb.WriteString(mc.Canon(x) + ";")
	}
	return sb.String() + "]"
}

func firstN(s []string, n int) []string {
	if len(s) > n {
		return s[:n]
	}
	return s
}

func checkC08(c *mc.Ctx) {
	c.Ev.Level = "model_checking"
	c.Ev.Rule = "read schedules are enumerated: every fixed chunk size 1..400 and, with the deviation-bounded explorer, every Read call answering {1, 2, half, n-1} bytes instead of n for up to 2 deviations; x reader kind x explicit/auto x packet size 188+k; packet and data sequences of the real Demuxer compared with the baseline (bytes.Reader, explicit 188); distinct_nontrivial = distinct (configuration, schedule) runs"
	c.Ev.Assumptions = append(c.Ev.Assumptions,
		"larger packets use the library's documented layout: sync byte, k extra bytes, remaining 187 bytes; no 0x47 inside the FIRST packet at offsets 188..187+k (the heuristic takes the first sync byte at or after 188; 0x47 bytes after the second packet's sync byte are part of the domain)",
		"a plain non-seekable reader with auto-detection loses the two packets consumed by detection (documented); the expected output is that of the stream without them",
		"bufio.Reader with the default 4096-byte buffer")
	streams := append(StandardStreams(c.Seed), TinyPayloadStream(c.Seed), SyncLookalikeStream(c.Seed))
	// the shortest streams: a single packet, two packets (explicit packet size only: a size cannot be
	// detected from fewer than 193 bytes, and detection needs two packets to be lost on plain readers)
	one := EncodePkts(Packetize(PSIUnit(0, 0, [][]byte{SecPAT(modelPAT(1, 0x1000), ref.SecHdr{CNI: true})}, nil), nil, new(uint8), true))
	two := append(append([]byte{}, one...), EncodePkts(Packetize(PESUnit(0x100, 0xe0, pesPayload(81, 100, c.Seed), 1, false), nil, new(uint8), false))...)
	streams = append(streams, &Stream{Name: "single-packet", Bytes: one}, &Stream{Name: "two-packets", Bytes: two}, PayloadLengthSweepStream(c.Seed))
	// packets without a payload (adaptation field only: a clock reference and stuffing, every variable-length part):
	// how much of a packet is adaptation field does not depend on the size of the packet on the wire either
	for _, st := range c19StreamsT(c.Seed, false) {
		if st.Name == "af-variety" {
			streams = append(streams, st)
		}
	}
	var cfgs []c08Cfg
	for _, kind := range []string{"bytes", "bufio", "plain", "seek", "seekoff", "bytesoff", "section", "bufio16", "bufio64", "bufio192", "bufio193", "bufio200", "plain+eof", "seek+eof", "bufio16+eof"} {
		for _, k := range []int{0, 1, 2, 3, 4, 16} {
			if (len(kind) > 5 && kind[:5] == "bufio" || strings.HasSuffix(kind, "+eof")) && k != 0 && k != 4 {
				continue
			}
			cfgs = append(cfgs, c08Cfg{kind, false, k})
			if k <= 4 {
				cfgs = append(cfgs, c08Cfg{kind, true, k})
			}
		}
	}
	// the stream with a packet of every payload length: more packet sizes, fewer read schedules
	var cfgsSweep []c08Cfg
	for _, kind := range []string{"bytes", "bufio", "plain", "seek", "section"} {
		for _, k := range []int{0, 1, 2, 3, 4, 8, 12, 16, 20} {
			cfgsSweep = append(cfgsSweep, c08Cfg{kind, false, k})
			if k <= 4 {
				cfgsSweep = append(cfgsSweep, c08Cfg{kind, true, k})
			}
		}
	}
	for _, st := range streams {
		sweep := st.Name == "payload-length-sweep"
		cfgs := cfgs
		if sweep {
			cfgs = cfgsSweep
		}
		basePk, baseDa, prob := c08Observe(c08Cfg{"bytes", false, 0}, st.Bytes, 0, nil, nil)
		if prob != "" {
			c.Rep.Report("baseline-broken", map[string]any{"kind": "stream", "bytes": mc.Hex(st.Bytes), "message": prob})
			continue
		}
		// expected for plain+auto: the stream without its first two packets
		var lossPk, lossDa []string
		if len(st.Bytes) >= 2*188 {
			lossPk, lossDa, _ = c08Observe(c08Cfg{"bytes", false, 0}, st.Bytes[2*188:], 0, nil, nil)
		}
		expect := func(cfg c08Cfg) ([]string, []string) {
			if cfg.Auto && (cfg.Kind == "plain" || cfg.Kind == "plain+eof") {
				return lossPk, lossDa
			}
			return basePk, baseDa
		}
		verdict := func(cfg c08Cfg, sched string, pk, da []string, prob string, b []byte) {
			ePk, eDa := expect(cfg)
			det := map[string]any{"kind": "stream", "stream": st.Name, "cfg": cfg.String(), "schedule": sched, "bytes": mc.Hex(b)}
			site := fmt.Sprintf("%s/auto=%v", cfg.Kind, cfg.Auto)
			// auto-detection peeks 193 bytes: a bufio.Reader with a smaller buffer cannot provide them and the library says
			// so (an error, nothing delivered). A loud refusal loses nothing silently; anything delivered without an error
			// has to be the whole stream
			smallBufio := cfg.Auto && (cfg.Kind == "bufio16" || cfg.Kind == "bufio64" || cfg.Kind == "bufio192" || cfg.Kind == "bufio16+eof")
			if smallBufio {
				c.Ev.Class("small-bufio-auto", 1)
			}
			switch {
			case prob != "" && smallBufio:
			case prob != "":
				det["message"] = prob
				c.Rep.Report("read-schedule-breaks-demuxer:"+site, det)
			case !equalStrs(pk, ePk):
				det["message"] = fmt.Sprintf("%d packets returned, %d expected (or contents differ)", len(pk), len(ePk))
				c.Rep.Report("packets-depend-on-reading:"+site, det)
			case !equalStrs(da, eDa):
				det["message"] = fmt.Sprintf("%d data returned, %d expected (or contents differ)", len(da), len(eDa))
				c.Rep.Report("data-depend-on-reading:"+site, det)
			}
		}
		// fixed chunk sizes
		type job struct {
			cfg   c08Cfg
			chunk int
		}
		var jobs []job
		for _, cfg := range cfgs {
			if cfg.Auto && len(st.Bytes) < 2*188 {
				continue
			}
			if cfg.Kind == "bytes" || cfg.Kind == "bytesoff" || cfg.Kind == "section" {
				jobs = append(jobs, job{cfg, 0})
				continue
			}
			if sweep {
				for _, ch := range []int{1, 94, 188 + cfg.K, 400, 4096} {
					jobs = append(jobs, job{cfg, ch})
				}
				continue
			}
			for ch := 1; ch <= 400; ch++ {
				jobs = append(jobs, job{cfg, ch}, job{cfg, -ch})
			}
		}
		total := int64(len(jobs))
		done := mc.ParFor(total, c.OverBudget, func(i int64) {
			j := jobs[i]
			b := enlarge(st.Bytes, j.cfg.K)
			pk, da, prob := c08Observe(j.cfg, b, j.chunk, nil, nil)
			verdict(j.cfg, fmt.Sprintf("chunk=%d", j.chunk), pk, da, prob, b)
			c.Ev.Distinct(fmt.Sprintf("%s|%s|%d", st.Name, j.cfg, j.chunk))
			if j.chunk == 1 {
				c.Ev.Class("one-byte-reads", 1)
			}
			if j.cfg.Auto {
				c.Ev.Class("auto-detect", 1)
			}
			if j.cfg.K > 0 {
				c.Ev.Class("larger-packets", 1)
			}
		})
		c.Ev.AddScenario(mc.Scenario{Name: "fixed-chunks:" + st.Name, SpaceSize: total, Executed: done, Exhaustive: done == total,
			Bound: "every chunk size 1..400 and a single chunk boundary at every offset 1..400 x {bufio, plain, seekable, seekable standing at a non-zero offset} x {explicit, auto} x packet size 188+k, k in {0,1,2,3,4,16} (auto: k<=4); bytes.Reader once per configuration"})
		// a stream too short for auto-detection (one packet): whether the library refuses it or copes with it,
		// the outcome (packets, data, error or not) is the same for every reader kind and read schedule
		if len(st.Bytes) < 2*188 {
			var n int64
			for _, k := range []int{0, 1, 2, 3, 4} {
				b := enlarge(st.Bytes, k)
				want := c08Loose(c08Cfg{"bytes", true, k}, b, 0)
				for _, kind := range []string{"bufio", "seek", "seekoff", "bytesoff", "section"} {
					cfg := c08Cfg{kind, true, k}
					chunks := []int{0}
					if kind == "bufio" || kind == "seek" || kind == "seekoff" {
						chunks = []int{1, 2, 3, 47, 187, 188, 189, 192, 193, 194, 400, -1, -188, -189}
					}
					for _, ch := range chunks {
						n++
						c.Ev.Distinct(fmt.Sprintf("%s|%s|short-auto|%d", st.Name, cfg, ch))
						if got := c08Loose(cfg, b, ch); got != want {
							c.Rep.Report("short-stream-auto-depends-on-reader:"+kind, map[string]any{"kind": "stream", "stream": st.Name, "cfg": cfg.String(), "schedule": fmt.Sprintf("chunk=%d", ch), "bytes": mc.Hex(b),
								"message": fmt.Sprintf("auto-detection on a one-packet stream: %s gives\n  %s\nbytes.Reader gives\n  %s", kind, got, want)})
						}
					}
				}
			}
			c.Ev.Class("short-stream-auto", n)
			c.Ev.AddScenario(mc.Scenario{Name: "short-stream-auto:" + st.Name, SpaceSize: n, Executed: n, Exhaustive: true,
				Bound: "one-packet stream x auto-detection x packet size 188..192 x {bufio, seekable, seekable at an offset, advanced bytes.Reader, SectionReader} x chunkings: same packets, data and error/no-error as on a bytes.Reader"})
		}
		if sweep {
			c.Ev.Class("every-payload-length", int64(len(jobs)))
			continue
		}
		// deviation-bounded short reads
		bound := 2
		if c.Thorough() {
			bound = 3
		}
		for _, cfg := range cfgs {
			if cfg.Kind == "bytes" || cfg.Kind == "bytesoff" || cfg.Kind == "section" || (cfg.K != 0 && cfg.K != 4) || (cfg.Auto && len(st.Bytes) < 2*188) {
				continue
			}
			if cfg.K == 4 && !c.Thorough() && cfg.Kind != "plain" {
				continue
			}
			b := enlarge(st.Bytes, cfg.K)
			cfg := cfg
			// packets and data are explored separately (each has its own Read sequence)
			execs, points, complete := mc.Explore(bound, c.OverBudget, func(env *mc.Env) {
				pk, da, prob := c08Observe(cfg, b, 0, env, nil)
				verdict(cfg, fmt.Sprintf("NextPacket short reads %v", env.Choices), pk, da, prob, b)
				if env.Deviations() > 0 {
					c.Ev.Class("short-read-deviation", 1)
				}
			})
			execs2, points2, complete2 := mc.Explore(bound, c.OverBudget, func(env *mc.Env) {
				pk, da, prob := c08Observe(cfg, b, 0, nil, env)
				verdict(cfg, fmt.Sprintf("NextData short reads %v", env.Choices), pk, da, prob, b)
			})
			c.Ev.AddScenario(mc.Scenario{Name: fmt.Sprintf("short-reads:%s:%s", st.Name, cfg), Executed: execs + execs2, Exhaustive: complete && complete2,
				Bound: fmt.Sprintf("every Read may answer 1, 2, half or n-1 bytes; all executions with <= %d deviations (%d choice points seen)", bound, points+points2)})
			c.Ev.DistinctAdd(execs + execs2)
		}
		c.Ev.Sample(map[string]any{"stream": st.Name, "packets": len(st.Pkts), "configurations": len(cfgs)})
	}
	c.Ev.Require("one-byte-reads", "auto-detect", "larger-packets", "short-read-deviation", "short-stream-auto", "small-bufio-auto", "every-payload-length")
}
