//go:build verif

package checks

// HooksOn reports whether the binary was built with -tags verif.
const HooksOn = true
