package checks

import (
	"bytes"
	"fmt"
	"reflect"
	"strings"

	astits "github.com/asticode/go-astits"
	"verif/mc"
	"verif/ref"
)

func init() {
	register("C01", checkC01)
	Replayers["mux-roundtrip"] = func(d map[string]any) error {
		var ops []MOp
		if err := reJSON(d["ops"], &ops); err != nil {
			return err
		}
		period := int(d["period"].(float64))
		vs := roundTrip(period, ops, 0)
		for _, v := range vs {
			fmt.Printf("  [%s] %s\n", v.Sig, v.Msg)
		}
		if len(vs) > 0 {
			return fmt.Errorf("%s", vs[0].Msg)
		}
		return nil
	}
}

// hdrShape decodes a structural PES optional-header shape index (3*2^4*17 = 816 shapes).
const nHdrShapes = 3 * 16 * 17

func hdrShape(n int, idx int) *astits.PESOptionalHeader {
	o := &astits.PESOptionalHeader{MarkerBits: 2}
	switch n % 3 {
	case 1:
		o.PTSDTSIndicator = astits.PTSDTSIndicatorOnlyPTS
		o.PTS = cr(0x1_0000_0000|int64(idx), 0)
	case 2:
		o.PTSDTSIndicator = astits.PTSDTSIndicatorBothPresent
		o.PTS = cr(0x0_ffff_ffff, 0)
		o.DTS = cr(0x1_5555_5555, 0)
	}
	n /= 3
	o.HasESCR = n&1 != 0
	o.HasESRate = n&2 != 0
	o.HasDSMTrickMode = n&4 != 0
	o.HasAdditionalCopyInfo = n&8 != 0
	n >>= 4
	if o.HasESCR {
		o.ESCR = cr(0x1_2345_6789, 0x1ab)
	}
	if o.HasESRate {
		o.ESRate = 0x3fffff
	}
	if o.HasDSMTrickMode {
		o.DSMTrickMode = &astits.DSMTrickMode{TrickModeControl: astits.TrickModeControlFastReverse, FieldID: 2, IntraSliceRefresh: 1, FrequencyTruncation: 1}
	}
	if o.HasAdditionalCopyInfo {
		o.AdditionalCopyInfo = 0x7f
	}
	if n > 0 {
		e := n - 1
		o.HasExtension = true
		o.HasPrivateData = e&1 != 0
		o.HasProgramPacketSequenceCounter = e&2 != 0
		o.HasPSTDBuffer = e&4 != 0
		o.HasExtension2 = e&8 != 0
		if o.HasPrivateData {
			o.PrivateData = payloadFor(idx+77, 16, 5)
		}
		if o.HasProgramPacketSequenceCounter {
			o.PacketSequenceCounter, o.MPEG1OrMPEG2ID, o.OriginalStuffingLength = 0x7f, 0, 0x3f
		}
		if o.HasPSTDBuffer {
			o.PSTDBufferScale, o.PSTDBufferSize = 0, 0x1fff
		}
		if o.HasExtension2 {
			o.Extension2Data = []byte{0x11}
			o.Extension2Length = 1
		}
	}
	return o
}

// semAF reduces an adaptation field to what C01 compares: the fields a caller wrote.
func semAF(a *astits.PacketAdaptationField) *ref.AF {
	r := toRefAF(a)
	if r == nil {
		return &ref.AF{}
	}
	r.Stuffing, r.Len, r.Zero = 0, 0, false
	if r.Ext != nil {
		r.Ext.Len = 0
	}
	if len(r.Private) == 0 {
		r.Private = nil
	}
	return r
}

func normPES(h *ref.PESHdr) *ref.PESHdr {
	if h.Ext != nil {
		if len(h.Ext.Ext2) == 0 {
			h.Ext.Ext2 = nil
		}
		if len(h.Ext.Private) == 0 {
			h.Ext.Private = nil
		}
	}
	return h
}

type tableSnap struct {
	Streams []mStream
	PCR     uint16
}

// roundTrip runs a history on a fresh Muxer (tagged payloads), demuxes the produced bytes
// with the real Demuxer and compares with what the history says was written.
func roundTrip(period int, ops []MOp, seed int64) (vs []Viol) {
	h := NewMuxH(period)
	h.Tag = true
	mon := NewMuxMon(period)
	var snaps []tableSnap
	type exp struct {
		call *MCall
		idx  int
	}
	expPES := map[uint16][]exp{}
	for i, op := range ops {
		c := h.Do(op, seed)
		nEm := 0
		// table emissions of this call, as seen by the reference decoder
		if c.Err == nil && (op.K == "data" || op.K == "tables") {
			raw, _ := ref.SplitPackets(h.W.Buf[c.From:c.To])
			for _, b := range raw {
				if p, err := ref.DecodePkt(b); err == nil && p.PID == 0x1000 {
					nEm++
				}
			}
		}
		mon.Step(h, i) // advances the model; its own verdicts belong to C04/C05/C17
		if nEm > 0 {
			// the PMT describes the configuration current at the time of the call
			for k := 0; k < nEm; k++ {
				snaps = append(snaps, tableSnap{append([]mStream{}, mon.Streams...), mon.PCR})
			}
		}
		if op.K == "data" && c.Err == nil && len(c.Payload) > 0 {
			expPES[c.PID] = append(expPES[c.PID], exp{nil, i})
		}
	}
	for pid := range expPES {
		for j := range expPES[pid] {
			expPES[pid][j].call = &h.Calls[expPES[pid][j].idx] // h.Calls no longer grows
		}
	}
	add := func(sig, f string, a ...any) { vs = append(vs, Viol{"C01", sig, fmt.Sprintf(f, a...)}) }
	out := DemuxBytes(h.W.Buf)
	if out.Panic != nil {
		add("demux-panic", "demuxer panicked on muxer output: %v", out.Panic)
		return
	}
	if !out.EOF {
		add("demux-no-eof", "demuxer did not reach ErrNoMorePackets")
	}
	for _, e := range out.Errs {
		add("demux-error", "demuxer reported an error on muxer output: %v", e)
	}
	got := byPID(out.Data)
	// PES per PID
	for pid, es := range expPES {
		ds := got[pid]
		delete(got, pid)
		next := 0 // next expected index that may still be matched (order)
		matched := make([]bool, len(es))
		for _, d := range ds {
			if d.PES == nil {
				add("non-pes-on-es-pid", "PID %#x delivered a %s", pid, dataKind(d))
				continue
			}
			k := -1
			for j := range es {
				if bytes.Equal(es[j].call.Payload, d.PES.Data) {
					k = j
					break
				}
			}
			if k < 0 {
				// find the nearest expected unit to describe the alteration
				add("pes-altered", "PID %#x delivered a PES (%d bytes) that matches no written payload", pid, len(d.PES.Data))
				continue
			}
			if matched[k] {
				add("pes-duplicated", "PID %#x: PES of call %d delivered twice", pid, es[k].idx)
				continue
			}
			if k < next {
				add("pes-reordered", "PID %#x: PES of call %d delivered after a later one", pid, es[k].idx)
			}
			matched[k] = true
			next = k + 1
			c := es[k].call
			// stream id
			wantSID := c.Op.SID
			if wantSID == 0 {
				wantSID = streamIDFor(h, es[k].idx, c.PID)
			}
			if d.PES.Header.StreamID != wantSID {
				add("pes-stream-id", "call %d: stream id %#x, want %#x", es[k].idx, d.PES.Header.StreamID, wantSID)
			}
			wh := c.Hdr
			if (wantSID == astits.StreamIDPaddingStream || wantSID == astits.StreamIDPrivateStream2) && wh != nil {
				// padding_stream and private_stream_2 packets have no optional header (ISO 13818-1 table 2-21; the two ids the
				// library treats that way - the others of the table are finding F10): the one in the struct is not carried
				wh = &astits.PESHeader{StreamID: wantSID}
			}
			w := normPES(toRefPES(wh, wantSID))
			g := normPES(toRefPES(d.PES.Header, d.PES.Header.StreamID))
			if !reflect.DeepEqual(w, g) {
				add("pes-header", "call %d %s: PES header fields differ\n got  %s\n want %s", es[k].idx, c.Op, mc.Canon(g), mc.Canon(w))
			}
			wa, ga := semAF(c.AF), semAF(nil)
			if d.FirstPacket != nil && d.FirstPacket.Header.HasAdaptationField {
				ga = semAF(d.FirstPacket.AdaptationField)
			}
			if !reflect.DeepEqual(wa, ga) {
				sig := "first-packet-af"
				if afLeavesNoRoom(c) {
					sig = "af-no-room-dropped"
				}
				add(sig, "call %d %s: first-packet adaptation field differs\n got  %s\n want %s", es[k].idx, c.Op, mc.Canon(ga), mc.Canon(wa))
			}
			if d.FirstPacket == nil || d.FirstPacket.Header.PID != pid {
				add("first-packet", "call %d: FirstPacket missing or wrong PID", es[k].idx)
			}
		}
		for j, ok := range matched {
			if !ok {
				sig := "pes-lost"
				// K2 classifier: the unit immediately before a WriteData whose AF left no room
				if j+1 < len(es) && afLeavesNoRoom(es[j+1].call) {
					sig = "pes-lost-before-af-no-room"
				}
				add(sig, "PID %#x: PES of call %d (%s) was not delivered", pid, es[j].idx, es[j].call.Op)
			}
		}
	}
	// tables
	pats, pmts := got[0], got[0x1000]
	delete(got, 0)
	delete(got, 0x1000)
	if len(pats) != len(snaps) {
		add("pat-count", "%d PATs delivered, %d emitted", len(pats), len(snaps))
	}
	if len(pmts) != len(snaps) {
		add("pmt-count", "%d PMTs delivered, %d emitted", len(pmts), len(snaps))
	}
	for _, d := range pats {
		if d.PAT == nil || len(d.PAT.Programs) != 1 || d.PAT.Programs[0].ProgramNumber != 1 || d.PAT.Programs[0].ProgramMapID != 0x1000 {
			add("pat-content", "PAT does not describe program 1 -> 0x1000: %s", mc.Canon(d.PAT))
		}
	}
	for k, d := range pmts {
		if k >= len(snaps) {
			break
		}
		if d.PMT == nil {
			add("pmt-content", "PMT PID delivered a %s", dataKind(d))
			continue
		}
		s := snaps[k]
		ok := d.PMT.PCRPID == s.PCR && d.PMT.ProgramNumber == 1 && len(d.PMT.ElementaryStreams) == len(s.Streams)
		if ok {
			for j, es := range d.PMT.ElementaryStreams {
				want := esDescs(s.Streams[j].Desc)
				if es.ElementaryPID != s.Streams[j].PID || uint8(es.StreamType) != s.Streams[j].ST || len(es.ElementaryStreamDescriptors) != len(want) {
					ok = false
					continue
				}
				for q := range want {
					if !mc.SemEq(want[q], es.ElementaryStreamDescriptors[q]) { // nil and empty byte slices are the same value
						ok = false
					}
				}
			}
		}
		if !ok {
			add("pmt-content", "PMT %d does not describe the configured streams: got %s want %v pcr=%#x", k, mc.Canon(d.PMT), s.Streams, s.PCR)
		}
	}
	for pid, ds := range got {
		// PIDs written only through WritePacket (null / caller PIDs) carry no units
		add("unexpected-pid-data", "PID %#x delivered %d data nobody wrote", pid, len(ds))
	}
	return vs
}

// streamIDFor derives the expected stream id from the stream type the PID was added with
// (the mapping itself is the library's documented convention; C01 demands that what comes
// back equals what went out, and what went out for StreamID 0 is this mapping).
func streamIDFor(h *MuxH, idx int, pid uint16) uint8 {
	var st astits.StreamType
	for i := 0; i < idx; i++ {
		p := &h.Calls[i]
		if p.Op.K == "add" && p.Err == nil && p.PID == pid {
			st = astits.StreamType(p.Op.ST)
		}
	}
	return st.ToPESStreamID()
}

func checkC01(c *mc.Ctx) {
	c.Ev.Level = "model_checking"
	c.Ev.Rule = "every Muxer history of the scenario (no state merging: the delivered sequence is a function of the whole byte stream) is executed on the real Muxer with tagged payloads, its output demuxed by the real Demuxer and compared per PID with what the history wrote; plus an exhaustive shape sweep of single WriteData calls (every payload length in the windows x header shape x adaptation field); distinct_nontrivial = distinct (operation-kind sequence / shape) classes with at least one delivered PES"
	c.Ev.Assumptions = append(c.Ev.Assumptions,
		"payload bytes of the histories never 0x00/0x01/0x47 (tagged, distinguishable units); the shape sweep also writes payloads made of PES start-code look-alikes (00 00 01 e0 ...) and 0x47 at every phase relative to the packet boundaries, payloads with 0xFF at both ends, and payloads of only 0xFF / 0x00 / 0x47",
		"PES headers carry a non-nil OptionalHeader (stream ids with optional header); HasCRC / pack header are not writable and not requested",
		"demuxer configured with the explicit packet size 188 on a bytes.Reader (framing/reader independence is C08)")
	// (i) histories without merging
	depth := 3
	if c.Thorough() {
		depth = 4
	}
	type scen struct {
		name   string
		period int
		setup  []MOp
		alpha  []MOp
		depth  int
	}
	rtAlpha := []MOp{opAddB, opAddC, opAddD, opAddAuto, opRmA, opRmB, opPcrA, opPcrB, opPcrX, opTables,
		opDataA1, opDataAfit, opDataAs1, opDataAs2, opDataA3, opDataA17, opDataARAI, opDataAprv, opDataAltw, opDataAnor,
		opDataB1, opDataBRAI, opDataAuto, opDataX, opPktNull, opAddMany, opRmMany}
	scens := []scen{
		{"rt-empty", 2, nil, append([]MOp{opAddA}, rtAlpha...), depth},
		{"rt-A-p1", 1, setupA, rtAlpha, depth},
		{"rt-A-p2", 2, setupA, rtAlpha, depth},
		{"rt-AB-p40", 40, setupAB, rtAlpha, depth},
		{"rt-ABT-p3", 3, setupABT, rtAlpha, depth},
	}
	// many PIDs removed and pending before a PID is removed and added again
	scens = append(scens, scen{"rt-many-removed", 40, []MOp{opAddA, opPcrA, opDataA1, opAddMany, opRmMany}, []MOp{opRmA, opAddA, opAddAuto, opDataA1, opDataAs1, opDataAuto, opTables}, depth + 1})
	// deeper histories over the core operations (configuration changes between writes)
	coreAlpha := []MOp{opAddB, opAddAuto, opRmA, opRmB, opPcrB, opTables, opDataA1, opDataAs1, opDataARAI, opDataB1, opDataAuto}
	scens = append(scens,
		scen{"rt-core-A-p2", 2, setupA, coreAlpha, depth + 2},
		scen{"rt-core-AB-p3", 3, setupAB, coreAlpha, depth + 2})
	// a stream removed and added again, several times over, with and without writes in between: the receiver is
	// still assembling the PID's last unit from before the removal
	scens = append(scens, scen{"rt-readd-cycles-p40", 40, []MOp{opAddA, opAddB, opPcrB, opDataA1}, []MOp{opRmA, opAddA, opDataA1, opDataB1}, depth + 5})
	for _, sc := range scens {
		rad := mc.Radix{}
		total := int64(0)
		for d := 1; d <= sc.depth; d++ {
			n := int64(1)
			for k := 0; k < d; k++ {
				n *= int64(len(sc.alpha))
			}
			total += n
		}
		_ = rad
		var done int64
		for d := 1; d <= sc.depth; d++ {
			r := make(mc.Radix, d)
			for k := range r {
				r[k] = len(sc.alpha)
			}
			done += mc.ParFor(r.Size(), c.OverBudget, func(i int64) {
				dg := r.Digits(i, make([]int, 0, d))
				ops := append([]MOp{}, sc.setup...)
				var kinds []string
				for _, x := range dg {
					ops = append(ops, sc.alpha[x])
					kinds = append(kinds, sc.alpha[x].String())
				}
				vs := roundTrip(sc.period, ops, c.Seed)
				for _, v := range vs {
					c.Rep.Report(v.Sig, map[string]any{"kind": "mux-roundtrip", "scenario": sc.name, "period": sc.period, "ops": ops, "message": v.Msg})
				}
				nd := 0
				for _, o := range ops {
					if o.K == "data" {
						nd++
					}
				}
				if nd > 0 {
					c.Ev.Distinct(sc.name + strings.Join(kinds, ","))
				}
				if nd >= 2 {
					c.Ev.Class("history-with-2-or-more-pes", 1)
				}
				if i == 7 && d == 2 {
					c.Ev.Sample(map[string]any{"scenario": sc.name, "ops": fmt.Sprint(ops)})
				}
			})
		}
		c.Ev.AddScenario(mc.Scenario{Name: sc.name, SpaceSize: total, Executed: done, Exhaustive: done == total,
			Bound: fmt.Sprintf("all histories of length 1..%d over %d operations after the set-up, no state merging", sc.depth, len(sc.alpha))})
	}
	// (ii) shape sweep of a single WriteData followed by one small unit on the same PID
	sweepC01(c)
	c.Ev.Require("history-with-2-or-more-pes", "payload-over-65535", "exact-fit", "one-byte-stuffing", "af-room-exactly-header", "start-code-lookalike-payload", "every-stream-type", "every-stream-id", "pid-silent-for-thousands-of-packets")
}

type shape struct {
	PID  uint16
	Len  int
	Hdr  string
	AF   string
	Host int
}

func sweepC01(c *mc.Ctx) {
	var shapes []shape
	pids := []uint16{0x100, 0x101}
	for _, pid := range pids {
		for l := 1; l <= 760; l++ {
			for _, hd := range []string{"pts", "ptsdts", "none", "full"} {
				for _, af := range []string{"", "rai", "raipcr", "priv10", "ext", "splice", "extpw", "extss", "extss0", "extltw"} { // "rai": flags only, an adaptation field of exactly one byte when nothing has to be stuffed
					shapes = append(shapes, shape{pid, l, hd, af, 0})
				}
			}
			if l <= 400 {
				shapes = append(shapes, shape{pid, l, "ptseqdts", "", 0}, shape{pid, l, "ptseqdts", "raipcr", 0})
			}
		}
		// payloads made of PES start-code look-alikes, at every phase relative to the packet boundaries
		for l := 1; l <= 760; l++ {
			for ph := 1; ph <= 13; ph++ {
				shapes = append(shapes, shape{pid, l, "pts", "", ph})
				if l%4 == 0 {
					shapes = append(shapes, shape{pid, l, "none", "raipcr", ph})
				}
			}
		}
		step := 1
		if !c.Thorough() {
			step = 7
		}
		for l := 65300; l <= 65700; l += step {
			for _, hd := range []string{"pts", "full"} {
				shapes = append(shapes, shape{pid, l, hd, "", 0})
			}
		}
		for _, l := range []int{65513, 65514, 65515, 65516, 65517, 65518, 65519, 65520, 65521, 65522, 65527, 65528, 65529, 65535, 65536} {
			for _, hd := range []string{"pts", "ptsdts", "none"} {
				shapes = append(shapes, shape{pid, l, hd, "raipcr", 0})
			}
		}
		for l := 131000; l <= 131100; l += step {
			shapes = append(shapes, shape{pid, l, "pts", "", 0})
		}
		// structural header shapes around the packet boundary
		lens := []int{1, 2}
		for l := 120; l <= 190; l += map[bool]int{true: 1, false: 3}[c.Thorough()] {
			lens = append(lens, l)
		}
		for n := 0; n < nHdrShapes; n++ {
			for _, l := range lens {
				shapes = append(shapes, shape{pid, l, fmt.Sprintf("s%d", n), "", 0})
			}
		}
		// adaptation fields sized to leave room = header+2, +1, +0, -1 and 0 bytes
		for _, hd := range []string{"pts", "none", "full"} {
			hl := 6 + len(toRefPES(MakeHdr(hd, 0, 0), 0xe0).OptHeader())
			for _, room := range []int{hl + 2, hl + 1, hl, hl - 1, 1, 0} {
				n := 184 - 3 - room // AF = length byte + flags + private length byte + n bytes
				if n < 0 {
					continue
				}
				for _, l := range []int{1, 2, 10, 200} {
					shapes = append(shapes, shape{pid, l, hd, fmt.Sprintf("priv%d", n), 0})
				}
			}
		}
	}
	setup := setupAB
	n := int64(len(shapes))
	done := mc.ParFor(n, c.OverBudget, func(i int64) {
		s := shapes[i]
		ops := append(append([]MOp{}, setup...), MOp{K: "data", PID: s.PID, Len: s.Len, Hdr: s.Hdr, AF: s.AF, Host: s.Host}, MOp{K: "data", PID: s.PID, Len: 5})
		vs := roundTrip(40, ops, c.Seed)
		for _, v := range vs {
			c.Rep.Report(v.Sig, map[string]any{"kind": "mux-roundtrip", "scenario": "shape-sweep", "period": 40, "ops": ops, "message": v.Msg})
		}
		// driver-side classes
		hl := 6 + len(toRefPES(MakeHdr(s.Hdr, 0, 0), 0xe0).OptHeader())
		afl := 0
		if a := MakeAF(s.AF, 0); a != nil {
			afl = toRefAF(a).Size()
		}
		if s.Len > 65535 {
			c.Ev.Class("payload-over-65535", 1)
		}
		free := 184 - afl - hl
		if free > 0 && (s.Len-free)%184 == 0 && s.Len >= free {
			c.Ev.Class("exact-fit", 1)
		}
		if free > 0 && s.Len >= free && (s.Len-free)%184 == 183 {
			c.Ev.Class("one-byte-stuffing", 1)
		}
		if afl > 0 && free == 0 {
			c.Ev.Class("af-room-exactly-header", 1)
		}
		if s.Host > 0 {
			c.Ev.Class("start-code-lookalike-payload", 1)
		}
		c.Ev.Distinct(fmt.Sprintf("shape|%x|%s|%s|%d|%d", s.PID, s.Hdr, s.AF, s.Len, s.Host))
		if i%50021 == 0 {
			c.Ev.Sample(map[string]any{"scenario": "shape-sweep", "shape": s})
		}
	})
	// every stream_type value: what a stream is declared to carry in the PMT does not change how its PES packets
	// travel (the Muxer writes PES on every stream; the default stream id follows the documented mapping)
	nt := int64(256)
	donet := mc.ParFor(nt, c.OverBudget, func(i int64) {
		ops := []MOp{{K: "add", PID: 0x100, ST: uint8(i)}, {K: "add", PID: 0x101, ST: uint8(255 - i), Desc: "sid"}, opPcrA,
			{K: "data", PID: 0x100, Len: 10}, {K: "data", PID: 0x101, Len: 300, Hdr: "ptsdts"}, {K: "data", PID: 0x100, Len: 200, AF: "raipcr"}, opTables, {K: "data", PID: 0x101, Len: 5}}
		for _, v := range roundTrip(3, ops, c.Seed) {
			c.Rep.Report(v.Sig, map[string]any{"kind": "mux-roundtrip", "scenario": "stream-types", "period": 3, "ops": ops, "message": v.Msg})
		}
		c.Ev.Distinct(fmt.Sprintf("stream-type|%d", i))
	})
	// every stream_id value a PES packet may carry (0xbc..0xff), given explicitly: ids whose packets have no optional
	// header (program_stream_map, padding_stream, private_stream_2, ECM, EMM, DSMCC, H.222.1 type E, directory) travel
	// and come back like the others - one PES per WriteData call, the payload as given
	ns := int64(0x100 - 0xbc)
	dones := mc.ParFor(ns, c.OverBudget, func(i int64) {
		sid := uint8(0xbc + i)
		ops := []MOp{opAddA, opAddB, opPcrA,
			{K: "data", PID: 0x100, Len: 10, SID: sid}, {K: "data", PID: 0x101, Len: 300, SID: sid}, {K: "data", PID: 0x100, Len: 200, SID: sid, AF: "raipcr"}, opTables,
			{K: "data", PID: 0x101, Len: 5, SID: sid}, {K: "data", PID: 0x100, Len: 1, SID: sid}}
		for _, v := range roundTrip(3, ops, c.Seed) {
			c.Rep.Report(v.Sig, map[string]any{"kind": "mux-roundtrip", "scenario": "stream-ids", "period": 3, "ops": ops, "message": v.Msg})
		}
		c.Ev.Distinct(fmt.Sprintf("stream-id|%d", sid))
	})
	c.Ev.Class("every-stream-id", dones)
	c.Ev.AddScenario(mc.Scenario{Name: "stream-ids", SpaceSize: ns, Executed: dones, Exhaustive: dones == ns,
		Bound: "every explicit stream_id 0xbc..0xff: two streams, five units (1..300 bytes, with and without adaptation field), tables in between"})
	// long silences: a unit on one PID, then hundreds to thousands of packets of another PID before the first PID is
	// heard of again (or the stream ends) - a PID that is quiet is not a PID that is gone
	gaps := []int{1, 2, 3, 6, 7, 12, 13, 24, 45}
	doneg := mc.ParFor(int64(len(gaps)*2), c.OverBudget, func(i int64) {
		k, tail := gaps[i/2], i%2 == 1
		ops := []MOp{opAddA, opAddB, opPcrB, {K: "data", PID: 0x100, Len: 500}}
		for j := 0; j < k; j++ {
			ops = append(ops, MOp{K: "data", PID: 0x101, Len: 70000 - 1000*(j%3)})
		}
		if tail {
			ops = append(ops, MOp{K: "data", PID: 0x100, Len: 300}, MOp{K: "data", PID: 0x101, Len: 10})
		}
		for _, v := range roundTrip(40, ops, c.Seed) {
			c.Rep.Report(v.Sig, map[string]any{"kind": "mux-roundtrip", "scenario": "long-silence", "period": 40, "ops": ops, "message": v.Msg})
		}
		c.Ev.Distinct(fmt.Sprintf("long-silence|%d|%v", k, tail))
	})
	c.Ev.Class("pid-silent-for-thousands-of-packets", doneg)
	c.Ev.AddScenario(mc.Scenario{Name: "long-silence", SpaceSize: int64(len(gaps) * 2), Executed: doneg, Exhaustive: doneg == int64(len(gaps)*2),
		Bound: "a 500-byte unit on PID A, then 1..45 units of ~70000 bytes on PID B (380 to 17000 packets), then A again or the end of the stream"})
	c.Ev.Class("every-stream-type", donet)
	c.Ev.AddScenario(mc.Scenario{Name: "stream-types", SpaceSize: nt, Executed: donet, Exhaustive: donet == nt,
		Bound: "every stream_type value 0..255 on one stream (and its complement on a second one): two streams, five units, tables in between"})
	c.Ev.AddScenario(mc.Scenario{Name: "shape-sweep", SpaceSize: n, Executed: done, Exhaustive: done == n,
		Bound: "every payload length 1..760, windows around 65535 and 131072, 816 structural PES header shapes x lengths around the packet boundary, adaptation fields sized to each room-left class; 2 PIDs (video: unbounded length, audio: bounded length)"})
}
