package checks

import (
	"time"

	astits "github.com/asticode/go-astits"
	"verif/ref"
)

// Descriptor model generators: for every tag a bounded-exhaustive family of model values
// (library structs as value carriers). Length is set to the body length (what a parser must
// report); the encode checks override it.

type descGen struct {
	Tag  uint8
	Name string
	Gen  func(thorough bool) []*astits.Descriptor
}

func fillBytes(n int, seed byte) []byte {
	b := make([]byte, n)
	for i := range b {
		b[i] = seed + byte(i*3)
	}
	return b
}

func lensUpTo(max int, thorough bool) []int {
	var l []int
	if thorough {
		for i := 0; i <= max; i++ {
			l = append(l, i)
		}
		return l
	}
	for _, i := range []int{0, 1, 2, 3, 7, 8, 15, 16, 17, 31, 32, 63, 64, 100, 127, 128, 200, max - 2, max - 1, max} {
		if i >= 0 && i <= max && (len(l) == 0 || l[len(l)-1] < i) {
			l = append(l, i)
		}
	}
	return l
}

var u32Alpha = func() []uint32 {
	a := []uint32{0, 0xffffffff, 0x55555555, 0xaaaaaaaa}
	for k := 0; k < 32; k++ {
		a = append(a, 1<<uint(k))
	}
	return a
}()

var u16Alpha = func() []uint16 {
	a := []uint16{0, 0xffff, 0x5555, 0xaaaa}
	for k := 0; k < 16; k++ {
		a = append(a, 1<<uint(k))
	}
	return a
}()

var u8Alpha = func() []uint8 {
	a := []uint8{0, 0xff, 0x55, 0xaa}
	for k := 0; k < 8; k++ {
		a = append(a, 1<<uint(k))
	}
	return a
}()

func itemCounts(max int) []int {
	out := []int{0, 1, 2, 3}
	if max > 3 {
		out = append(out, max)
	}
	return out
}

var descGens = []descGen{
	{0x05, "Registration", func(th bool) (o []*astits.Descriptor) {
		for _, v := range u32Alpha {
			o = append(o, &astits.Descriptor{Tag: 0x05, Registration: &astits.DescriptorRegistration{FormatIdentifier: v}})
		}
		for _, n := range lensUpTo(251, th) {
			o = append(o, &astits.Descriptor{Tag: 0x05, Registration: &astits.DescriptorRegistration{FormatIdentifier: 0x48444d56, AdditionalIdentificationInfo: fillBytes(n, 1)}})
		}
		return
	}},
	{0x06, "DataStreamAlignment", func(bool) (o []*astits.Descriptor) {
		for v := 0; v < 256; v++ {
			o = append(o, &astits.Descriptor{Tag: 0x06, DataStreamAlignment: &astits.DescriptorDataStreamAlignment{Type: uint8(v)}})
		}
		return
	}},
	{0x0a, "ISO639LanguageAndAudioType", func(bool) (o []*astits.Descriptor) {
		for v := 0; v < 256; v++ {
			o = append(o, &astits.Descriptor{Tag: 0x0a, ISO639LanguageAndAudioType: &astits.DescriptorISO639LanguageAndAudioType{Language: []byte{byte(v), 'n', byte(255 - v)}, Type: uint8(v)}})
		}
		return
	}},
	{0x0e, "MaximumBitrate", func(bool) (o []*astits.Descriptor) {
		for _, v := range bitsAlpha(22) {
			o = append(o, &astits.Descriptor{Tag: 0x0e, MaximumBitrate: &astits.DescriptorMaximumBitrate{Bitrate: uint32(v) * 50}})
		}
		return
	}},
	{0x0f, "PrivateDataIndicator", func(bool) (o []*astits.Descriptor) {
		for _, v := range u32Alpha {
			o = append(o, &astits.Descriptor{Tag: 0x0f, PrivateDataIndicator: &astits.DescriptorPrivateDataIndicator{Indicator: v}})
		}
		return
	}},
	{0x28, "AVCVideo", func(bool) (o []*astits.Descriptor) {
		for f := 0; f < 32; f++ {
			for _, cf := range []uint8{0, 1, 0x1f, 0x15, 0x0a} {
				o = append(o, &astits.Descriptor{Tag: 0x28, AVCVideo: &astits.DescriptorAVCVideo{ProfileIDC: uint8(f * 8), LevelIDC: uint8(255 - f), ConstraintSet0Flag: f&1 != 0, ConstraintSet1Flag: f&2 != 0, ConstraintSet2Flag: f&4 != 0,
					AVCStillPresent: f&8 != 0, AVC24HourPictureFlag: f&16 != 0, CompatibleFlags: cf}})
			}
		}
		for _, v := range u8Alpha {
			o = append(o, &astits.Descriptor{Tag: 0x28, AVCVideo: &astits.DescriptorAVCVideo{ProfileIDC: v, LevelIDC: ^v}})
		}
		return
	}},
	{0x40, "NetworkName", func(th bool) (o []*astits.Descriptor) {
		for _, n := range lensUpTo(255, th) {
			o = append(o, &astits.Descriptor{Tag: 0x40, NetworkName: &astits.DescriptorNetworkName{Name: fillBytes(n, 0x41)}})
		}
		return
	}},
	{0x45, "VBIData", func(bool) (o []*astits.Descriptor) {
		ids := []uint8{1, 2, 4, 5, 6, 7, 0, 3, 8, 0xff}
		mk := func(id uint8, lines int) *astits.DescriptorVBIDataService {
			s := &astits.DescriptorVBIDataService{DataServiceID: id}
			known := id == 1 || id == 2 || id == 4 || id == 5 || id == 6 || id == 7
			if known {
				for i := 0; i < lines; i++ {
					s.Descriptors = append(s.Descriptors, &astits.DescriptorVBIDataDescriptor{FieldParity: i%2 == 0, LineOffset: uint8(31 - i%32)})
				}
			}
			return s
		}
		for _, id := range ids {
			for _, l := range []int{0, 1, 2, 3, 31, 200} {
				o = append(o, &astits.Descriptor{Tag: 0x45, VBIData: &astits.DescriptorVBIData{Services: []*astits.DescriptorVBIDataService{mk(id, l)}}})
			}
		}
		for n := 0; n <= 5; n++ {
			d := &astits.DescriptorVBIData{}
			for i := 0; i < n; i++ {
				d.Services = append(d.Services, mk(ids[i%6], i+1))
			}
			o = append(o, &astits.Descriptor{Tag: 0x45, VBIData: d})
		}
		// every ordered pair of data_service_ids (line-carrying and reserved ones mixed), and triples around a
		// reserved id: what one service carries must not depend on the services before it
		for _, a := range ids {
			for _, b := range ids {
				o = append(o, &astits.Descriptor{Tag: 0x45, VBIData: &astits.DescriptorVBIData{Services: []*astits.DescriptorVBIDataService{mk(a, 2), mk(b, 1)}}})
			}
			o = append(o, &astits.Descriptor{Tag: 0x45, VBIData: &astits.DescriptorVBIData{Services: []*astits.DescriptorVBIDataService{mk(1, 1), mk(a, 3), mk(3, 0), mk(a, 0), mk(4, 2)}}})
		}
		return
	}},
	{0x46, "VBITeletext", func(bool) []*astits.Descriptor { return teletextGen(0x46) }},
	{0x56, "Teletext", func(bool) []*astits.Descriptor { return teletextGen(0x56) }},
	{0x48, "Service", func(th bool) (o []*astits.Descriptor) {
		for _, t := range u8Alpha {
			o = append(o, &astits.Descriptor{Tag: 0x48, Service: &astits.DescriptorService{Type: t, Provider: []byte("p"), Name: []byte("n")}})
		}
		for _, a := range lensUpTo(252, th) {
			for _, b := range []int{0, 1, 252 - a} {
				if a+b > 252 || b < 0 {
					continue
				}
				o = append(o, &astits.Descriptor{Tag: 0x48, Service: &astits.DescriptorService{Type: 1, Provider: fillBytes(a, 0x50), Name: fillBytes(b, 0x60)}})
			}
		}
		return
	}},
	{0x4d, "ShortEvent", func(th bool) (o []*astits.Descriptor) {
		for _, a := range lensUpTo(250, th) {
			for _, b := range []int{0, 1, 250 - a} {
				if a+b > 250 || b < 0 {
					continue
				}
				o = append(o, &astits.Descriptor{Tag: 0x4d, ShortEvent: &astits.DescriptorShortEvent{Language: []byte("eng"), EventName: fillBytes(a, 0x30), Text: fillBytes(b, 0x70)}})
			}
		}
		return
	}},
	{0x4e, "ExtendedEvent", func(bool) (o []*astits.Descriptor) {
		for num := 0; num < 16; num++ {
			o = append(o, &astits.Descriptor{Tag: 0x4e, ExtendedEvent: &astits.DescriptorExtendedEvent{Number: uint8(num), LastDescriptorNumber: uint8(15 - num), ISO639LanguageCode: []byte("fra"), Text: []byte("t")}})
		}
		for _, n := range []int{0, 1, 2, 3, 20} {
			d := &astits.DescriptorExtendedEvent{ISO639LanguageCode: []byte("deu"), Text: fillBytes(n*2, 9)}
			for i := 0; i < n; i++ {
				d.Items = append(d.Items, &astits.DescriptorExtendedEventItem{Description: fillBytes(i%4, 0x21), Content: fillBytes((i*3)%7, 0x31)})
			}
			o = append(o, &astits.Descriptor{Tag: 0x4e, ExtendedEvent: d})
		}
		for _, tl := range []int{0, 1, 100, 249} {
			o = append(o, &astits.Descriptor{Tag: 0x4e, ExtendedEvent: &astits.DescriptorExtendedEvent{ISO639LanguageCode: []byte("ita"), Text: fillBytes(tl, 3)}})
		}
		o = append(o, &astits.Descriptor{Tag: 0x4e, ExtendedEvent: &astits.DescriptorExtendedEvent{ISO639LanguageCode: []byte("spa"), Items: []*astits.DescriptorExtendedEventItem{{Description: fillBytes(120, 1), Content: fillBytes(127, 2)}}}})
		return
	}},
	{0x50, "Component", func(th bool) (o []*astits.Descriptor) {
		for v := 0; v < 256; v++ {
			o = append(o, &astits.Descriptor{Tag: 0x50, Component: &astits.DescriptorComponent{StreamContentExt: uint8(v >> 4), StreamContent: uint8(v & 0xf), ComponentType: uint8(v), ComponentTag: uint8(255 - v), ISO639LanguageCode: []byte("eng")}})
		}
		for _, n := range lensUpTo(249, th) {
			o = append(o, &astits.Descriptor{Tag: 0x50, Component: &astits.DescriptorComponent{StreamContent: 1, ComponentType: 2, ComponentTag: 3, ISO639LanguageCode: []byte("swe"), Text: fillBytes(n, 0x61)}})
		}
		return
	}},
	{0x52, "StreamIdentifier", func(bool) (o []*astits.Descriptor) {
		for v := 0; v < 256; v++ {
			o = append(o, &astits.Descriptor{Tag: 0x52, StreamIdentifier: &astits.DescriptorStreamIdentifier{ComponentTag: uint8(v)}})
		}
		return
	}},
	{0x54, "Content", func(bool) (o []*astits.Descriptor) {
		for _, n := range itemCounts(127) {
			d := &astits.DescriptorContent{}
			for i := 0; i < n; i++ {
				d.Items = append(d.Items, &astits.DescriptorContentItem{ContentNibbleLevel1: uint8(i % 16), ContentNibbleLevel2: uint8(15 - i%16), UserByte: uint8(i * 2)})
			}
			o = append(o, &astits.Descriptor{Tag: 0x54, Content: d})
		}
		for v := 0; v < 256; v++ {
			o = append(o, &astits.Descriptor{Tag: 0x54, Content: &astits.DescriptorContent{Items: []*astits.DescriptorContentItem{{ContentNibbleLevel1: uint8(v >> 4), ContentNibbleLevel2: uint8(v & 0xf), UserByte: uint8(v ^ 0xff)}}}})
		}
		return
	}},
	{0x55, "ParentalRating", func(bool) (o []*astits.Descriptor) {
		for _, n := range itemCounts(63) {
			d := &astits.DescriptorParentalRating{}
			for i := 0; i < n; i++ {
				d.Items = append(d.Items, &astits.DescriptorParentalRatingItem{CountryCode: []byte{'A' + byte(i%26), 'B', 'C'}, Rating: uint8(i * 4)})
			}
			o = append(o, &astits.Descriptor{Tag: 0x55, ParentalRating: d})
		}
		for _, v := range u8Alpha {
			o = append(o, &astits.Descriptor{Tag: 0x55, ParentalRating: &astits.DescriptorParentalRating{Items: []*astits.DescriptorParentalRatingItem{{CountryCode: []byte("FRA"), Rating: v}}}})
		}
		return
	}},
	{0x58, "LocalTimeOffset", func(bool) (o []*astits.Descriptor) {
		mk := func(i int) *astits.DescriptorLocalTimeOffsetItem {
			return &astits.DescriptorLocalTimeOffsetItem{CountryCode: []byte{'G', 'B', 'A' + byte(i%26)}, CountryRegionID: uint8(i*5) & 0x3f, LocalTimeOffsetPolarity: i%2 == 1,
				LocalTimeOffset: time.Duration(i%13)*time.Hour + time.Duration(i*7%60)*time.Minute, NextTimeOffset: time.Duration((i+1)%13)*time.Hour + time.Duration(i*11%60)*time.Minute,
				TimeOfChange: time.Date(1990+i*3%48, time.Month(1+i%12), 1+i%28, i%24, i*13%60, i*17%60, 0, time.UTC)}
		}
		for _, n := range itemCounts(19) {
			d := &astits.DescriptorLocalTimeOffset{}
			for i := 0; i < n; i++ {
				d.Items = append(d.Items, mk(i))
			}
			o = append(o, &astits.Descriptor{Tag: 0x58, LocalTimeOffset: d})
		}
		for r := 0; r < 64; r++ {
			it := mk(r)
			it.CountryRegionID = uint8(r)
			o = append(o, &astits.Descriptor{Tag: 0x58, LocalTimeOffset: &astits.DescriptorLocalTimeOffset{Items: []*astits.DescriptorLocalTimeOffsetItem{it}}})
		}
		return
	}},
	{0x59, "Subtitling", func(bool) (o []*astits.Descriptor) {
		for _, n := range itemCounts(31) {
			d := &astits.DescriptorSubtitling{}
			for i := 0; i < n; i++ {
				d.Items = append(d.Items, &astits.DescriptorSubtitlingItem{Language: []byte{'a' + byte(i%26), 'b', 'c'}, Type: uint8(i * 8), CompositionPageID: uint16(i * 2049), AncillaryPageID: uint16(0xffff - i*1027)})
			}
			o = append(o, &astits.Descriptor{Tag: 0x59, Subtitling: d})
		}
		for _, v := range u16Alpha {
			o = append(o, &astits.Descriptor{Tag: 0x59, Subtitling: &astits.DescriptorSubtitling{Items: []*astits.DescriptorSubtitlingItem{{Language: []byte("nor"), Type: uint8(v), CompositionPageID: v, AncillaryPageID: ^v}}}})
		}
		return
	}},
	{0x5f, "PrivateDataSpecifier", func(bool) (o []*astits.Descriptor) {
		for _, v := range u32Alpha {
			o = append(o, &astits.Descriptor{Tag: 0x5f, PrivateDataSpecifier: &astits.DescriptorPrivateDataSpecifier{Specifier: v}})
		}
		return
	}},
	{0x6a, "AC3", func(bool) (o []*astits.Descriptor) {
		for f := 0; f < 16; f++ {
			for _, n := range []int{0, 1, 5, 250} {
				d := &astits.DescriptorAC3{HasComponentType: f&1 != 0, HasBSID: f&2 != 0, HasMainID: f&4 != 0, HasASVC: f&8 != 0, AdditionalInfo: fillBytes(n, 0x11)}
				if d.HasComponentType {
					d.ComponentType = 0xc1
				}
				if d.HasBSID {
					d.BSID = 0xb2
				}
				if d.HasMainID {
					d.MainID = 0xa3
				}
				if d.HasASVC {
					d.ASVC = 0x94
				}
				o = append(o, &astits.Descriptor{Tag: 0x6a, AC3: d})
			}
		}
		for _, v := range u8Alpha {
			o = append(o, &astits.Descriptor{Tag: 0x6a, AC3: &astits.DescriptorAC3{HasComponentType: true, HasBSID: true, HasMainID: true, HasASVC: true, ComponentType: v, BSID: ^v, MainID: v + 1, ASVC: v ^ 0x33}})
		}
		return
	}},
	{0x7a, "EnhancedAC3", func(bool) (o []*astits.Descriptor) {
		for f := 0; f < 256; f++ {
			d := &astits.DescriptorEnhancedAC3{HasComponentType: f&1 != 0, HasBSID: f&2 != 0, HasMainID: f&4 != 0, HasASVC: f&8 != 0, MixInfoExists: f&16 != 0, HasSubStream1: f&32 != 0, HasSubStream2: f&64 != 0, HasSubStream3: f&128 != 0,
				AdditionalInfo: fillBytes(f%4, 0x22)}
			if d.HasComponentType {
				d.ComponentType = 0x81
			}
			if d.HasBSID {
				d.BSID = 0x72
			}
			if d.HasMainID {
				d.MainID = 0x63
			}
			if d.HasASVC {
				d.ASVC = 0x54
			}
			if d.HasSubStream1 {
				d.SubStream1 = 0x45
			}
			if d.HasSubStream2 {
				d.SubStream2 = 0x36
			}
			if d.HasSubStream3 {
				d.SubStream3 = 0x27
			}
			o = append(o, &astits.Descriptor{Tag: 0x7a, EnhancedAC3: d})
		}
		o = append(o, &astits.Descriptor{Tag: 0x7a, EnhancedAC3: &astits.DescriptorEnhancedAC3{AdditionalInfo: fillBytes(254, 1)}})
		return
	}},
	{0x7f, "Extension", func(th bool) (o []*astits.Descriptor) {
		for f := 0; f < 128; f++ {
			s := &astits.DescriptorExtensionSupplementaryAudio{MixType: f&1 != 0, EditorialClassification: uint8(f>>1) & 0x1f, HasLanguageCode: f&64 != 0}
			if s.HasLanguageCode {
				s.LanguageCode = []byte("pol")
			}
			s.PrivateData = fillBytes(f%3, 0x44)
			o = append(o, &astits.Descriptor{Tag: 0x7f, Extension: &astits.DescriptorExtension{Tag: 0x06, SupplementaryAudio: s}})
		}
		for _, n := range lensUpTo(250, th) {
			o = append(o, &astits.Descriptor{Tag: 0x7f, Extension: &astits.DescriptorExtension{Tag: 0x06, SupplementaryAudio: &astits.DescriptorExtensionSupplementaryAudio{HasLanguageCode: true, LanguageCode: []byte("ces"), PrivateData: fillBytes(n, 5)}}})
		}
		for t := 0; t < 256; t++ {
			if t == 6 {
				continue
			}
			b := fillBytes(t%5, 0x90)
			o = append(o, &astits.Descriptor{Tag: 0x7f, Extension: &astits.DescriptorExtension{Tag: uint8(t), Unknown: &b}})
		}
		return
	}},
	{0x00, "Unknown", func(th bool) (o []*astits.Descriptor) {
		known := map[int]bool{}
		for _, t := range []int{0x05, 0x06, 0x0a, 0x0e, 0x0f, 0x28, 0x40, 0x45, 0x46, 0x48, 0x4d, 0x4e, 0x50, 0x52, 0x54, 0x55, 0x56, 0x58, 0x59, 0x5f, 0x6a, 0x7a, 0x7f} {
			known[t] = true
		}
		for t := 0; t < 0x80; t++ {
			if !known[t] {
				o = append(o, &astits.Descriptor{Tag: uint8(t), Unknown: &astits.DescriptorUnknown{Tag: uint8(t), Content: fillBytes(1+t%6, uint8(t))}})
			}
		}
		o = append(o, &astits.Descriptor{Tag: 0xff, Unknown: &astits.DescriptorUnknown{Tag: 0xff, Content: fillBytes(4, 1)}})
		for _, n := range lensUpTo(255, th) {
			if n > 0 {
				o = append(o, &astits.Descriptor{Tag: 0x13, Unknown: &astits.DescriptorUnknown{Tag: 0x13, Content: fillBytes(n, 7)}})
			}
		}
		return
	}},
	{0x80, "UserDefined", func(th bool) (o []*astits.Descriptor) {
		for t := 0x80; t <= 0xfe; t++ {
			o = append(o, &astits.Descriptor{Tag: uint8(t), UserDefined: fillBytes(1+t%9, uint8(t))})
		}
		for _, n := range lensUpTo(255, th) {
			if n > 0 {
				o = append(o, &astits.Descriptor{Tag: 0x83, UserDefined: fillBytes(n, 0x10)})
			}
		}
		return
	}},
}

func teletextGen(tag uint8) (o []*astits.Descriptor) {
	set := func(d *astits.DescriptorTeletext) *astits.Descriptor {
		if tag == 0x46 {
			return &astits.Descriptor{Tag: tag, VBITeletext: d}
		}
		return &astits.Descriptor{Tag: tag, Teletext: d}
	}
	for _, n := range itemCounts(51) {
		d := &astits.DescriptorTeletext{}
		for i := 0; i < n; i++ {
			d.Items = append(d.Items, &astits.DescriptorTeletextItem{Language: []byte{'x', 'a' + byte(i%26), 'z'}, Type: uint8(i % 32), Magazine: uint8(i % 8), Page: uint8(i * 7 % 100)})
		}
		o = append(o, set(d))
	}
	for ty := 0; ty < 32; ty++ {
		for mg := 0; mg < 8; mg++ {
			o = append(o, set(&astits.DescriptorTeletext{Items: []*astits.DescriptorTeletextItem{{Language: []byte("fin"), Type: uint8(ty), Magazine: uint8(mg), Page: uint8((ty*8 + mg) % 100)}}}))
		}
	}
	for pg := 0; pg < 100; pg++ {
		o = append(o, set(&astits.DescriptorTeletext{Items: []*astits.DescriptorTeletextItem{{Language: []byte("dan"), Type: 2, Magazine: 1, Page: uint8(pg)}}}))
	}
	return
}

// withBodyLen sets Length to the reference body length and applies the parser's convention
// that an empty body leaves the typed pointer nil.
func withBodyLen(d *astits.Descriptor) *astits.Descriptor {
	n := len(ref.DescBody(d))
	x := *d
	x.Length = uint8(n)
	if n == 0 {
		x = astits.Descriptor{Tag: d.Tag}
	}
	return &x
}
