package checks

import (
	"fmt"

	"verif/mc"
	"verif/ref"
)

// c17WriterFaults: table emissions that fail in the writer (the PAT write or the PMT write is refused)
// between configuration changes. Over every history of the alphabet the PMTs that did reach the output
// must obey the version rule: between two consecutive emitted PMTs the version_number moves by exactly
// one (mod 32) if the content differs and stays if it does not.
//
// Under C05 the same histories are judged by the continuity rule instead: on every PID the payload-carrying
// packets that did reach the output carry consecutive continuity counters - a packet that was written keeps the
// value it carries (no later packet shows it again), and only a refused write may cost a value - for as long as
// the stream stays added.
func c17WriterFaults(c *mc.Ctx, prop string) {
	type op struct {
		m    MOp
		fail int // -1: no fault; 0/1: the first / second Write call of this operation is refused (one-shot)
	}
	alpha := []op{
		{opAddB, -1}, {opRmB, -1}, {opPcrA, -1}, {opPcrB, -1}, {opAddAuto, -1},
		{opTables, -1}, {opTables, 0}, {opTables, 1}, {opDataA1, -1},
	}
	depth := 5
	if c.Thorough() {
		depth = 6
	}
	var total, done int64
	for l := 1; l <= depth; l++ {
		r := make(mc.Radix, l)
		for i := range r {
			r[i] = len(alpha)
		}
		total += r.Size()
		done += mc.ParFor(r.Size(), c.OverBudget, func(i int64) {
			dg := r.Digits(i, make([]int, 0, l))
			faults := 0
			for _, d := range dg {
				if alpha[d].fail >= 0 {
					faults++
				}
			}
			if faults == 0 || alpha[dg[len(dg)-1]].m.K != "tables" && alpha[dg[len(dg)-1]].m.K != "data" {
				return // fault-free histories are the BFS scenarios' subject; the last operation must emit
			}
			h := NewMuxH(3)
			h.W.FailErr = errInjected
			var hist []string
			det := map[string]any{"kind": "note", "history": &hist}
			// driver-side facts per emitted PMT: was the configuration touched (stream added / removed, PCR PID
			// set) since the previous emitted PMT, and how many emissions failed in the writer in between (a
			// failed emission may have used up a version number: the statement is about emissions that happen)
			changed, failed := false, 0
			prevVer, have := uint8(0), false
			lastCC, failedAt := map[uint16]uint8{}, map[uint16]int{}
			ops := []op{{opAddA, -1}, {opPcrA, -1}, {opTables, -1}}
			for _, d := range dg {
				ops = append(ops, alpha[d])
			}
			for _, o := range ops {
				h.W.FailAt = -1
				if o.fail >= 0 {
					h.W.FailAt = h.W.Writes + o.fail
				}
				from := len(h.W.Buf)
				f0 := h.W.FailedIn
				r := h.Do(o.m, c.Seed)
				hist = append(hist, fmt.Sprintf("%s/fail=%d", o.m, o.fail))
				if (o.m.K == "add" || o.m.K == "rm") && r.Err == nil || o.m.K == "pcr" {
					changed = true
				}
				if h.W.FailedIn > f0 {
					failed++
				}
				raw, rest := ref.SplitPackets(h.W.Buf[from:])
				if len(rest) != 0 {
					det["message"] = fmt.Sprintf("%d stray bytes in the output although only whole-packet table writes were refused", len(rest))
					c.Rep.Report("writer-fault-leaves-partial-packet", det)
					return
				}
				if o.m.K == "rm" && r.Err == nil {
					delete(lastCC, o.m.PID)
				}
				for _, b := range raw {
					p, err := ref.DecodePkt(b)
					if prop == "C05" {
						if err != nil {
							det["message"] = "undecodable packet in the output"
							c.Rep.Report("packet-malformed:after-writer-fault", det)
							return
						}
						if !p.HasPL {
							continue
						}
						// a Write call that failed may have put part of its packet on the wire: the value that packet
						// carried may be given up, so k refused writes since the PID's previous packet allow a step of
						// 1..1+k - never a value seen again, never a gap without a refusal
						if prev, ok := lastCC[p.PID]; ok {
							if step := int(p.CC+16-prev) & 15; step < 1 || step > 1+h.W.FailedIn-failedAt[p.PID] {
								det["message"] = fmt.Sprintf("PID %#x: a payload packet with continuity counter %d follows one with %d in the output (%d writes refused in between)", p.PID, p.CC, prev, h.W.FailedIn-failedAt[p.PID])
								c.Rep.Report("cc-not-consecutive:after-writer-fault", det)
								return
							}
						}
						lastCC[p.PID], failedAt[p.PID] = p.CC, h.W.FailedIn
						continue
					}
					if err != nil || p.PID != 0x1000 {
						continue
					}
					secs, framed := ref.ParseUnit(p.Payload)
					if !framed || len(secs) != 1 || !secs[0].CRCOK || secs[0].Kind != "PMT" {
						det["message"] = "malformed PMT in the output"
						c.Rep.Report("pmt-section-malformed", det)
						return
					}
					v := secs[0].Hdr.Version
					if have {
						step := int(v+32-prevVer) % 32
						switch {
						case !changed && step != 0:
							det["message"] = fmt.Sprintf("no stream was added or removed and the PCR PID was not set between two emitted PMTs, but the version went from %d to %d", prevVer, v)
							c.Rep.Report("pmt-version-changed-without-change:after-writer-fault", det)
							return
						case changed && (step < 1 || step > 1+failed):
							det["message"] = fmt.Sprintf("the configuration changed between two emitted PMTs (%d emissions failed in between) but the version went from %d to %d", failed, prevVer, v)
							c.Rep.Report("pmt-version-not-incremented:after-writer-fault", det)
							return
						}
					}
					prevVer, have, changed, failed = v, true, false, 0
				}
			}
			c.Ev.Class("table-write-refused", 1)
		})
	}
	c.Ev.AddScenario(mc.Scenario{Name: "table-writes-refused", SpaceSize: total, Executed: done, Exhaustive: done == total,
		Bound: fmt.Sprintf("all histories of length <= %d over {add, remove, SetPCRPID x2, add automatic, WriteTables, WriteTables with the PAT write refused, WriteTables with the PMT write refused, WriteData} that contain a refused write and end in an emission; %s", depth, map[bool]string{true: "continuity rule per PID on the packets that reached the output", false: "version rule on the PMTs that reached the output"}[prop == "C05"])})
	c.Ev.DistinctAdd(done)
}
