//go:build verif

package checks

import (
	"bytes"
	"fmt"
	"time"

	astits "github.com/asticode/go-astits"
	"verif/mc"
	"verif/ref"
)

func init() { register("C13", checkC13) }

// tableCase is one unit: sections (reference-encoded) with their model values and headers.
type tableCase struct {
	What string
	PID  uint16
	Secs [][]byte
	Exp  []ExpData
	Hdrs []ref.SecHdr // header fields per section (long-form tables)
}

func descRot(i, n int) []*astits.Descriptor {
	pool := []*astits.Descriptor{
		{Tag: 0x52, StreamIdentifier: &astits.DescriptorStreamIdentifier{ComponentTag: uint8(i)}},
		{Tag: 0x0a, ISO639LanguageAndAudioType: &astits.DescriptorISO639LanguageAndAudioType{Language: []byte("eng"), Type: uint8(i % 4)}},
		{Tag: 0x48, Service: &astits.DescriptorService{Type: 1, Provider: []byte("prov"), Name: []byte(fmt.Sprintf("svc-%d", i))}},
		{Tag: 0x4d, ShortEvent: &astits.DescriptorShortEvent{Language: []byte("fra"), EventName: []byte("ev"), Text: []byte(fmt.Sprintf("t%d", i))}},
		{Tag: 0x83, UserDefined: []byte{1, 2, uint8(i)}},
		{Tag: 0x13, Unknown: &astits.DescriptorUnknown{Tag: 0x13, Content: []byte{9, uint8(i)}}},
		{Tag: 0x59, Subtitling: &astits.DescriptorSubtitling{Items: []*astits.DescriptorSubtitlingItem{{Language: []byte("deu"), Type: 0x10, CompositionPageID: uint16(i), AncillaryPageID: 2}}}},
		{Tag: 0x0e, MaximumBitrate: &astits.DescriptorMaximumBitrate{Bitrate: uint32(50 * (i + 1))}},
	}
	var o []*astits.Descriptor
	for k := 0; k < n; k++ {
		d := *pool[(i+k)%len(pool)]
		o = append(o, &d)
	}
	return fixLens(o)
}

var pid13Alpha = func() []uint16 {
	a := []uint16{0, 0x1fff, 0x1555, 0x0aaa}
	for k := 0; k < 13; k++ {
		a = append(a, 1<<uint(k))
	}
	return a
}()

var dvbTimes = []time.Time{
	time.Date(1900, 3, 1, 0, 0, 0, 0, time.UTC), time.Date(2038, 4, 22, 20, 59, 59, 0, time.UTC), time.Date(2000, 2, 29, 12, 0, 0, 0, time.UTC),
	time.Date(1999, 12, 31, 23, 59, 59, 0, time.UTC), time.Date(2001, 1, 1, 0, 0, 1, 0, time.UTC), time.Date(1993, 10, 13, 12, 45, 0, 0, time.UTC), time.Date(2024, 3, 1, 9, 8, 7, 0, time.UTC),
}

func hdrVariants() []ref.SecHdr {
	var hs []ref.SecHdr
	for v := 0; v < 32; v++ {
		hs = append(hs, ref.SecHdr{Version: uint8(v), CNI: v%2 == 0, SN: uint8(v * 8), LSN: uint8(255 - v)})
	}
	return hs
}

func genPAT() (out []tableCase) {
	mk := func(what string, d *astits.PATData, h ref.SecHdr) {
		out = append(out, tableCase{What: "PAT " + what, PID: 0, Secs: [][]byte{SecPAT(d, h)}, Exp: []ExpData{{Kind: "PAT", Table: d}}, Hdrs: []ref.SecHdr{withIDs(h, 0, d.TransportStreamID, true, false)}})
	}
	for _, n := range []int{0, 1, 2, 3, 100, 253} {
		d := &astits.PATData{TransportStreamID: uint16(n * 257)}
		for i := 0; i < n; i++ {
			d.Programs = append(d.Programs, &astits.PATProgram{ProgramNumber: uint16(i * 259), ProgramMapID: uint16(0x1fff - i*31)})
		}
		mk(fmt.Sprintf("programs=%d", n), d, ref.SecHdr{CNI: true})
	}
	for _, v := range u16Alpha {
		mk("ids", &astits.PATData{TransportStreamID: v, Programs: []*astits.PATProgram{{ProgramNumber: ^v, ProgramMapID: 0x20}}}, ref.SecHdr{CNI: true})
	}
	for _, p := range pid13Alpha {
		mk("pid", &astits.PATData{TransportStreamID: 1, Programs: []*astits.PATProgram{{ProgramNumber: 1, ProgramMapID: p}}}, ref.SecHdr{CNI: true})
	}
	for _, h := range hdrVariants() {
		mk("header", modelPAT(1, 0x1000), h)
	}
	return
}

// withIDs completes a header with the table id / extension the encoder derives.
func withIDs(h ref.SecHdr, tid uint8, ext uint16, ssi, private bool) ref.SecHdr {
	if h.TableID == 0 {
		h.TableID = tid
	}
	h.Ext, h.SSI, h.Private = ext, ssi, private
	return h
}

func genPMT() (out []tableCase) {
	mk := func(what string, d *astits.PMTData, h ref.SecHdr) {
		s := SecPMT(d, h)
		if len(s) > 1024 {
			panic("PMT model exceeds 1024 bytes: " + what)
		}
		out = append(out, tableCase{What: "PMT " + what, PID: 0x1000, Secs: [][]byte{s}, Exp: []ExpData{{Kind: "PMT", Table: d}}, Hdrs: []ref.SecHdr{withIDs(h, 2, d.ProgramNumber, true, false)}})
	}
	for _, n := range []int{0, 1, 2, 3, 40, 150} {
		for nd := 0; nd <= 2; nd++ {
			d := &astits.PMTData{ProgramNumber: uint16(n + 1), PCRPID: uint16(0x1fff - n), ProgramDescriptors: descRot(n, nd)}
			for i := 0; i < n; i++ {
				es := &astits.PMTElementaryStream{ElementaryPID: uint16(0x20 + i*13), StreamType: astits.StreamType(i * 37)}
				if n <= 40 {
					es.ElementaryStreamDescriptors = descRot(i, (i+nd)%3)
				}
				d.ElementaryStreams = append(d.ElementaryStreams, es)
			}
			mk(fmt.Sprintf("streams=%d progdescs=%d", n, nd), d, ref.SecHdr{CNI: true})
		}
	}
	for st := 0; st < 256; st++ {
		mk("stream_type", &astits.PMTData{ProgramNumber: 1, PCRPID: 0x100, ElementaryStreams: []*astits.PMTElementaryStream{{ElementaryPID: 0x100, StreamType: astits.StreamType(st)}}}, ref.SecHdr{CNI: true})
	}
	for _, p := range pid13Alpha {
		mk("pids", &astits.PMTData{ProgramNumber: p, PCRPID: p, ElementaryStreams: []*astits.PMTElementaryStream{{ElementaryPID: p ^ 0x1fff, StreamType: 2}}}, ref.SecHdr{CNI: true})
	}
	for _, v := range u16Alpha {
		mk("program_number", &astits.PMTData{ProgramNumber: v, PCRPID: 0x1fff}, ref.SecHdr{CNI: true})
	}
	for _, h := range hdrVariants() {
		mk("header", modelPMT(1, 0x100, 2), h)
	}
	// one descriptor of every body length 0..255 (descriptor_length at and next to its maximum), in the
	// program loop, in a stream loop, and in both
	for l := 0; l <= 255; l++ {
		priv := func(tag uint8) []*astits.Descriptor {
			return fixLens([]*astits.Descriptor{{Tag: tag, UserDefined: bytes.Repeat([]byte{byte(l)}, l)}})
		}
		mk(fmt.Sprintf("program descriptor of %d bytes", l), &astits.PMTData{ProgramNumber: 7, PCRPID: 0x101, ProgramDescriptors: priv(0x80),
			ElementaryStreams: []*astits.PMTElementaryStream{{ElementaryPID: 0x101, StreamType: 2}}}, ref.SecHdr{CNI: true})
		mk(fmt.Sprintf("stream descriptor of %d bytes", l), &astits.PMTData{ProgramNumber: 7, PCRPID: 0x101,
			ElementaryStreams: []*astits.PMTElementaryStream{{ElementaryPID: 0x101, StreamType: 2, ElementaryStreamDescriptors: priv(0xfe)}, {ElementaryPID: 0x102, StreamType: 3}}}, ref.SecHdr{CNI: true})
		if l >= 250 || l <= 2 {
			mk(fmt.Sprintf("program and stream descriptors of %d bytes", l), &astits.PMTData{ProgramNumber: 7, PCRPID: 0x101, ProgramDescriptors: priv(0x81),
				ElementaryStreams: []*astits.PMTElementaryStream{{ElementaryPID: 0x101, StreamType: 2, ElementaryStreamDescriptors: priv(0x82)}}}, ref.SecHdr{CNI: true})
		}
	}
	return
}

func genSDT() (out []tableCase) {
	mk := func(what string, d *astits.SDTData, h ref.SecHdr) {
		s := SecSDT(d, h)
		if len(s) > 1024 {
			panic("SDT model exceeds 1024 bytes")
		}
		tid := uint8(0x42)
		if h.TableID != 0 {
			tid = h.TableID
		}
		out = append(out, tableCase{What: "SDT " + what, PID: 0x11, Secs: [][]byte{s}, Exp: []ExpData{{Kind: "SDT", Table: d}}, Hdrs: []ref.SecHdr{withIDs(h, tid, d.TransportStreamID, true, true)}})
	}
	for _, tid := range []uint8{0x42, 0x46} {
		for _, n := range []int{0, 1, 2, 3, 35} {
			d := &astits.SDTData{TransportStreamID: uint16(n), OriginalNetworkID: uint16(0xffff - n)}
			for i := 0; i < n; i++ {
				d.Services = append(d.Services, &astits.SDTDataService{ServiceID: uint16(i * 1009), HasEITSchedule: i&1 != 0, HasEITPresentFollowing: i&2 != 0, RunningStatus: uint8(i % 8), HasFreeCSAMode: i&4 != 0, Descriptors: descRot(i, i%3)})
			}
			mk(fmt.Sprintf("table_id=%#x services=%d", tid, n), d, ref.SecHdr{TableID: tid, CNI: true})
		}
	}
	for f := 0; f < 64; f++ {
		mk("service flags", &astits.SDTData{TransportStreamID: 1, OriginalNetworkID: 2, Services: []*astits.SDTDataService{{ServiceID: uint16(f), HasEITSchedule: f&1 != 0, HasEITPresentFollowing: f&2 != 0, HasFreeCSAMode: f&4 != 0, RunningStatus: uint8(f >> 3)}}}, ref.SecHdr{CNI: true})
	}
	for _, v := range u16Alpha {
		mk("ids", &astits.SDTData{TransportStreamID: v, OriginalNetworkID: ^v, Services: []*astits.SDTDataService{{ServiceID: v ^ 0x5a5a, RunningStatus: 4}}}, ref.SecHdr{CNI: true})
	}
	for _, h := range hdrVariants() {
		mk("header", modelSDT(2), h)
	}
	return
}

func genNIT() (out []tableCase) {
	mk := func(what string, d *astits.NITData, h ref.SecHdr) {
		s := SecNIT(d, h)
		if len(s) > 1024 {
			panic("NIT model exceeds 1024 bytes")
		}
		tid := uint8(0x40)
		if h.TableID != 0 {
			tid = h.TableID
		}
		out = append(out, tableCase{What: "NIT " + what, PID: 0x10, Secs: [][]byte{s}, Exp: []ExpData{{Kind: "NIT", Table: d}}, Hdrs: []ref.SecHdr{withIDs(h, tid, d.NetworkID, true, true)}})
	}
	for _, tid := range []uint8{0x40, 0x41} {
		for _, n := range []int{0, 1, 2, 3, 60} {
			for nd := 0; nd <= 2; nd++ {
				d := &astits.NITData{NetworkID: uint16(n * 3), NetworkDescriptors: descRot(n, nd)}
				for i := 0; i < n; i++ {
					d.TransportStreams = append(d.TransportStreams, &astits.NITDataTransportStream{TransportStreamID: uint16(i * 997), OriginalNetworkID: uint16(0xffff - i), TransportDescriptors: descRot(i, (i+nd)%3)})
				}
				mk(fmt.Sprintf("table_id=%#x ts=%d netdescs=%d", tid, n, nd), d, ref.SecHdr{TableID: tid, CNI: true})
			}
		}
	}
	for _, v := range u16Alpha {
		mk("ids", &astits.NITData{NetworkID: v, TransportStreams: []*astits.NITDataTransportStream{{TransportStreamID: ^v, OriginalNetworkID: v ^ 0x0ff0}}}, ref.SecHdr{CNI: true})
	}
	for _, h := range hdrVariants() {
		mk("header", modelNIT(1), h)
	}
	return
}

func genEIT() (out []tableCase) {
	mk := func(what string, d *astits.EITData, h ref.SecHdr) {
		s := SecEIT(d, h)
		if len(s) > 4096 {
			panic("EIT model exceeds 4096 bytes")
		}
		tid := uint8(0x4e)
		if h.TableID != 0 {
			tid = h.TableID
		}
		out = append(out, tableCase{What: "EIT " + what, PID: 0x12, Secs: [][]byte{s}, Exp: []ExpData{{Kind: "EIT", Table: d}}, Hdrs: []ref.SecHdr{withIDs(h, tid, d.ServiceID, true, true)}})
	}
	for tid := 0x4e; tid <= 0x6f; tid++ {
		d := &astits.EITData{ServiceID: uint16(tid * 7), TransportStreamID: uint16(tid), OriginalNetworkID: uint16(0xffff - tid), SegmentLastSectionNumber: uint8(tid), LastTableID: uint8(0x6f)}
		d.Events = append(d.Events, &astits.EITDataEvent{EventID: uint16(tid), StartTime: dvbTimes[tid%len(dvbTimes)], Duration: time.Duration(tid) * time.Minute, RunningStatus: uint8(tid % 8), HasFreeCSAMode: tid%2 == 0, Descriptors: descRot(tid, tid%3)})
		mk(fmt.Sprintf("table_id=%#x", tid), d, ref.SecHdr{TableID: uint8(tid), CNI: true})
	}
	for _, n := range []int{0, 1, 2, 3, 150} {
		d := &astits.EITData{ServiceID: 1, TransportStreamID: 2, OriginalNetworkID: 3, SegmentLastSectionNumber: 4, LastTableID: 0x4f}
		for i := 0; i < n; i++ {
			d.Events = append(d.Events, &astits.EITDataEvent{EventID: uint16(i * 401), StartTime: dvbTimes[i%len(dvbTimes)].Add(time.Duration(i) * time.Second), Duration: time.Duration(i*3607) * time.Second % (100 * time.Hour),
				RunningStatus: uint8(i % 8), HasFreeCSAMode: i%3 == 0, Descriptors: descRot(i, i%3)})
		}
		mk(fmt.Sprintf("events=%d", n), d, ref.SecHdr{CNI: true})
	}
	// one event with a descriptor loop that needs all 12 bits of descriptors_loop_length
	for _, nd := range []int{3, 4, 5, 8, 12, 15} {
		var ds []*astits.Descriptor
		for i := 0; i < nd; i++ {
			ds = append(ds, &astits.Descriptor{Tag: uint8(0x90 + i), UserDefined: fillBytes(255, uint8(i))})
		}
		mk(fmt.Sprintf("descriptor loop of %d bytes", nd*257), &astits.EITData{ServiceID: 9, TransportStreamID: 8, OriginalNetworkID: 7, Events: []*astits.EITDataEvent{
			{EventID: 1, StartTime: dvbTimes[2], Duration: time.Hour, RunningStatus: 4, Descriptors: fixLens(ds)},
			{EventID: 2, StartTime: dvbTimes[3], Duration: time.Minute, RunningStatus: 1, Descriptors: descRot(1, 1)}}}, ref.SecHdr{CNI: true})
	}
	// a schedule: several events on one day (same MJD, different times of day, one time twice), into the next day
	{
		day := time.Date(1993, 10, 13, 0, 0, 0, 0, time.UTC)
		d := &astits.EITData{ServiceID: 0x77, TransportStreamID: 2, OriginalNetworkID: 3, LastTableID: 0x50}
		for i, off := range []time.Duration{6*time.Hour + 30*time.Minute + 15*time.Second, 13*time.Hour + 15*time.Minute + 30*time.Second, 13*time.Hour + 15*time.Minute + 30*time.Second,
			23*time.Hour + 59*time.Minute + 59*time.Second, 24*time.Hour + time.Second, 0, 12 * time.Hour} {
			d.Events = append(d.Events, &astits.EITDataEvent{EventID: uint16(i + 1), StartTime: day.Add(off), Duration: time.Duration(i+1) * 25 * time.Minute, RunningStatus: uint8(i % 8), Descriptors: descRot(i, i%2)})
		}
		mk("events of one day", d, ref.SecHdr{TableID: 0x50, CNI: true})
	}
	// sections at and next to the 4096-byte limit (section_length 4093): 339 events without descriptors are 4086 bytes,
	// a private descriptor on the last event makes up the rest - the unit spans 23 packets
	for _, total := range []int{4096, 4095, 4094, 4090, 4060, 4048, 4047} {
		d := &astits.EITData{ServiceID: uint16(total), TransportStreamID: 2, OriginalNetworkID: 3, LastTableID: 0x4e}
		for i := 0; i < 339; i++ {
			d.Events = append(d.Events, &astits.EITDataEvent{EventID: uint16(i), StartTime: dvbTimes[i%len(dvbTimes)], Duration: time.Duration(i%90) * time.Minute, RunningStatus: uint8(i % 8)})
		}
		if total-4086 >= 2 {
			d.Events[338].Descriptors = fixLens([]*astits.Descriptor{{Tag: 0x91, UserDefined: fillBytes(total-4086-2, 0x33)}})
		} else {
			d.Events = d.Events[:335+(total-4048)/12] // below: fewer events
		}
		if n := len(SecEIT(d, ref.SecHdr{CNI: true})); n > 4096 {
			panic(fmt.Sprintf("EIT model of %d bytes", n))
		}
		mk(fmt.Sprintf("section of about %d bytes", total), d, ref.SecHdr{CNI: true})
	}
	for _, t := range dvbTimes {
		for _, du := range []time.Duration{0, time.Second, 99*time.Hour + 59*time.Minute + 59*time.Second, 12*time.Hour + 34*time.Minute + 56*time.Second} {
			mk("time", &astits.EITData{ServiceID: 1, Events: []*astits.EITDataEvent{{EventID: 1, StartTime: t, Duration: du, RunningStatus: 1}}}, ref.SecHdr{CNI: true})
		}
	}
	for _, v := range u16Alpha {
		mk("ids", &astits.EITData{ServiceID: v, TransportStreamID: ^v, OriginalNetworkID: v ^ 0x3c3c, SegmentLastSectionNumber: uint8(v), LastTableID: uint8(v >> 8),
			Events: []*astits.EITDataEvent{{EventID: v ^ 0xffff, StartTime: dvbTimes[0], RunningStatus: uint8(v % 8)}}}, ref.SecHdr{CNI: true})
	}
	for _, h := range hdrVariants() {
		mk("header", modelEIT(1), h)
	}
	return
}

func genTOT() (out []tableCase) {
	for i, t := range dvbTimes {
		for nd := 0; nd <= 2; nd++ {
			d := &astits.TOTData{UTCTime: t, Descriptors: descRot(i, nd)}
			if nd == 2 {
				d.Descriptors[0] = modelTOT().Descriptors[0]
			}
			out = append(out, tableCase{What: fmt.Sprintf("TOT time=%s descs=%d", t.Format(time.RFC3339), nd), PID: 0x14, Secs: [][]byte{SecTOT(d)}, Exp: []ExpData{{Kind: "TOT", Table: d}}})
		}
	}
	return
}

// genLoops places descriptors of every family into every descriptor loop position of the tables.
func genLoops() (out []tableCase) {
	for _, g := range descGens {
		ds := g.Gen(false)
		var picks []*astits.Descriptor
		for _, k := range []int{0, len(ds) / 2, len(ds) - 1} {
			d := *ds[k]
			if n := len(ref.DescBody(&d)); n > 0 && n <= 200 { // empty bodies: C14 (the typed pointer stays nil then)
				picks = append(picks, &d)
			}
		}
		for k, d := range picks {
			one := func() []*astits.Descriptor {
				x := *d
				return fixLens([]*astits.Descriptor{&x, {Tag: 0x52, StreamIdentifier: &astits.DescriptorStreamIdentifier{ComponentTag: uint8(k)}}})
			}
			what := fmt.Sprintf("%s[%d] in ", g.Name, k)
			pm := &astits.PMTData{ProgramNumber: 1, PCRPID: 0x100, ProgramDescriptors: one(), ElementaryStreams: []*astits.PMTElementaryStream{{ElementaryPID: 0x100, StreamType: 2, ElementaryStreamDescriptors: one()}, {ElementaryPID: 0x101, StreamType: 3}}}
			out = append(out, tableCase{What: "PMT " + what + "program and ES loops", PID: 0x1000, Secs: [][]byte{SecPMT(pm, ref.SecHdr{CNI: true})}, Exp: []ExpData{{Kind: "PMT", Table: pm}}, Hdrs: []ref.SecHdr{withIDs(ref.SecHdr{CNI: true}, 2, 1, true, false)}})
			sd := &astits.SDTData{TransportStreamID: 1, OriginalNetworkID: 2, Services: []*astits.SDTDataService{{ServiceID: 3, RunningStatus: 4, Descriptors: one()}, {ServiceID: 4, RunningStatus: 1}}}
			out = append(out, tableCase{What: "SDT " + what + "service loop", PID: 0x11, Secs: [][]byte{SecSDT(sd, ref.SecHdr{CNI: true})}, Exp: []ExpData{{Kind: "SDT", Table: sd}}, Hdrs: []ref.SecHdr{withIDs(ref.SecHdr{CNI: true}, 0x42, 1, true, true)}})
			ni := &astits.NITData{NetworkID: 5, NetworkDescriptors: one(), TransportStreams: []*astits.NITDataTransportStream{{TransportStreamID: 6, OriginalNetworkID: 7, TransportDescriptors: one()}, {TransportStreamID: 8, OriginalNetworkID: 9}}}
			out = append(out, tableCase{What: "NIT " + what + "network and transport loops", PID: 0x10, Secs: [][]byte{SecNIT(ni, ref.SecHdr{CNI: true})}, Exp: []ExpData{{Kind: "NIT", Table: ni}}, Hdrs: []ref.SecHdr{withIDs(ref.SecHdr{CNI: true}, 0x40, 5, true, true)}})
			ei := &astits.EITData{ServiceID: 1, TransportStreamID: 2, OriginalNetworkID: 3, LastTableID: 0x4e, Events: []*astits.EITDataEvent{{EventID: 1, StartTime: dvbTimes[5], Duration: time.Hour, RunningStatus: 4, Descriptors: one()}, {EventID: 2, StartTime: dvbTimes[6], Duration: time.Minute, RunningStatus: 1}}}
			out = append(out, tableCase{What: "EIT " + what + "event loop", PID: 0x12, Secs: [][]byte{SecEIT(ei, ref.SecHdr{CNI: true})}, Exp: []ExpData{{Kind: "EIT", Table: ei}}, Hdrs: []ref.SecHdr{withIDs(ref.SecHdr{CNI: true}, 0x4e, 1, true, true)}})
			to := &astits.TOTData{UTCTime: dvbTimes[2], Descriptors: one()}
			out = append(out, tableCase{What: "TOT " + what + "loop", PID: 0x14, Secs: [][]byte{SecTOT(to)}, Exp: []ExpData{{Kind: "TOT", Table: to}}})
		}
	}
	return
}

func c13Run(c *mc.Ctx, tc tableCase, pointer int, chunks ...int) {
	u := PSIUnit(tc.PID, pointer, tc.Secs, append([]ExpData{}, tc.Exp...))
	var ps []*ref.Pkt
	exp := map[uint16][]ExpData{tc.PID: u.Exp}
	if tc.PID == 0x1000 {
		c0 := uint8(1)
		pat := modelPAT(1, 0x1000)
		up := PSIUnit(0, 0, [][]byte{SecPAT(pat, ref.SecHdr{CNI: true})}, []ExpData{{Kind: "PAT", Table: pat}})
		ps = append(ps, Packetize(up, nil, &c0, true)...)
		exp[0] = up.Exp
	}
	cc := uint8(9)
	ps = append(ps, Packetize(u, chunks, &cc, true)...)
	b := EncodePkts(ps)
	out := DemuxBytes(b)
	kind := tc.What[:3]
	if sig, msg := CompareOutput(exp, out); sig != "" {
		c.Rep.Report("decode:"+kind+":"+sig, map[string]any{"kind": "stream", "what": tc.What, "bytes": mc.Hex(b), "message": msg})
	}
	// generic header fields and CRC through the hook
	var d *astits.PSIData
	var err error
	if p := mc.Catch(func() { d, err = astits.VerifParsePSIData(u.Bytes) }); p != nil || err != nil {
		c.Rep.Report("parse-psi-failed:"+kind, map[string]any{"kind": "psi", "what": tc.What, "bytes": mc.Hex(u.Bytes), "message": fmt.Sprintf("panic=%v err=%v", p, err)})
		return
	}
	if d.PointerField != pointer || len(d.Sections) != len(tc.Secs) {
		c.Rep.Report("psi-framing:"+kind, map[string]any{"kind": "psi", "what": tc.What, "bytes": mc.Hex(u.Bytes), "message": fmt.Sprintf("pointer_field=%d sections=%d, want %d / %d", d.PointerField, len(d.Sections), pointer, len(tc.Secs))})
		return
	}
	for i, s := range d.Sections {
		raw := tc.Secs[i]
		bad := ""
		wantLen := len(raw) - 3
		if int(s.Header.SectionLength) != wantLen || uint8(s.Header.TableID) != raw[0] || s.Header.SectionSyntaxIndicator != (raw[1]&0x80 != 0) || s.Header.PrivateBit != (raw[1]&0x40 != 0) {
			bad = fmt.Sprintf("section header %+v", *s.Header)
		}
		wantCRC := uint32(raw[len(raw)-4])<<24 | uint32(raw[len(raw)-3])<<16 | uint32(raw[len(raw)-2])<<8 | uint32(raw[len(raw)-1])
		if s.CRC32 != wantCRC {
			bad = fmt.Sprintf("CRC32 %#x, want %#x", s.CRC32, wantCRC)
		}
		if i < len(tc.Hdrs) {
			h := tc.Hdrs[i]
			var sh *astits.PSISectionSyntaxHeader
			if s.Syntax != nil {
				sh = s.Syntax.Header
			}
			if sh == nil || sh.TableIDExtension != h.Ext || sh.VersionNumber != h.Version || sh.CurrentNextIndicator != h.CNI || sh.SectionNumber != h.SN || sh.LastSectionNumber != h.LSN {
				bad = fmt.Sprintf("syntax header %+v, want %+v", sh, h)
			}
		}
		if bad != "" {
			c.Rep.Report("psi-header-fields:"+kind, map[string]any{"kind": "psi", "what": tc.What, "bytes": mc.Hex(u.Bytes), "message": bad})
		}
	}
}

// c13Write: PAT/PMT written by the library must be the reference bytes (one PSIData may hold
// several sections: each is written with its own header, length and CRC_32).
func c13Write(c *mc.Ctx, tc tableCase) {
	if tc.PID != 0 && tc.PID != 0x1000 {
		return
	}
	want := []byte{0}
	var secs []*astits.PSISection
	for k := range tc.Secs {
		h := tc.Hdrs[k]
		sec := &astits.PSISection{
			Header: &astits.PSISectionHeader{TableID: astits.PSITableID(h.TableID), SectionSyntaxIndicator: h.SSI, PrivateBit: h.Private, SectionLength: 1},
			Syntax: &astits.PSISectionSyntax{Header: &astits.PSISectionSyntaxHeader{TableIDExtension: h.Ext, VersionNumber: h.Version, CurrentNextIndicator: h.CNI, SectionNumber: h.SN, LastSectionNumber: h.LSN}, Data: &astits.PSISectionSyntaxData{}},
		}
		if tc.PID == 0 {
			sec.Syntax.Data.PAT = tc.Exp[k].Table.(*astits.PATData)
		} else {
			sec.Syntax.Data.PMT = tc.Exp[k].Table.(*astits.PMTData)
		}
		secs = append(secs, sec)
		want = append(want, tc.Secs[k]...)
	}
	var got []byte
	var n int
	var err error
	sig := tc.What[:3]
	if len(tc.Secs) > 1 {
		sig += ":multi-section"
	}
	if p := mc.Catch(func() { got, n, err = astits.VerifWritePSIData(&astits.PSIData{Sections: secs}) }); p != nil || err != nil {
		c.Rep.Report("write-psi-failed:"+sig, map[string]any{"kind": "psi", "what": tc.What, "message": fmt.Sprintf("panic=%v err=%v", p, err)})
		return
	}
	if n != len(got) || !bytes.Equal(got, want) {
		c.Rep.Report("write-psi-differs:"+sig, map[string]any{"kind": "psi", "what": tc.What, "bytes": mc.Hex(want), "message": fmt.Sprintf("n=%d, %d bytes written, reference has %d\n got  %x", n, len(got), len(want), got[:minInt(len(got), 64)])})
	}
	if len(tc.Secs) > 1 {
		c.Ev.Class("write-multi-section", 1)
	}
}

// c13Ranges (thorough tier): every loop count from 0 to the number that fills the section.
func c13Ranges(name string) (out []tableCase) {
	switch name {
	case "PAT":
		for n := 0; n <= 253; n++ {
			d := &astits.PATData{TransportStreamID: uint16(n)}
			for i := 0; i < n; i++ {
				d.Programs = append(d.Programs, &astits.PATProgram{ProgramNumber: uint16(i + 1), ProgramMapID: uint16(0x20 + i)})
			}
			h := ref.SecHdr{CNI: true, Version: uint8(n % 32)}
			out = append(out, tableCase{What: fmt.Sprintf("PAT range programs=%d", n), PID: 0, Secs: [][]byte{SecPAT(d, h)}, Exp: []ExpData{{Kind: "PAT", Table: d}}, Hdrs: []ref.SecHdr{withIDs(h, 0, d.TransportStreamID, true, false)}})
		}
	case "PMT":
		for n := 0; n <= 200; n++ {
			d := &astits.PMTData{ProgramNumber: uint16(n + 1), PCRPID: 0x1ffe}
			for i := 0; i < n; i++ {
				d.ElementaryStreams = append(d.ElementaryStreams, &astits.PMTElementaryStream{ElementaryPID: uint16(0x20 + i), StreamType: astits.StreamType(i)})
			}
			h := ref.SecHdr{CNI: true, Version: uint8(n % 32)}
			if s := SecPMT(d, h); len(s) <= 1024 {
				out = append(out, tableCase{What: fmt.Sprintf("PMT range streams=%d", n), PID: 0x1000, Secs: [][]byte{s}, Exp: []ExpData{{Kind: "PMT", Table: d}}, Hdrs: []ref.SecHdr{withIDs(h, 2, d.ProgramNumber, true, false)}})
			}
		}
	case "SDT":
		for n := 0; n <= 200; n++ {
			d := &astits.SDTData{TransportStreamID: uint16(n), OriginalNetworkID: 1}
			for i := 0; i < n; i++ {
				d.Services = append(d.Services, &astits.SDTDataService{ServiceID: uint16(i), RunningStatus: uint8(i % 8)})
			}
			h := ref.SecHdr{CNI: true}
			if s := SecSDT(d, h); len(s) <= 1024 {
				out = append(out, tableCase{What: fmt.Sprintf("SDT range services=%d", n), PID: 0x11, Secs: [][]byte{s}, Exp: []ExpData{{Kind: "SDT", Table: d}}, Hdrs: []ref.SecHdr{withIDs(h, 0x42, d.TransportStreamID, true, true)}})
			}
		}
	case "NIT":
		for n := 0; n <= 170; n++ {
			d := &astits.NITData{NetworkID: uint16(n)}
			for i := 0; i < n; i++ {
				d.TransportStreams = append(d.TransportStreams, &astits.NITDataTransportStream{TransportStreamID: uint16(i), OriginalNetworkID: uint16(i * 3)})
			}
			h := ref.SecHdr{CNI: true}
			if s := SecNIT(d, h); len(s) <= 1024 {
				out = append(out, tableCase{What: fmt.Sprintf("NIT range transport streams=%d", n), PID: 0x10, Secs: [][]byte{s}, Exp: []ExpData{{Kind: "NIT", Table: d}}, Hdrs: []ref.SecHdr{withIDs(h, 0x40, d.NetworkID, true, true)}})
			}
		}
	case "EIT":
		for n := 0; n <= 340; n++ {
			d := &astits.EITData{ServiceID: uint16(n), TransportStreamID: 2, OriginalNetworkID: 3, LastTableID: 0x4e}
			for i := 0; i < n; i++ {
				d.Events = append(d.Events, &astits.EITDataEvent{EventID: uint16(i), StartTime: dvbTimes[i%len(dvbTimes)], Duration: time.Duration(i%100) * time.Minute, RunningStatus: uint8(i % 8)})
			}
			h := ref.SecHdr{CNI: true}
			if s := SecEIT(d, h); len(s) <= 4096 {
				out = append(out, tableCase{What: fmt.Sprintf("EIT range events=%d", n), PID: 0x12, Secs: [][]byte{s}, Exp: []ExpData{{Kind: "EIT", Table: d}}, Hdrs: []ref.SecHdr{withIDs(h, 0x4e, d.ServiceID, true, true)}})
			}
		}
	}
	return
}

// c13Products (thorough tier): the identifier fields of each table varied together - the full product of
// their alphabets (0, all ones, alternating bits, every single bit), so that a field that borrows or
// clobbers bits of its neighbour shows whatever value the neighbour has.
func c13Products(name string) (out []tableCase) {
	hv := hdrVariants()
	switch name {
	case "PAT":
		for _, ts := range u16Alpha {
			for _, pn := range u16Alpha {
				for _, pid := range pid13Alpha {
					h := hv[len(out)%len(hv)]
					d := &astits.PATData{TransportStreamID: ts, Programs: []*astits.PATProgram{{ProgramNumber: pn, ProgramMapID: pid}, {ProgramNumber: ^pn, ProgramMapID: pid ^ 0x1fff}}}
					out = append(out, tableCase{What: fmt.Sprintf("PAT product ts=%#x pn=%#x pid=%#x", ts, pn, pid), PID: 0, Secs: [][]byte{SecPAT(d, h)}, Exp: []ExpData{{Kind: "PAT", Table: d}}, Hdrs: []ref.SecHdr{withIDs(h, 0, ts, true, false)}})
				}
			}
		}
	case "PMT":
		for _, pn := range u16Alpha {
			for _, pcr := range pid13Alpha {
				for _, es := range pid13Alpha {
					for _, st := range []astits.StreamType{0, 0x1b, 0x55, 0xff} {
						h := hv[len(out)%len(hv)]
						d := &astits.PMTData{ProgramNumber: pn, PCRPID: pcr, ElementaryStreams: []*astits.PMTElementaryStream{{ElementaryPID: es, StreamType: st}, {ElementaryPID: es ^ 0x1fff, StreamType: ^st}}}
						out = append(out, tableCase{What: fmt.Sprintf("PMT product pn=%#x pcr=%#x es=%#x st=%#x", pn, pcr, es, uint8(st)), PID: 0x1000, Secs: [][]byte{SecPMT(d, h)}, Exp: []ExpData{{Kind: "PMT", Table: d}}, Hdrs: []ref.SecHdr{withIDs(h, 2, pn, true, false)}})
					}
				}
			}
		}
	case "SDT":
		for _, ts := range u16Alpha {
			for _, on := range u16Alpha {
				for _, sid := range u16Alpha {
					h := hv[len(out)%len(hv)]
					d := &astits.SDTData{TransportStreamID: ts, OriginalNetworkID: on, Services: []*astits.SDTDataService{{ServiceID: sid, RunningStatus: uint8(sid % 8), HasEITSchedule: ts&1 != 0, HasEITPresentFollowing: on&1 != 0, HasFreeCSAMode: sid&1 != 0}, {ServiceID: ^sid, RunningStatus: 7}}}
					out = append(out, tableCase{What: fmt.Sprintf("SDT product ts=%#x on=%#x sid=%#x", ts, on, sid), PID: 0x11, Secs: [][]byte{SecSDT(d, h)}, Exp: []ExpData{{Kind: "SDT", Table: d}}, Hdrs: []ref.SecHdr{withIDs(h, 0x42, ts, true, true)}})
				}
			}
		}
	case "NIT":
		for _, ni := range u16Alpha {
			for _, ts := range u16Alpha {
				for _, on := range u16Alpha {
					h := hv[len(out)%len(hv)]
					d := &astits.NITData{NetworkID: ni, TransportStreams: []*astits.NITDataTransportStream{{TransportStreamID: ts, OriginalNetworkID: on}, {TransportStreamID: ^ts, OriginalNetworkID: ^on, TransportDescriptors: descRot(int(ts%8), 1)}}}
					out = append(out, tableCase{What: fmt.Sprintf("NIT product nid=%#x ts=%#x on=%#x", ni, ts, on), PID: 0x10, Secs: [][]byte{SecNIT(d, h)}, Exp: []ExpData{{Kind: "NIT", Table: d}}, Hdrs: []ref.SecHdr{withIDs(h, 0x40, ni, true, true)}})
				}
			}
		}
	case "EIT":
		durs := []time.Duration{0, time.Second, 99*time.Hour + 59*time.Minute + 59*time.Second, 12*time.Hour + 34*time.Minute + 56*time.Second}
		for _, ev := range u16Alpha {
			for rs := 0; rs < 8; rs++ {
				for ca := 0; ca < 2; ca++ {
					for ti, t := range dvbTimes {
						for _, du := range durs {
							h := hv[len(out)%len(hv)]
							d := &astits.EITData{ServiceID: ^ev, TransportStreamID: ev ^ 0x0f0f, OriginalNetworkID: ev ^ 0x3c3c, SegmentLastSectionNumber: uint8(ev), LastTableID: uint8(ev >> 8),
								Events: []*astits.EITDataEvent{{EventID: ev, StartTime: t, Duration: du, RunningStatus: uint8(rs), HasFreeCSAMode: ca == 1, Descriptors: descRot(rs, ti%3)},
									{EventID: ^ev, StartTime: dvbTimes[(ti+1)%len(dvbTimes)], Duration: durs[(rs+1)%4], RunningStatus: uint8(7 - rs), HasFreeCSAMode: ca == 0}}}
							out = append(out, tableCase{What: fmt.Sprintf("EIT product ev=%#x rs=%d ca=%d t=%d du=%s", ev, rs, ca, ti, du), PID: 0x12, Secs: [][]byte{SecEIT(d, h)}, Exp: []ExpData{{Kind: "EIT", Table: d}}, Hdrs: []ref.SecHdr{withIDs(h, 0x4e, d.ServiceID, true, true)}})
						}
					}
				}
			}
		}
	}
	return
}

func checkC13(c *mc.Ctx) {
	checkSpecConstants(c, "tables", specConstsTables())
	c.Ev.Level = "exploration"
	c.Ev.Rule = "bounded-exhaustive table model space: per table type loop counts {0,1,2,3,fill to the section limit}, descriptor loops of 0..2 rotating kinds, every id/number field over {0, max, alternating, every single bit}, all table_id variants, all 32 versions with varying section numbers / current_next, flags; pointer fields; 1..3 sections per unit; each model is reference-encoded, demuxed by the real Demuxer and compared field for field; generic header fields and CRC through the parsePSIData hook; PAT/PMT written by the library compared byte for byte; distinct_nontrivial = distinct table models"
	c.Ev.Assumptions = append(c.Ev.Assumptions, "descriptors inside tables come from a rotating pool of 8 kinds (descriptor space itself: C14)", "EIT start times within the MJD range of C15")
	gens := map[string]func() []tableCase{"PAT": genPAT, "PMT": genPMT, "SDT": genSDT, "NIT": genNIT, "EIT": genEIT, "TOT": genTOT, "descriptor-loops": genLoops}
	for _, name := range []string{"PAT", "PMT", "SDT", "NIT", "EIT", "TOT", "descriptor-loops"} {
		cases := gens[name]()
		if c.Thorough() {
			cases = append(cases, c13Ranges(name)...)
			cases = append(cases, c13Products(name)...)
		}
		n := int64(len(cases))
		done := mc.ParFor(n, c.OverBudget, func(i int64) {
			tc := cases[i]
			c13Run(c, tc, []int{0, 0, 3, 0, 20}[i%5])
			if c.Thorough() {
				for _, ptr := range []int{1, 7, 50, 150} {
					c13Run(c, tc, ptr)
				}
				// packetisations: the first packet ends inside the section header / right after it / mid-body,
				// the second packet carries a single byte
				if len(tc.Secs) == 1 {
					for _, first := range []int{2, 3, 4, 9, 100} {
						c13Run(c, tc, 0, first)
						c13Run(c, tc, 0, first, 1)
						c13Run(c, tc, 5, first+5, 1)
					}
				}
			}
			if tc.PID == 0 || tc.PID == 0x1000 {
				c13Write(c, tc)
			}
			c.Ev.Distinct(tc.What + mc.CanonValue(tc.Exp[0].Table))
		})
		// writing several sections in one call: every pair and triple of consecutive models
		if name == "PAT" || name == "PMT" {
			for i := 0; i+2 < len(cases); i++ {
				for cnt := 2; cnt <= 3; cnt++ {
					mt := tableCase{What: name + " written together", PID: cases[i].PID}
					for k := 0; k < cnt; k++ {
						mt.Secs = append(mt.Secs, cases[i+k].Secs[0])
						mt.Exp = append(mt.Exp, cases[i+k].Exp[0])
						mt.Hdrs = append(mt.Hdrs, cases[i+k].Hdrs[0])
					}
					c13Write(c, mt)
				}
			}
		}
		// multi-section units: 2 and 3 sections of consecutive cases (small ones)
		var multi int64
		for i := 0; i+2 < len(cases) && name != "descriptor-loops"; i += 3 {
			tot := 0
			for k := 0; k < 3; k++ {
				tot += len(cases[i+k].Secs[0])
			}
			if tot > 170 && name != "EIT" {
				continue // keep all section starts inside the PUSI packet (well-formed domain of C02)
			}
			if tot > 170 {
				continue
			}
			for cnt := 2; cnt <= 3; cnt++ {
				mt := tableCase{What: name + " multi-section", PID: cases[i].PID}
				for k := 0; k < cnt; k++ {
					mt.Secs = append(mt.Secs, cases[i+k].Secs[0])
					mt.Exp = append(mt.Exp, cases[i+k].Exp[0])
					if len(cases[i+k].Hdrs) > 0 {
						mt.Hdrs = append(mt.Hdrs, cases[i+k].Hdrs[0])
					}
				}
				c13Run(c, mt, 0)
				multi++
			}
		}
		c.Ev.AddScenario(mc.Scenario{Name: "table:" + name, SpaceSize: n + multi, Executed: done + multi, Exhaustive: done == n, Bound: fmt.Sprintf("%d single-section models + %d multi-section units", n, multi)})
		c.Ev.Class("table:"+name, 1)
		if multi > 0 {
			c.Ev.Class("multi-section", multi)
		}
		c.Ev.Sample(map[string]any{"table": name, "what": cases[len(cases)/2].What, "section": mc.Hex(cases[len(cases)/2].Secs[0][:minInt(32, len(cases[len(cases)/2].Secs[0]))])})
	}
	// multi-section units whose next section header straddles the packet boundary: section A is sized
	// so that the first packet ends 0..4 bytes after / before the start of section B
	var ns int64
	for _, lenA := range []int{178, 179, 180, 181, 182, 183, 184, 185, 186} { // pointer_field + A = lenA+1 bytes
		for _, kind := range []string{"PMT", "SDT", "EIT"} {
			var tc tableCase
			pad := func(n int) []*astits.Descriptor {
				return fixLens([]*astits.Descriptor{{Tag: 0x83, UserDefined: fillBytes(n, 0x31)}})
			}
			switch kind {
			case "PMT":
				base := len(SecPMT(&astits.PMTData{ProgramNumber: 1, PCRPID: 0x100, ProgramDescriptors: pad(1)}, ref.SecHdr{CNI: true}))
				a := &astits.PMTData{ProgramNumber: 1, PCRPID: 0x100, ProgramDescriptors: pad(1 + lenA - base)}
				b := modelPMT(1, 0x101, 3)
				tc = tableCase{What: "PMT straddle", PID: 0x1000, Secs: [][]byte{SecPMT(a, ref.SecHdr{CNI: true, LSN: 1}), SecPMT(b, ref.SecHdr{CNI: true, SN: 1, LSN: 1})}, Exp: []ExpData{{Kind: "PMT", Table: a}, {Kind: "PMT", Table: b}}}
			case "SDT":
				mk := func(n int) *astits.SDTData {
					return &astits.SDTData{TransportStreamID: 1, OriginalNetworkID: 2, Services: []*astits.SDTDataService{{ServiceID: 3, RunningStatus: 4, Descriptors: pad(n)}}}
				}
				base := len(SecSDT(mk(1), ref.SecHdr{CNI: true}))
				a, b := mk(1+lenA-base), modelSDT(3)
				tc = tableCase{What: "SDT straddle", PID: 0x11, Secs: [][]byte{SecSDT(a, ref.SecHdr{CNI: true}), SecSDT(b, ref.SecHdr{CNI: true, SN: 1})}, Exp: []ExpData{{Kind: "SDT", Table: a}, {Kind: "SDT", Table: b}}}
			case "EIT":
				mk := func(n int) *astits.EITData {
					return &astits.EITData{ServiceID: 1, Events: []*astits.EITDataEvent{{EventID: 1, StartTime: dvbTimes[2], Duration: time.Hour, RunningStatus: 1, Descriptors: pad(n)}}}
				}
				base := len(SecEIT(mk(1), ref.SecHdr{CNI: true}))
				a, b := mk(1+lenA-base), modelEIT(2)
				tc = tableCase{What: "EIT straddle", PID: 0x12, Secs: [][]byte{SecEIT(a, ref.SecHdr{CNI: true}), SecEIT(b, ref.SecHdr{CNI: true, SN: 1})}, Exp: []ExpData{{Kind: "EIT", Table: a}, {Kind: "EIT", Table: b}}}
			}
			if len(tc.Secs[0]) != lenA {
				panic(fmt.Sprintf("straddle construction: section A is %d bytes, wanted %d", len(tc.Secs[0]), lenA))
			}
			if 1+lenA >= 184 {
				continue // section B would start in a non-PUSI packet: outside the well-formed domain (C02)
			}
			c13Run(c, tc, 0)
			ns++
			c.Ev.Class("section-header-straddles-packets", 1)
		}
	}
	c.Ev.AddScenario(mc.Scenario{Name: "straddling section headers", SpaceSize: ns, Executed: ns, Exhaustive: true, Bound: "2-section PMT/SDT/EIT units whose first packet ends 0..5 bytes into the second section"})
	c.Ev.Require("section-header-straddles-packets", "table:PAT", "table:PMT", "table:SDT", "table:NIT", "table:EIT", "table:TOT", "multi-section", "write-multi-section")
}
