package checks

import "encoding/json"

// reJSON converts a generic JSON value back into a typed one.
func reJSON(v any, out any) error {
	b, err := json.Marshal(v)
	if err != nil {
		return err
	}
	return json.Unmarshal(b, out)
}
