package checks

import "encoding/json"

// reJSON converts a generic JSON value back into a typed one.
func reJSON(v any, out any) error {
	b, err := json.Marshal(v)
	if err != nil {
		return err
	}
	return json.Unmarshal(b, out)
}

// Boundary alphabets for wide fields: 0, all ones, alternating patterns, every single bit.
var ts33Alpha = func() []uint64 {
	a := []uint64{0, 1<<33 - 1, 0x155555555, 0x0AAAAAAAA}
	for k := 0; k < 33; k++ {
		a = append(a, 1<<uint(k))
	}
	return a
}()

var ext9Alpha = func() []uint64 {
	a := []uint64{0, 511, 0x155}
	for k := 0; k < 9; k++ {
		a = append(a, 1<<uint(k))
	}
	return a
}()

func bitsAlpha(n int) []uint64 {
	a := []uint64{0, 1<<uint(n) - 1, (1<<uint(n) - 1) / 3}
	for k := 0; k < n; k++ {
		a = append(a, 1<<uint(k))
	}
	return a
}
