package checks

import "verif/mc"

// Registry maps property ids to check functions.
var Registry = map[string]func(*mc.Ctx){}

// Replayers re-execute a replay file's detail (kind -> function); they print what they observe.
var Replayers = map[string]func(detail map[string]any) error{}

func register(id string, f func(*mc.Ctx)) { Registry[id] = f }
