package checks

import (
	"bytes"
	"errors"
	"fmt"
	"reflect"
	"sort"

	astits "github.com/asticode/go-astits"
	"verif/mc"
	"verif/ref"
)

// reflectPIDs reads the Muxer's current elementary PID list (read-only reflection; driver
// aid only - used to learn which PID an automatic assignment produced).
func reflectPIDs(m *astits.Muxer) (out []uint16) {
	defer func() { recover() }()
	v := reflect.ValueOf(m).Elem().FieldByName("pmt")
	if !v.IsValid() {
		return nil
	}
	es := v.FieldByName("ElementaryStreams")
	for i := 0; i < es.Len(); i++ {
		out = append(out, uint16(es.Index(i).Elem().FieldByName("ElementaryPID").Uint()))
	}
	return out
}

// Viol is a monitor verdict: which property, classifier signature, human text.
type Viol struct {
	Prop string
	Sig  string
	Msg  string
}

type mStream struct {
	PID  uint16
	ST   uint8
	Desc string
}

// MuxMon is the lock-step reference model + output monitors for C04, C05 and C17
// (ref.MuxModel of DESIGN.md). Its whole state is part of the search key.
type MuxMon struct {
	Period int
	// C05: last continuity counter seen in the OUTPUT per PID emitted by the Muxer itself
	LastCC map[uint16]int
	// driver-side bookkeeping for the finding classifiers
	FailedGenSincePAT  int // table generations that failed after the PAT was generated, since the last PAT in the output
	OversizeSincePMT   int // generations that failed on an oversized PMT since the last PMT in the output
	OversizeDirtySince int // ... of those, while the PMT content was marked changed
	// C17 model
	Streams    []mStream
	PCR        uint16
	Dirty      bool
	LastPMTVer int
	LastPATVer int
	Lo, Hi     int // successful / all WriteData calls since the last automatic emission
	AnyPES     bool
	AutoSeen   []uint16
}

func NewMuxMon(period int) *MuxMon {
	if period == 0 {
		period = 40 // the default retransmit period (README / MuxerOptTablesRetransmitPeriod documentation)
	}
	return &MuxMon{Period: period, LastCC: map[uint16]int{}, LastPMTVer: -1, LastPATVer: -1, Lo: period, Hi: period}
}

func (m *MuxMon) Key() string {
	// only "reached the period or not" is observable of the call counters
	if m.Hi > m.Period {
		m.Hi = m.Period
	}
	if m.Lo > m.Period {
		m.Lo = m.Period
	}
	return mc.Canon(m)
}

func (m *MuxMon) find(pid uint16) int {
	for i, s := range m.Streams {
		if s.PID == pid {
			return i
		}
	}
	return -1
}

func (m *MuxMon) pcrValid() bool { return m.find(m.PCR) >= 0 }

// expectedPMT returns the reference encoding of the PMT section for the model's content.
func (m *MuxMon) expectedPMT(version uint8) []byte {
	var ss []ref.PMTStream
	for _, s := range m.Streams {
		ss = append(ss, ref.PMTStream{Type: s.ST, PID: s.PID, Descs: refESDescs(s.Desc)})
	}
	return ref.Long(ref.SecHdr{TableID: 0x02, SSI: true, Ext: 1, Version: version, CNI: true}, ref.PMTBody(m.PCR, nil, ss))
}

func refESDescs(kind string) []byte {
	switch kind {
	case "sid":
		return []byte{0x52, 1, 0x42}
	case "lang":
		return []byte{0x0a, 4, 'e', 'n', 'g', 1}
	case "emptylast":
		return []byte{0x52, 1, 0x43, 0x90, 0}
	case "emptyonly":
		return []byte{0x91, 0}
	case "":
		return nil
	}
	panic("refESDescs: unknown descriptor kind " + kind)
}

func (m *MuxMon) pmtFits() bool { return 1+len(m.expectedPMT(0)) <= 184 }

func isReservedPID(p uint16) bool { return p <= 0x1f || p == 0x1fff || p == 0x1000 }

// afLeavesNoRoom: the caller's adaptation field leaves less room in the first packet than the
// PES header needs (driver-side fact used by the K2 classifier).
func afLeavesNoRoom(c *MCall) bool {
	if c.AF == nil || c.Hdr == nil {
		return false
	}
	a := toRefAF(c.AF)
	hdr := toRefPES(c.Hdr, c.Hdr.StreamID)
	need := 6
	if ref.HasOptHeader(0xe0) {
		need += len(hdr.OptHeader())
	}
	return 184-a.Size() < need
}

// afCannotFit: the caller's adaptation field alone is larger than the 184 bytes a packet has behind its header.
func afCannotFit(c *MCall) bool {
	return c.AF != nil && toRefAF(c.AF).Size() > 184
}

// Step analyses call i of the trace and advances the model. It returns the violations
// located at this call.
func (m *MuxMon) Step(h *MuxH, i int) (vs []Viol) {
	c := &h.Calls[i]
	add := func(prop, sig, f string, a ...any) {
		vs = append(vs, Viol{prop, sig, fmt.Sprintf("call %d %s: ", i, c.Op) + fmt.Sprintf(f, a...)})
	}
	out := h.W.Buf[c.From:c.To]

	// ---- C04: alignment, byte counts, decodability -------------------------------------
	if len(out)%188 != 0 {
		add("C04", "partial-packet:"+c.Op.K+":"+c.Op.Pkt, "call appended %d bytes, not a multiple of 188 (err=%v)", len(out), c.Err)
	}
	if (c.Op.K == "tables" || c.Op.K == "data" || c.Op.K == "pkt") && c.N != len(out) {
		add("C04", "count-mismatch:"+c.Op.K+":"+c.Op.Pkt, "returned n=%d but %d bytes reached the writer (err=%v)", c.N, len(out), c.Err)
	}
	// a WriteData whose adaptation field cannot fit a packet at all has to be refused; it may be refused after the
	// tables that were due have been written (whole packets, counted), so its output is judged further down
	unwritable := c.Op.K == "data" && afCannotFit(c)
	if c.Err != nil && len(out) != 0 && !unwritable {
		add("C04", "rejected-call-left-bytes:"+c.Op.K+":"+c.Op.Pkt, "call failed (%v) but left %d bytes in the output", c.Err, len(out))
	}
	if c.Op.K != "tables" && c.Op.K != "data" && c.Op.K != "pkt" && len(out) != 0 {
		add("C04", "unexpected-output:"+c.Op.K, "configuration call produced %d bytes", len(out))
	}
	raw, rest := ref.SplitPackets(out)
	var ps []*ref.Pkt
	okDecode := len(rest) == 0
	for k, b := range raw {
		p, err := ref.DecodePkt(b)
		if err != nil && c.Op.K == "pkt" && c.Op.Pkt == "stalefit" && len(b) == 188 && b[0] == 0x47 {
			// the caller described a packet that cannot exist (adaptation field only, the field shorter than the packet): what
			// the library makes of it - the field as given, 0xFF behind it - is 188 bytes behind a sync byte, and that is all
			// that is demanded of it
			okDecode = false
			ps = append(ps, p)
			continue
		}
		if err != nil {
			add("C04", "undecodable-packet:"+c.Op.K+":"+c.Op.Pkt, "packet %d of the call: %v", k, err)
			okDecode = false
		}
		ps = append(ps, p)
	}

	// ---- model transition for configuration calls ---------------------------------------
	switch c.Op.K {
	case "add":
		exists := c.Op.PID != 0 && m.find(c.Op.PID) >= 0
		if exists {
			if !errors.Is(c.Err, astits.ErrPIDAlreadyExists) {
				add("C17", "add-existing-accepted", "adding an existing PID returned %v", c.Err)
			}
			return
		}
		if c.Err != nil {
			add("C17", "add-rejected", "valid AddElementaryStream failed: %v", c.Err)
			return
		}
		pid := c.PID
		if c.Op.PID == 0 {
			if isReservedPID(pid) {
				add("C17", fmt.Sprintf("auto-pid-reserved"), "automatically assigned PID %#x lies in the reserved PSI/SI/null range", pid)
			}
			if m.find(pid) >= 0 {
				add("C17", "auto-pid-duplicate", "automatically assigned PID %#x is already in use", pid)
			}
			m.AutoSeen = append(m.AutoSeen, pid)
		}
		live := m.find(pid) >= 0
		m.Streams = append(m.Streams, mStream{pid, c.Op.ST, c.Op.Desc})
		if !live {
			// a PID handed out while a stream is still using it keeps that stream's counter history: its packets
			// go on in the same PID as far as a receiver can tell (C05)
			delete(m.LastCC, pid)
		}
		m.Dirty = true
		return
	case "churn":
		if c.Err != nil {
			add("C17", "add-rejected", "adding / removing a stream with an automatically assigned PID failed: %v", c.Err)
		}
		for _, pid := range c.Churned {
			if isReservedPID(pid) || pid == 0xffff {
				add("C17", "auto-pid-reserved", "automatically assigned PID %#x lies in the reserved PSI/SI/null range (or no PID was assigned)", pid)
				break
			}
			if m.find(pid) >= 0 {
				add("C17", "auto-pid-duplicate", "automatically assigned PID %#x is already in use", pid)
				break
			}
		}
		if len(c.Churned) > 0 {
			m.Dirty = true
		}
		return
	case "rm":
		k := m.find(c.Op.PID)
		if k < 0 {
			if !errors.Is(c.Err, astits.ErrPIDNotFound) {
				add("C17", "rm-unknown-accepted", "removing an unknown PID returned %v", c.Err)
			}
			return
		}
		if c.Err != nil {
			add("C17", "rm-rejected", "valid RemoveElementaryStream failed: %v", c.Err)
			return
		}
		m.Streams = append(append([]mStream{}, m.Streams[:k]...), m.Streams[k+1:]...)
		delete(m.LastCC, c.Op.PID)
		m.Dirty = true
		return
	case "pcr":
		m.PCR = c.Op.PID
		m.Dirty = true
		return
	case "addmany":
		for k := 0; k < c.Op.N; k++ {
			pid := uint16(0x400 + k)
			if m.find(pid) < 0 {
				m.Streams = append(m.Streams, mStream{PID: pid, ST: uint8(astits.StreamTypeAACAudio)})
				delete(m.LastCC, pid)
				m.Dirty = true
			}
		}
		return
	case "rmmany":
		for k := 0; k < c.Op.N; k++ {
			pid := uint16(0x400 + k)
			if j := m.find(pid); j >= 0 {
				m.Streams = append(append([]mStream{}, m.Streams[:j]...), m.Streams[j+1:]...)
				delete(m.LastCC, pid)
				m.Dirty = true
			}
		}
		return
	case "pkt":
		// caller-built packets: not the Muxer's PIDs; C04 alignment was checked above
		valid := c.Op.Pkt == "null" || c.Op.Pkt == "ownpid" || c.Op.Pkt == "afonly" || c.Op.Pkt == "short" || c.Op.Pkt == "shortaf" || c.Op.Pkt == "priv0pkt" || c.Op.Pkt == "staleaf" || c.Op.Pkt == "fitpriv" || c.Op.Pkt == "fitpcrext" ||
			c.Op.Pkt == "onebyte" || c.Op.Pkt == "scr1" || c.Op.Pkt == "scr2" || c.Op.Pkt == "scr3" || c.Op.Pkt == "teiprio"
		if c.Op.Pkt == "onebytepcr" {
			// contradictory struct (marked as the one-byte field, yet carrying a PCR): written in the one-byte form or
			// refused - 188 bytes or nothing
			if c.Err == nil && len(out) != 188 {
				add("C04", "accepted-packet-not-188-bytes:"+c.Op.Pkt, "accepted packet delivered %d bytes", len(out))
			}
			return
		}
		if c.Op.Pkt == "stalefit" {
			// a payload attached to a packet whose header says "no payload": refusing it or writing the packet without
			// it are both fine - what reaches the writer is one whole packet or nothing (alignment is checked above)
			if c.Err == nil && len(out) != 188 {
				add("C04", "accepted-packet-not-188-bytes:"+c.Op.Pkt, "accepted packet delivered %d bytes", len(out))
			}
			return
		}
		if valid && (c.Err != nil || len(out) != 188) {
			add("C04", "valid-packet-rejected:"+c.Op.Pkt, "valid packet: n=%d err=%v", c.N, c.Err)
		}
		if !valid && c.Err == nil {
			add("C04", "oversize-packet-accepted:"+c.Op.Pkt, "packet that cannot fit 188 bytes was accepted")
		}
		return
	}

	// ---- tables / data: what may or must be emitted ------------------------------------
	tablesPossible := m.pcrValid() && m.pmtFits()
	isData := c.Op.K == "data"
	known := true
	if isData {
		known = m.find(c.PID) >= 0
		if !known {
			if !errors.Is(c.Err, astits.ErrPIDNotFound) {
				add("C04", "unknown-pid-accepted", "WriteData on an unknown PID returned %v", c.Err)
			}
			m.Hi++ // a failed call may or may not count towards the period
			return
		}
	}
	forced := isData && c.AF != nil && c.AF.RandomAccessIndicator && c.PID == m.PCR
	must, may := true, true
	if isData {
		must = forced || m.Lo+1 >= m.Period
		may = must || m.Hi+1 >= m.Period
	}
	// split the call's packets into leading table packets and ES packets
	nt := 0
	for nt < len(ps) && ps[nt] != nil && (ps[nt].PID == 0 || ps[nt].PID == 0x1000) {
		nt++
	}
	emitted := nt > 0
	if unwritable && known && c.Err != nil {
		// (a call that is accepted although its adaptation field cannot be written is C01's subject: the field is
		// dropped, known finding af-no-room-dropped; here the output only has to be whole packets)
		{
			if len(ps) != nt || !okDecode {
				add("C04", "rejected-call-left-bytes:data:", "call failed (%v) but left packets of the unit (or a partial packet) in the output", c.Err)
			}
			if emitted && tablesPossible && may && nt == 2 && okDecode && ps[0].PID == 0 && ps[1].PID == 0x1000 {
				m.checkTables(h, c, ps[0], ps[1], add)
				m.Lo, m.Hi = 0, 0
			} else if emitted {
				add("C17", "tables-unexpected", "a refused call wrote %d table packets (due=%v possible=%v)", nt, may, tablesPossible)
			} else {
				m.Hi++
			}
			return
		}
	}
	if c.Err != nil {
		// failure: legitimate only if tables had to (or could) be generated and cannot be
		if tablesPossible || !may {
			add("C17", "unexpected-error:"+c.Op.K, "call failed with %v although pcrValid=%v pmtFits=%v may=%v", c.Err, m.pcrValid(), m.pmtFits(), may)
		}
		if !tablesPossible && may {
			// driver-side facts for the K3 classifiers: which counters a failed generation burns
			// (kept modulo the counter widths: only the residue is observable)
			m.FailedGenSincePAT = (m.FailedGenSincePAT + 1) % 16
			if m.pcrValid() && !m.pmtFits() {
				m.OversizeSincePMT = (m.OversizeSincePMT + 1) % 16
				if m.Dirty {
					m.OversizeDirtySince = (m.OversizeDirtySince + 1) % 32
				}
			}
		}
		if isData {
			m.Hi++
		}
		return
	}
	if !okDecode {
		return // C04 already reported; the model cannot follow undecodable output
	}
	if must && !emitted {
		add("C17", "tables-missing:"+c.Op.K, "PAT/PMT due (forced=%v lo=%d hi=%d period=%d first=%v) but not emitted", forced, m.Lo, m.Hi, m.Period, !m.AnyPES)
	}
	if !may && emitted {
		add("C17", "tables-unexpected", "PAT/PMT emitted although not due (lo=%d hi=%d period=%d)", m.Lo, m.Hi, m.Period)
	}
	if emitted && !tablesPossible {
		add("C17", "tables-emitted-invalid-config", "tables emitted with pcrValid=%v pmtFits=%v", m.pcrValid(), m.pmtFits())
		add("C04", "invalid-table-configuration-accepted", "a call that has to be rejected (PCR PID valid=%v, PMT fits one packet=%v) wrote tables", m.pcrValid(), m.pmtFits())
	}
	if emitted {
		if nt != 2 || ps[0].PID != 0 || ps[1].PID != 0x1000 {
			add("C17", "table-pair-shape", "expected exactly PAT then PMT, got %d table packets", nt)
			add("C04", "table-pair-shape", "expected exactly one PAT and one PMT packet (each a complete unit), got %d table packets", nt)
		} else {
			m.checkTables(h, c, ps[0], ps[1], add)
		}
		if isData {
			m.Lo, m.Hi = 0, 0
		}
	} else if isData {
		m.Lo++
		m.Hi++
	}
	if !isData {
		if len(ps) != nt {
			add("C17", "writetables-extra-packets", "WriteTables produced %d non-table packets", len(ps)-nt)
		}
		if !m.AnyPES {
			m.Lo = 0 // tables already precede the first PES: a further pair is allowed, not required
		}
		return
	}

	// ---- ES packets of a WriteData call -------------------------------------------------
	es := ps[nt:]
	if len(es) == 0 && len(c.Payload) > 0 {
		add("C04", "no-pes-packets", "successful WriteData produced no PES packet")
	}
	if len(c.Payload) == 0 {
		// no PES data: the library writes nothing for the stream itself (payload lengths >= 1 are the domain
		// of the round trip, C01); whatever it writes must still be whole, decodable packets of that PID,
		// and a packet without payload must not take a continuity counter value
		for k, p := range es {
			if p.PID != c.PID {
				add("C04", "foreign-pid-in-call", "packet %d has PID %#x, expected %#x", k, p.PID, c.PID)
			}
			if p.HasPL {
				m.ccCheck(p, c, true, add)
			}
		}
		return
	}
	first := true
	for k, p := range es {
		if p.PID != c.PID {
			add("C04", "foreign-pid-in-call", "packet %d has PID %#x, expected %#x", k, p.PID, c.PID)
			continue
		}
		if p.HasPL {
			if first != p.PUSI {
				add("C04", "pusi-placement", "packet %d: payload_unit_start=%v, first payload packet=%v", k, p.PUSI, first)
			}
			if first && !ref.IsPESStart(p.Payload) {
				add("C04", "pes-start-code-missing", "first payload packet does not start with 00 00 01")
			}
			first = false
		} else if p.PUSI {
			add("C04", "pusi-without-payload", "packet %d", k)
		}
		m.ccCheck(p, c, k == 0, add)
	}
	m.AnyPES = true
	return
}

// ccCheck is the C05 monitor for one Muxer-emitted packet.
func (m *MuxMon) ccCheck(p *ref.Pkt, c *MCall, firstOfCall bool, add func(prop, sig, f string, a ...any)) {
	last, ok := m.LastCC[p.PID]
	if ok {
		want := last
		if p.HasPL {
			want = (last + 1) % 16
		}
		if int(p.CC) != want {
			gap := (int(p.CC) - want + 16) % 16
			sig := fmt.Sprintf("cc-gap:pid-class=%s", pidClass(p.PID))
			switch {
			case p.PID == 0 && m.FailedGenSincePAT > 0 && gap == m.FailedGenSincePAT:
				sig = "pat-cc-burnt-by-failed-table-generation"
			case p.PID == 0x1000 && m.OversizeSincePMT > 0 && gap == m.OversizeSincePMT:
				sig = "pmt-cc-burnt-by-oversized-pmt"
			case p.PID != 0 && p.PID != 0x1000 && firstOfCall && gap == 1 && afLeavesNoRoom(c):
				sig = "wd-first-af-leaves-no-room-for-pes-header"
			}
			add("C05", sig, "PID %#x: continuity_counter %d after %d (payload=%v), expected %d", p.PID, p.CC, last, p.HasPL, want)
		}
	}
	if p.HasPL || !ok {
		m.LastCC[p.PID] = int(p.CC) // resynchronise so that exploration continues past a finding
	}
}

func pidClass(p uint16) string {
	switch p {
	case 0:
		return "PAT"
	case 0x1000:
		return "PMT"
	}
	return "ES"
}

// checkTables verifies one emitted PAT/PMT pair against the model (C17) and feeds C05/C04.
func (m *MuxMon) checkTables(h *MuxH, c *MCall, pat, pmt *ref.Pkt, add func(prop, sig, f string, a ...any)) {
	for _, p := range []*ref.Pkt{pat, pmt} {
		if !p.PUSI || !p.HasPL {
			add("C04", "table-packet-flags", "table packet PID %#x: PUSI=%v payload=%v", p.PID, p.PUSI, p.HasPL)
			return
		}
		m.ccCheck(p, c, false, add)
	}
	m.FailedGenSincePAT = 0
	// PAT
	secs, framed := ref.ParseUnit(pat.Payload)
	if !framed || len(secs) != 1 || !secs[0].Complete || secs[0].Kind != "PAT" || !secs[0].CRCOK {
		add("C04", "pat-section-malformed", "PAT payload is not one well-formed section with a valid CRC")
		add("C17", "pat-section-malformed", "PAT payload is not one well-formed section with a valid CRC")
	} else {
		s := secs[0]
		es, ok := ref.DecodePAT(s.Body)
		if !ok || len(es) != 1 || es[0].Number != 1 || es[0].PID != 0x1000 {
			add("C17", "pat-content", "PAT does not map program 1 to PID 0x1000: %v", es)
		}
		if m.LastPATVer >= 0 && int(s.Hdr.Version) != m.LastPATVer {
			add("C17", "pat-version-changed", "PAT version %d -> %d although its content is constant", m.LastPATVer, s.Hdr.Version)
		}
		m.LastPATVer = int(s.Hdr.Version)
		if !allFF(pat.Payload[1+int(pat.Payload[0])+len(s.Bytes):]) {
			add("C04", "table-padding", "PAT packet padding is not 0xFF")
		}
	}
	// PMT
	secs, framed = ref.ParseUnit(pmt.Payload)
	oversizeDirty := m.OversizeDirtySince
	m.OversizeSincePMT, m.OversizeDirtySince = 0, 0
	if !framed || len(secs) != 1 || !secs[0].Complete || secs[0].Kind != "PMT" || !secs[0].CRCOK {
		add("C04", "pmt-section-malformed", "PMT payload is not one well-formed section with a valid CRC")
		add("C17", "pmt-section-malformed", "PMT payload is not one well-formed section with a valid CRC")
		return
	}
	s := secs[0]
	want := m.expectedPMT(s.Hdr.Version)
	if !bytes.Equal(want, s.Bytes) {
		add("C17", "pmt-content", "PMT section differs from the reference encoding of the current configuration\n got  %x\n want %x", s.Bytes, want)
	}
	if m.LastPMTVer >= 0 {
		exp := m.LastPMTVer
		if m.Dirty {
			exp = (exp + 1) % 32
		}
		if int(s.Hdr.Version) != exp {
			sig := "pmt-version"
			if m.Dirty && oversizeDirty > 0 && int(s.Hdr.Version) == (exp+oversizeDirty)%32 {
				sig = "pmt-version-skips-after-oversized-pmt-failure"
			}
			add("C17", sig, "PMT version %d after %d with content-changed=%v, expected %d", s.Hdr.Version, m.LastPMTVer, m.Dirty, exp)
		}
	}
	m.LastPMTVer = int(s.Hdr.Version)
	m.Dirty = false
	if !allFF(pmt.Payload[1+int(pmt.Payload[0])+len(s.Bytes):]) {
		add("C04", "table-padding", "PMT packet padding is not 0xFF")
	}
}

func allFF(b []byte) bool {
	for _, x := range b {
		if x != 0xff {
			return false
		}
	}
	return true
}

func sortedPIDs(m map[uint16]int) []uint16 {
	var ks []uint16
	for k := range m {
		ks = append(ks, k)
	}
	sort.Slice(ks, func(a, b int) bool { return ks[a] < ks[b] })
	return ks
}
