package checks

import (
	"fmt"
	"reflect"
	"time"

	astits "github.com/asticode/go-astits"
	"verif/mc"
	"verif/ref"
)

// ---------------------------------------------------------------------------------------
// Reference multiplexer: units (PES packets, PSI units) -> TS packets with a chosen
// packetisation. The expected demuxer output is known by construction.

// ExpData is one datum the demuxer is expected to deliver.
type ExpData struct {
	Kind     string // PES PAT PMT SDT NIT EIT TOT
	PID      uint16
	Payload  []byte // PES
	StreamID uint8  // PES
	PTS      *uint64
	Table    any // *astits.PATData ... for tables
}

func (e ExpData) String() string {
	if e.Kind == "PES" {
		return fmt.Sprintf("PES(pid=%#x,id=%#x,%d bytes)", e.PID, e.StreamID, len(e.Payload))
	}
	return fmt.Sprintf("%s(pid=%#x)", e.Kind, e.PID)
}

// Matches reports whether a delivered datum is the expected one.
func (e ExpData) Matches(d *astits.DemuxerData) (bool, string) {
	if d.PID != e.PID {
		return false, fmt.Sprintf("PID %#x, want %#x", d.PID, e.PID)
	}
	if k := dataKind(d); k != e.Kind {
		return false, fmt.Sprintf("kind %s, want %s", k, e.Kind)
	}
	if d.FirstPacket == nil || d.FirstPacket.Header.PID != e.PID {
		return false, "FirstPacket missing or of another PID"
	}
	switch e.Kind {
	case "PES":
		if string(d.PES.Data) != string(e.Payload) {
			return false, fmt.Sprintf("payload differs (%d bytes, want %d)", len(d.PES.Data), len(e.Payload))
		}
		if d.PES.Header.StreamID != e.StreamID {
			return false, "stream id differs"
		}
		if e.PTS != nil && (d.PES.Header.OptionalHeader == nil || d.PES.Header.OptionalHeader.PTS == nil || uint64(d.PES.Header.OptionalHeader.PTS.Base) != *e.PTS) {
			return false, "PTS differs"
		}
		return true, ""
	case "PAT":
		return semEqMsg(d.PAT, e.Table)
	case "PMT":
		return semEqMsg(d.PMT, e.Table)
	case "SDT":
		return semEqMsg(d.SDT, e.Table)
	case "NIT":
		return semEqMsg(d.NIT, e.Table)
	case "EIT":
		return semEqMsg(d.EIT, e.Table)
	case "TOT":
		return semEqMsg(d.TOT, e.Table)
	}
	return false, "unknown kind"
}

func semEqMsg(got, want any) (bool, string) {
	g, w := mc.CanonValue(got), mc.CanonValue(want)
	if g == w {
		return true, ""
	}
	return false, "table content differs\n got  " + g + "\n want " + w
}

// SUnit is one payload unit of one PID.
type SUnit struct {
	PID   uint16
	PSI   bool
	Bytes []byte
	Exp   []ExpData
	AF    *ref.AF // optional adaptation field content for the first packet
}

// PESUnit builds a PES packet unit. bounded: PES_packet_length exact (audio id), else 0.
func PESUnit(pid uint16, sid uint8, payload []byte, pts uint64, bounded bool) SUnit {
	h := &ref.PESHdr{StreamID: sid, PTS: &pts}
	l := ref.LenZero
	if bounded {
		l = ref.LenExact
	}
	return SUnit{PID: pid, Bytes: h.Encode(payload, l), Exp: []ExpData{{Kind: "PES", PID: pid, Payload: payload, StreamID: sid, PTS: &pts}}}
}

// PSIUnit builds pointer_field + filler + sections.
func PSIUnit(pid uint16, pointer int, secs [][]byte, exps []ExpData) SUnit {
	b := []byte{byte(pointer)}
	for i := 0; i < pointer; i++ {
		b = append(b, 0x00)
	}
	for _, s := range secs {
		b = append(b, s...)
	}
	for i := range exps {
		exps[i].PID = pid
	}
	return SUnit{PID: pid, PSI: true, Bytes: b, Exp: exps}
}

// stuffAF returns an adaptation field of exactly size bytes (size >= 1) around base content.
func stuffAF(base *ref.AF, size int) *ref.AF {
	if base == nil {
		if size == 1 {
			return &ref.AF{Zero: true}
		}
		return &ref.AF{Stuffing: size - 2}
	}
	a := *base
	a.Stuffing = 0
	bs := a.Size()
	if size < bs {
		panic("stuffAF: adaptation field does not fit")
	}
	a.Stuffing = size - bs
	return &a
}

// Packetize splits a unit into packets. chunks lists how many unit bytes each packet carries
// (nil = greedy); padFF pads the last packet of a PSI unit with 0xFF payload bytes instead of
// adaptation-field stuffing. cc is the continuity counter of the PID, advanced per packet.
func Packetize(u SUnit, chunks []int, cc *uint8, padFF bool) []*ref.Pkt {
	var ps []*ref.Pkt
	rest := u.Bytes
	for k := 0; len(rest) > 0; k++ {
		room := 184
		var af *ref.AF
		if k == 0 && u.AF != nil {
			af = u.AF
			room -= af.Size()
		}
		n := room
		if chunks != nil && k < len(chunks) && chunks[k] > 0 && chunks[k] < room {
			n = chunks[k] // 0 or >= room means greedy
		}
		if n > len(rest) {
			n = len(rest)
		}
		p := &ref.Pkt{PID: u.PID, PUSI: k == 0, HasPL: true, CC: *cc & 0xf}
		*cc = (*cc + 1) & 0xf
		pl := append([]byte{}, rest[:n]...)
		last := n == len(rest)
		if n < room {
			if padFF && u.PSI && last {
				for len(pl) < room {
					pl = append(pl, 0xff)
				}
			} else {
				afSize := 184 - n
				af = stuffAF(af, afSize)
			}
		}
		if af != nil {
			p.HasAF, p.AF = true, af
		}
		p.Payload = pl
		ps = append(ps, p)
		rest = rest[n:]
	}
	return ps
}

// Stream is a complete transport stream with its expected per-PID output.
type Stream struct {
	Name  string
	Pkts  []*ref.Pkt
	Bytes []byte
	Exp   map[uint16][]ExpData
}

// Encode serialises packets.
func EncodePkts(ps []*ref.Pkt) []byte {
	b := make([]byte, 0, len(ps)*188)
	for _, p := range ps {
		b = append(b, p.Encode()...)
	}
	return b
}

// BuildStream merges per-PID packet lists in the given order (order[i] = index of the PID
// list the i-th packet is taken from).
func BuildStream(name string, lists [][]*ref.Pkt, order []int, exp map[uint16][]ExpData) *Stream {
	pos := make([]int, len(lists))
	var ps []*ref.Pkt
	for _, s := range order {
		ps = append(ps, lists[s][pos[s]])
		pos[s]++
	}
	return &Stream{Name: name, Pkts: ps, Bytes: EncodePkts(ps), Exp: exp}
}

// CompareOutput checks delivered data against the expected per-PID sequences.
func CompareOutput(exp map[uint16][]ExpData, out *DmxOut) (sig, msg string) {
	if out.Panic != nil {
		return "panic", fmt.Sprintf("panic: %v", out.Panic)
	}
	if len(out.Errs) > 0 {
		return "error-on-wellformed-stream", fmt.Sprintf("NextData returned an error on a well-formed stream: %v", out.Errs[0])
	}
	if !out.EOF {
		return "no-eof", "ErrNoMorePackets never reached"
	}
	got := byPID(out.Data)
	for pid, es := range exp {
		ds := got[pid]
		for k := 0; k < len(es) || k < len(ds); k++ {
			if k >= len(ds) {
				sig := "unit-missing"
				if k == len(es)-1 {
					sig = "last-unit-missing"
				}
				return sig, fmt.Sprintf("PID %#x: expected datum %d %s was not delivered (%d delivered)", pid, k, es[k], len(ds))
			}
			if k >= len(es) {
				return "unit-extra", fmt.Sprintf("PID %#x: %d data delivered, %d expected; extra %s", pid, len(ds), len(es), dataKind(ds[k]))
			}
			if ok, why := es[k].Matches(ds[k]); !ok {
				return "unit-differs:" + es[k].Kind, fmt.Sprintf("PID %#x datum %d (%s): %s", pid, k, es[k], why)
			}
		}
	}
	for pid, ds := range got {
		if _, ok := exp[pid]; !ok && len(ds) > 0 {
			return "foreign-pid", fmt.Sprintf("PID %#x delivered %d data but carries no unit", pid, len(ds))
		}
	}
	return "", ""
}

// ---------------------------------------------------------------------------------------
// Table model values (library structs as value carriers) and their reference encodings.

func fixLens(ds []*astits.Descriptor) []*astits.Descriptor {
	for _, d := range ds {
		d.Length = uint8(len(ref.DescBody(d)))
	}
	return ds
}

func SecPAT(d *astits.PATData, h ref.SecHdr) []byte {
	var es []ref.PATEntry
	for _, p := range d.Programs {
		es = append(es, ref.PATEntry{Number: p.ProgramNumber, PID: p.ProgramMapID})
	}
	h.TableID, h.Ext, h.SSI = 0x00, d.TransportStreamID, true
	return ref.Long(h, ref.PATBody(es))
}

func SecPMT(d *astits.PMTData, h ref.SecHdr) []byte {
	var ss []ref.PMTStream
	for _, e := range d.ElementaryStreams {
		ss = append(ss, ref.PMTStream{Type: uint8(e.StreamType), PID: e.ElementaryPID, Descs: ref.DescLoop(e.ElementaryStreamDescriptors)})
	}
	h.TableID, h.Ext, h.SSI = 0x02, d.ProgramNumber, true
	return ref.Long(h, ref.PMTBody(d.PCRPID, ref.DescLoop(d.ProgramDescriptors), ss))
}

func SecSDT(d *astits.SDTData, h ref.SecHdr) []byte {
	var ss []ref.SDTService
	for _, s := range d.Services {
		ss = append(ss, ref.SDTService{ID: s.ServiceID, EITSched: s.HasEITSchedule, EITPF: s.HasEITPresentFollowing, Running: s.RunningStatus, FreeCA: s.HasFreeCSAMode, Descs: ref.DescLoop(s.Descriptors)})
	}
	if h.TableID == 0 {
		h.TableID = 0x42
	}
	h.Ext, h.SSI, h.Private = d.TransportStreamID, true, true
	return ref.Long(h, ref.SDTBody(d.OriginalNetworkID, ss))
}

func SecNIT(d *astits.NITData, h ref.SecHdr) []byte {
	var ts []ref.NITTS
	for _, t := range d.TransportStreams {
		ts = append(ts, ref.NITTS{TSID: t.TransportStreamID, ONID: t.OriginalNetworkID, Descs: ref.DescLoop(t.TransportDescriptors)})
	}
	if h.TableID == 0 {
		h.TableID = 0x40
	}
	h.Ext, h.SSI, h.Private = d.NetworkID, true, true
	return ref.Long(h, ref.NITBody(ref.DescLoop(d.NetworkDescriptors), ts))
}

func SecEIT(d *astits.EITData, h ref.SecHdr) []byte {
	var es []ref.EITEvent
	for _, e := range d.Events {
		es = append(es, ref.EITEvent{ID: e.EventID, Start: ref.DVBTime(e.StartTime), Duration: ref.DurationHMS(e.Duration), Running: e.RunningStatus, FreeCA: e.HasFreeCSAMode, Descs: ref.DescLoop(e.Descriptors)})
	}
	if h.TableID == 0 {
		h.TableID = 0x4e
	}
	h.Ext, h.SSI, h.Private = d.ServiceID, true, true
	return ref.Long(h, ref.EITBody(d.TransportStreamID, d.OriginalNetworkID, d.SegmentLastSectionNumber, d.LastTableID, es))
}

func SecTOT(d *astits.TOTData) []byte {
	return ref.Short(0x73, false, true, ref.TOTBody(ref.DVBTime(d.UTCTime), ref.DescLoop(d.Descriptors)), true)
}

// A small library of model tables.
func modelPAT(progs ...uint16) *astits.PATData {
	d := &astits.PATData{TransportStreamID: 0x1234}
	for i := 0; i+1 < len(progs); i += 2 {
		d.Programs = append(d.Programs, &astits.PATProgram{ProgramNumber: progs[i], ProgramMapID: progs[i+1]})
	}
	return d
}

func modelPMT(prog uint16, pcr uint16, n int) *astits.PMTData {
	d := &astits.PMTData{ProgramNumber: prog, PCRPID: pcr}
	d.ProgramDescriptors = fixLens([]*astits.Descriptor{{Tag: 0x0e, MaximumBitrate: &astits.DescriptorMaximumBitrate{Bitrate: 50 * 0x12345}}})
	for i := 0; i < n; i++ {
		es := &astits.PMTElementaryStream{ElementaryPID: uint16(0x100 + i), StreamType: astits.StreamTypeH264Video}
		switch i % 3 {
		case 1:
			es.StreamType = astits.StreamTypeAACAudio
			es.ElementaryStreamDescriptors = fixLens([]*astits.Descriptor{{Tag: 0x0a, ISO639LanguageAndAudioType: &astits.DescriptorISO639LanguageAndAudioType{Language: []byte("fra"), Type: 3}}})
		case 2:
			es.StreamType = astits.StreamTypePrivateData
			es.ElementaryStreamDescriptors = fixLens([]*astits.Descriptor{
				{Tag: 0x52, StreamIdentifier: &astits.DescriptorStreamIdentifier{ComponentTag: uint8(i)}},
				{Tag: 0x59, Subtitling: &astits.DescriptorSubtitling{Items: []*astits.DescriptorSubtitlingItem{{Language: []byte("deu"), Type: 0x10, CompositionPageID: 0x1122, AncillaryPageID: 0x3344}}}}})
		}
		d.ElementaryStreams = append(d.ElementaryStreams, es)
	}
	return d
}

func modelSDT(n int) *astits.SDTData {
	d := &astits.SDTData{TransportStreamID: 0x0102, OriginalNetworkID: 0xfffe}
	for i := 0; i < n; i++ {
		d.Services = append(d.Services, &astits.SDTDataService{ServiceID: uint16(0x1000 + i), HasEITSchedule: i%2 == 0, HasEITPresentFollowing: i%3 == 0, RunningStatus: uint8(i % 8), HasFreeCSAMode: i%2 == 1,
			Descriptors: fixLens([]*astits.Descriptor{{Tag: 0x48, Service: &astits.DescriptorService{Type: 1, Provider: []byte(fmt.Sprintf("prov%d", i)), Name: []byte(fmt.Sprintf("service number %d", i))}}})})
	}
	return d
}

func modelNIT(n int) *astits.NITData {
	d := &astits.NITData{NetworkID: 0x3001}
	d.NetworkDescriptors = fixLens([]*astits.Descriptor{{Tag: 0x40, NetworkName: &astits.DescriptorNetworkName{Name: []byte("verif-net")}}})
	for i := 0; i < n; i++ {
		d.TransportStreams = append(d.TransportStreams, &astits.NITDataTransportStream{TransportStreamID: uint16(i + 1), OriginalNetworkID: 0x2000,
			TransportDescriptors: fixLens([]*astits.Descriptor{{Tag: 0x5f, PrivateDataSpecifier: &astits.DescriptorPrivateDataSpecifier{Specifier: 0xdeadbeef}}})})
	}
	return d
}

func modelEIT(n int) *astits.EITData {
	d := &astits.EITData{ServiceID: 0x0501, TransportStreamID: 0x0102, OriginalNetworkID: 0x2000, SegmentLastSectionNumber: 1, LastTableID: 0x4e}
	for i := 0; i < n; i++ {
		d.Events = append(d.Events, &astits.EITDataEvent{EventID: uint16(0x4000 + i), StartTime: time.Date(2021, time.Month(1+i%12), 28, 23, 59, 58, 0, time.UTC),
			Duration: time.Duration(i+1)*time.Hour + 30*time.Minute + 15*time.Second, RunningStatus: uint8((i + 1) % 8), HasFreeCSAMode: i%2 == 0,
			Descriptors: fixLens([]*astits.Descriptor{{Tag: 0x4d, ShortEvent: &astits.DescriptorShortEvent{Language: []byte("eng"), EventName: []byte("event"), Text: []byte(fmt.Sprintf("text %d", i))}}})})
	}
	return d
}

func modelTOT() *astits.TOTData {
	return &astits.TOTData{UTCTime: time.Date(2020, 2, 29, 12, 34, 56, 0, time.UTC),
		Descriptors: fixLens([]*astits.Descriptor{{Tag: 0x58, LocalTimeOffset: &astits.DescriptorLocalTimeOffset{Items: []*astits.DescriptorLocalTimeOffsetItem{{
			CountryCode: []byte("FRA"), CountryRegionID: 0x2a, LocalTimeOffsetPolarity: true, LocalTimeOffset: 2 * time.Hour, TimeOfChange: time.Date(2020, 10, 25, 1, 0, 0, 0, time.UTC), NextTimeOffset: time.Hour}}}}})}
}

// pesPayload: deterministic payload without 00/01/47 bytes, tagged with an index.
func pesPayload(tag, n int, seed int64) []byte { return payloadFor(tag, n, seed) }

// StandardStreams returns small multi-PID streams (PAT before PMT) with known output, used
// as base streams by the fault/reader/option checks.
func StandardStreams(seed int64) []*Stream {
	var out []*Stream
	{ // PAT, PMT, video (unbounded) and audio (bounded) PES, interleaved
		cc := map[uint16]*uint8{0: new(uint8), 0x1000: new(uint8), 0x100: new(uint8), 0x101: new(uint8)}
		pat, pmt := modelPAT(0, 0x10, 1, 0x1000), modelPMT(1, 0x100, 2) // network entry (program_number 0) in front of the programme
		uPAT := PSIUnit(0, 0, [][]byte{SecPAT(pat, ref.SecHdr{CNI: true})}, []ExpData{{Kind: "PAT", Table: pat}})
		uPMT := PSIUnit(0x1000, 0, [][]byte{SecPMT(pmt, ref.SecHdr{CNI: true, Version: 3})}, []ExpData{{Kind: "PMT", Table: pmt}})
		v1 := PESUnit(0x100, 0xe0, pesPayload(1, 300, seed), 90000, false)
		v1.AF = &ref.AF{RAI: true, PCR: &ref.PCR{Base: 12345, Ext: 7}}
		v2 := PESUnit(0x100, 0xe0, pesPayload(2, 170, seed), 93600, false)
		a1 := PESUnit(0x101, 0xc0, pesPayload(3, 200, seed), 90000, true)
		a2 := PESUnit(0x101, 0xc0, pesPayload(4, 20, seed), 91920, true)
		lists := [][]*ref.Pkt{
			append(Packetize(uPAT, nil, cc[0], true), Packetize(uPAT, nil, cc[0], true)...),
			append(Packetize(uPMT, nil, cc[0x1000], true), Packetize(uPMT, nil, cc[0x1000], true)...),
			append(Packetize(v1, nil, cc[0x100], false), Packetize(v2, nil, cc[0x100], false)...),
			append(Packetize(a1, nil, cc[0x101], false), Packetize(a2, nil, cc[0x101], false)...),
		}
		exp := map[uint16][]ExpData{0: {uPAT.Exp[0], uPAT.Exp[0]}, 0x1000: {uPMT.Exp[0], uPMT.Exp[0]},
			0x100: {v1.Exp[0], v2.Exp[0]}, 0x101: {a1.Exp[0], a2.Exp[0]}}
		// PAT PMT v v a a PAT PMT v a
		order := []int{0, 1, 2, 2, 3, 3, 0, 1, 2, 3}
		out = append(out, BuildStream("pat-pmt-video-audio", lists, order, exp))
	}
	{ // DVB SI tables, multi-section and multi-packet, plus one PES PID
		cc := map[uint16]*uint8{0x10: new(uint8), 0x11: new(uint8), 0x12: new(uint8), 0x14: new(uint8), 0x200: new(uint8)}
		*cc[0x11] = 14 // continuity counter wraps inside the SDT unit
		sdtA, sdtB := modelSDT(3), modelSDT(1)
		nit, eit, tot := modelNIT(2), modelEIT(2), modelTOT()
		uSDT := PSIUnit(0x11, 0, [][]byte{SecSDT(sdtA, ref.SecHdr{CNI: true, LSN: 1}), SecSDT(sdtB, ref.SecHdr{TableID: 0x46, CNI: true, SN: 1, LSN: 1})},
			[]ExpData{{Kind: "SDT", Table: sdtA}, {Kind: "SDT", Table: sdtB}})
		uNIT := PSIUnit(0x10, 2, [][]byte{SecNIT(nit, ref.SecHdr{CNI: true, Version: 31})}, []ExpData{{Kind: "NIT", Table: nit}})
		uEIT := PSIUnit(0x12, 0, [][]byte{SecEIT(eit, ref.SecHdr{TableID: 0x50, CNI: true})}, []ExpData{{Kind: "EIT", Table: eit}})
		uTOT := PSIUnit(0x14, 0, [][]byte{SecTOT(tot)}, []ExpData{{Kind: "TOT", Table: tot}})
		p1 := PESUnit(0x200, 0xbd, pesPayload(9, 400, seed), 1, true)
		lists := [][]*ref.Pkt{Packetize(uSDT, nil, cc[0x11], true), Packetize(uNIT, nil, cc[0x10], true), Packetize(uEIT, nil, cc[0x12], false),
			Packetize(uTOT, nil, cc[0x14], true), Packetize(p1, nil, cc[0x200], false)}
		var order []int
		for i, l := range lists {
			for range l {
				order = append(order, i)
			}
		}
		// interleave: rotate through the lists
		order = roundRobin(lists)
		exp := map[uint16][]ExpData{0x11: uSDT.Exp, 0x10: uNIT.Exp, 0x12: uEIT.Exp, 0x14: uTOT.Exp, 0x200: p1.Exp}
		out = append(out, BuildStream("dvb-si-tables", lists, order, exp))
	}
	return out
}

func roundRobin(lists [][]*ref.Pkt) []int {
	pos := make([]int, len(lists))
	var order []int
	for {
		any := false
		for i, l := range lists {
			if pos[i] < len(l) {
				order = append(order, i)
				pos[i]++
				any = true
			}
		}
		if !any {
			return order
		}
	}
}

// BigPayloadStream: PES units larger than the pooled buffer's initial capacity (1024) followed
// by small ones, on two PIDs, so that buffer growth and stale lengths are exercised.
func BigPayloadStream(seed int64) []byte {
	cc := []uint8{0, 8}
	var lists [][]*ref.Pkt
	var a, b []*ref.Pkt
	for i, n := range []int{1500, 40, 2300, 7} {
		a = append(a, Packetize(PESUnit(0x120, 0xe0, pesPayload(60+i, n, seed), uint64(i), false), nil, &cc[0], false)...)
	}
	for i, n := range []int{30, 1100, 5} {
		b = append(b, Packetize(PESUnit(0x121, 0xc1, pesPayload(70+i, n, seed), uint64(i), true), nil, &cc[1], false)...)
	}
	lists = append(lists, a, b)
	return BuildStream("big", lists, roundRobin(lists), nil).Bytes
}

// PoolBoundaryStream: PES units whose size - with and without the PES header - straddles the pooled
// reassembly buffer's initial capacity (1024 bytes), each followed by a small unit that reuses the buffer.
func PoolBoundaryStream(seed int64) []byte {
	cc := []uint8{3, 9}
	var a, b []*ref.Pkt
	for i, n := range []int{1009, 20, 1010, 21, 1011, 22, 1023, 23, 1024, 24, 1025, 25, 1038, 26} {
		a = append(a, Packetize(PESUnit(0x130, 0xe0, pesPayload(110+i, n, seed), uint64(i), false), nil, &cc[0], false)...)
	}
	for i, n := range []int{1015, 30, 1024, 31, 1004, 32} {
		b = append(b, Packetize(PESUnit(0x131, 0xc0, pesPayload(130+i, n, seed), uint64(i), true), nil, &cc[1], false)...)
	}
	lists := [][]*ref.Pkt{a, b}
	return BuildStream("pool-boundary", lists, roundRobin(lists), nil).Bytes
}

// RetainedSlicesStreams returns streams whose units make the parsers return every kind of
// retained byte slice (PES extension private data, extension-2 data, adaptation-field
// private data, descriptor names/texts/items of every family): used by C16's immutability
// monitor - an alias of a reused or pooled buffer in any of them shows as a later mutation.
func RetainedSlicesStreams(seed int64) (pesFull, zoo []byte) {
	// PES with full optional headers
	{
		cc := []uint8{3, 11}
		var a, b []*ref.Pkt
		for i := 0; i < 3; i++ {
			pts, dts := uint64(1000+i), uint64(900+i)
			rate, ci := uint32(0x12345+i), uint8(0x21+i)
			h := &ref.PESHdr{StreamID: 0xe0, PTS: &pts, DTS: &dts, ESCR: &ref.PCR{Base: uint64(77 + i), Ext: 5}, ESRate: &rate, CopyInfo: &ci,
				Ext: &ref.PESExt{Private: fillBytes(16, byte(0x40+i)), Seq: &ref.PESSeq{Counter: uint8(i), MPEG1or2: 1, OrigStuff: 3}, PSTD: &ref.PSTD{Scale: 1, Size: 100}, HasExt2: true, Ext2: fillBytes(5+i, byte(0x70+i))}}
			u := SUnit{PID: 0x130, Bytes: h.Encode(pesPayload(80+i, 150+i*90, seed), ref.LenZero)}
			u.AF = &ref.AF{RAI: i == 0, HasPrivate: true, Private: fillBytes(4+i, byte(0x90+i))}
			a = append(a, Packetize(u, nil, &cc[0], false)...)
			h2 := &ref.PESHdr{StreamID: 0xbd, PTS: &pts, Ext: &ref.PESExt{Private: fillBytes(16, byte(0xa0+i))}}
			b = append(b, Packetize(SUnit{PID: 0x131, Bytes: h2.Encode(pesPayload(90+i, 60, seed), ref.LenExact)}, nil, &cc[1], false)...)
		}
		lists := [][]*ref.Pkt{a, b}
		pesFull = BuildStream("pes-full", lists, roundRobin(lists), nil).Bytes
	}
	// tables carrying one descriptor of every family
	{
		var all []*astits.Descriptor
		for _, g := range descGens {
			ds := g.Gen(false)
			d := *ds[len(ds)/2]
			if len(ref.DescBody(&d)) > 120 {
				d = *ds[1]
			}
			all = append(all, &d)
		}
		all = fixLens(all)
		eit := &astits.EITData{ServiceID: 1, TransportStreamID: 2, OriginalNetworkID: 3, LastTableID: 0x4e}
		for i := 0; i < len(all); i += 4 {
			j := i + 4
			if j > len(all) {
				j = len(all)
			}
			eit.Events = append(eit.Events, &astits.EITDataEvent{EventID: uint16(i), StartTime: time.Date(2022, 5, 6, 7, 8, 9, 0, time.UTC), Duration: time.Hour, RunningStatus: 4, Descriptors: all[i:j]})
		}
		sec := SecEIT(eit, ref.SecHdr{CNI: true})
		if len(sec) > 4096 {
			panic("descriptor zoo exceeds the EIT section limit")
		}
		// the same descriptors again in a later table, every byte string in them with bit 5 of each byte flipped ("eng" ->
		// "ENG", "prov" -> "PROV"): near-identical contents that a cache or an interning table keyed on a lossy
		// digest of the bytes takes for the earlier ones
		eit2 := &astits.EITData{ServiceID: 1, TransportStreamID: 2, OriginalNetworkID: 3, LastTableID: 0x4e}
		for _, ev := range eit.Events {
			e2 := *ev
			e2.Descriptors = nil
			for _, d := range ev.Descriptors {
				e2.Descriptors = append(e2.Descriptors, flipCaseBit(d))
			}
			eit2.Events = append(eit2.Events, &e2)
		}
		sec2 := SecEIT(eit2, ref.SecHdr{CNI: true, Version: 1})
		nit := modelNIT(2)
		sdt := modelSDT(4)
		tot := modelTOT()
		cc := []uint8{0, 5, 9, 13}
		lists := [][]*ref.Pkt{
			append(append(Packetize(PSIUnit(0x12, 0, [][]byte{sec}, nil), nil, &cc[0], true), Packetize(PSIUnit(0x12, 0, [][]byte{SecEIT(modelEIT(2), ref.SecHdr{CNI: true})}, nil), nil, &cc[0], true)...),
				Packetize(PSIUnit(0x12, 0, [][]byte{sec2}, nil), nil, &cc[0], true)...),
			Packetize(PSIUnit(0x10, 0, [][]byte{SecNIT(nit, ref.SecHdr{CNI: true})}, nil), nil, &cc[1], true),
			Packetize(PSIUnit(0x11, 0, [][]byte{SecSDT(sdt, ref.SecHdr{CNI: true})}, nil), nil, &cc[2], true),
			Packetize(PSIUnit(0x14, 0, [][]byte{SecTOT(tot)}, nil), nil, &cc[3], true),
		}
		zoo = BuildStream("descriptor-zoo", lists, roundRobin(lists), nil).Bytes
	}
	return
}

// TinyPayloadStream: PES units whose last packet carries only 1..12, 15, 16, 17 and 20 payload bytes
// (long adaptation-field stuffing), so that payload offsets close to the end of the packet occur.
func TinyPayloadStream(seed int64) *Stream {
	cc := uint8(6)
	var ps []*ref.Pkt
	exp := map[uint16][]ExpData{}
	for i, t := range []int{1, 2, 3, 4, 5, 6, 7, 8, 9, 10, 11, 12, 15, 16, 17, 20} {
		u := PESUnit(0x140, 0xe0, pesPayload(100+i, 184+t-14, seed), uint64(i), false)
		ps = append(ps, Packetize(u, nil, &cc, false)...)
		exp[0x140] = append(exp[0x140], u.Exp...)
	}
	return &Stream{Name: "tiny-last-payloads", Pkts: ps, Bytes: EncodePkts(ps), Exp: exp}
}

// PayloadLengthSweepStream: one PID whose packets carry every payload length from 184 down to 1 and back
// up (adaptation-field stuffing makes up the difference), each packet followed by more packets: how much of a
// packet is payload is independent of how large the packet is on the wire.
func PayloadLengthSweepStream(seed int64) *Stream {
	cc := uint8(3)
	var ps []*ref.Pkt
	exp := map[uint16][]ExpData{}
	mk := func(tag int, chunks []int) {
		n := 184
		for _, ch := range chunks {
			n += ch
		}
		u := PESUnit(0x150, 0xe0, pesPayload(tag, n+184-14, seed), uint64(tag), false)
		ps = append(ps, Packetize(u, append([]int{0}, chunks...), &cc, false)...)
		exp[0x150] = append(exp[0x150], u.Exp...)
	}
	var down, up []int
	for l := 183; l >= 1; l-- {
		down = append(down, l)
	}
	for l := 1; l <= 183; l++ {
		up = append(up, l)
	}
	mk(130, down)
	mk(131, up)
	return &Stream{Name: "payload-length-sweep", Pkts: ps, Bytes: EncodePkts(ps), Exp: exp}
}

// SyncLookalikeStream: 0x47 bytes in the four bytes that follow the second packet's sync byte
// (PID low byte 0x47, adaptation_field_length 0x47) and a pointer_field/payload byte 0x47: the
// packet-size heuristic must take the FIRST sync byte at or after offset 188.
func SyncLookalikeStream(seed int64) *Stream {
	cc := []uint8{1, 2}
	exp := map[uint16][]ExpData{}
	u0 := PESUnit(0x0047, 0xc0, pesPayload(120, 100, seed), 5, true)
	// second packet: PID 0x0047 (byte 2 = 0x47) and adaptation_field_length 0x47 (byte 4) through a 112-byte payload chunk
	u1 := PESUnit(0x0047, 0xc0, pesPayload(121, 184+112-14, seed), 6, true)
	u2 := PESUnit(0x1047, 0xe0, pesPayload(122, 60, seed), 7, false)
	var ps []*ref.Pkt
	ps = append(ps, Packetize(u0, nil, &cc[0], false)...)
	ps = append(ps, Packetize(u1, []int{112}, &cc[0], false)...)
	ps = append(ps, Packetize(u2, nil, &cc[1], false)...)
	exp[0x0047] = []ExpData{u0.Exp[0], u1.Exp[0]}
	exp[0x1047] = u2.Exp
	return &Stream{Name: "sync-lookalikes", Pkts: ps, Bytes: EncodePkts(ps), Exp: exp}
}

// flipCaseBit returns a deep copy of a descriptor in which every byte of every byte string has bit 5 flipped.
func flipCaseBit(d *astits.Descriptor) *astits.Descriptor {
	var walk func(v reflect.Value) reflect.Value
	walk = func(v reflect.Value) reflect.Value {
		switch v.Kind() {
		case reflect.Ptr:
			if v.IsNil() {
				return v
			}
			n := reflect.New(v.Type().Elem())
			n.Elem().Set(walk(v.Elem()))
			return n
		case reflect.Struct:
			n := reflect.New(v.Type()).Elem()
			n.Set(v)
			for i := 0; i < v.NumField(); i++ {
				if n.Field(i).CanSet() {
					n.Field(i).Set(walk(v.Field(i)))
				}
			}
			return n
		case reflect.Slice:
			if v.IsNil() {
				return v
			}
			n := reflect.MakeSlice(v.Type(), v.Len(), v.Len())
			for i := 0; i < v.Len(); i++ {
				if v.Type().Elem().Kind() == reflect.Uint8 {
					n.Index(i).SetUint(v.Index(i).Uint() ^ 0x20)
				} else {
					n.Index(i).Set(walk(v.Index(i)))
				}
			}
			return n
		}
		return v
	}
	return walk(reflect.ValueOf(d)).Interface().(*astits.Descriptor)
}
