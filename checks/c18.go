package checks

import (
	"bufio"
	"bytes"
	"context"
	"errors"
	"fmt"
	"io"
	"net"
	"os"
	"reflect"
	"syscall"

	astits "github.com/asticode/go-astits"
	"verif/mc"
)

func init() {
	register("C18", checkC18)
	Replayers["writer-fault"] = func(d map[string]any) error {
		var ops []MOp
		if err := reJSON(d["ops"], &ops); err != nil {
			return err
		}
		partial, _ := d["partial"].(bool)
		var errs []error
		if k, _ := d["error_kind"].(string); k != "" {
			errs = append(errs, c18ErrOf(k))
		}
		var more []int
		if m, ok := d["fail_more"]; ok {
			if err := reJSON(m, &more); err != nil {
				return err
			}
		}
		vs := writerFaults(ops, int(d["fail_at"].(float64)), more, d["permanent"].(bool), partial, errs...)
		for _, v := range vs {
			fmt.Printf("  [%s] %s\n", v.Sig, v.Msg)
		}
		if len(vs) > 0 {
			return fmt.Errorf("%s", vs[0].Msg)
		}
		return nil
	}
}

var errInjected = errors.New("verif: injected I/O failure")

func c18ErrOf(kind string) error {
	for _, k := range c18ErrKinds {
		if k.Name == kind {
			return k.Err
		}
	}
	return errInjected
}

// c18ErrKinds: the failure need not be an anonymous error value: readers and writers fail with the standard
// library's sentinel errors (a closed pipe or file, a reset connection, a deadline, a cancelled context). None of
// them is end-of-file.
var c18ErrKinds = []struct {
	Name string
	Err  error
}{
	{"closed-pipe", io.ErrClosedPipe},
	{"closed-file", &os.PathError{Op: "read", Path: "/dev/dvb/adapter0/dvr0", Err: os.ErrClosed}},
	{"connection-reset", &net.OpError{Op: "read", Net: "tcp", Err: syscall.ECONNRESET}},
	{"deadline", os.ErrDeadlineExceeded},
	{"cancelled", context.Canceled},
	{"no-progress", io.ErrNoProgress},
	{"short-write", io.ErrShortWrite},
}

// writerFault runs a history with the writer failing at Write index failAt and checks every
// call during which an injected error was returned.
func writerFault(ops []MOp, failAt int, perm, partial bool, errs ...error) (vs []Viol) {
	return writerFaults(ops, failAt, nil, perm, partial, errs...)
}

// writerFaults: the same with further one-shot failures at the Write indices in more (a writer that fails, recovers
// and fails again).
func writerFaults(ops []MOp, failAt int, more []int, perm, partial bool, errs ...error) (vs []Viol) {
	errInjected := errInjected
	if len(errs) > 0 {
		errInjected = errs[0]
	}
	h := NewMuxH(40)
	h.W.FailAt, h.W.Perm, h.W.Partial, h.W.FailErr, h.W.FailMore = failAt, perm, partial, errInjected, more
	for i, op := range ops {
		f0 := h.W.FailedIn
		c := h.Do(op, 1)
		if h.W.FailedIn == f0 {
			continue
		}
		site := fmt.Sprintf("%s#w%d", c.Op.K, failAt-c.WFrom)
		if c.Err == nil {
			vs = append(vs, Viol{"C18", "write-error-swallowed:" + writeSite(h, c, failAt), fmt.Sprintf("call %d %s: writer failed at Write #%d (%s, %d bytes accepted in this call) but the call returned n=%d, err=nil", i, c.Op, failAt, site, c.To-c.From, c.N)})
			continue
		}
		if !errors.Is(c.Err, errInjected) {
			vs = append(vs, Viol{"C18", "write-error-not-wrapped:" + c.Op.K, fmt.Sprintf("call %d %s: returned %v which does not wrap the writer's error", i, c.Op, c.Err)})
		}
		if c.N > c.To-c.From {
			vs = append(vs, Viol{"C18", "write-count-too-large:" + c.Op.K, fmt.Sprintf("call %d %s: reported n=%d but the writer accepted only %d bytes", i, c.Op, c.N, c.To-c.From)})
		}
	}
	return vs
}

// writeSite names what the failing Write was carrying (driver-side: position inside the
// packet being written when the failure was injected) - the locus used by the classifier.
func writeSite(h *MuxH, c *MCall, failAt int) string {
	off := (len(h.W.Buf[:c.To]) - c.From) // bytes accepted in this call before/around the failure are ambiguous for permanent faults
	_ = off
	// one-shot faults: the byte that is missing is the one at the failure position; locate it
	// by replaying fault-free and mapping Write index -> byte offset
	g := NewMuxH(40)
	var offs []int // start offset of every Write
	g.W.FailAt = -1
	rec := &offsetRecorder{inner: g.W}
	g2 := astits.NewMuxer(context.Background(), rec, astits.MuxerOptTablesRetransmitPeriod(40))
	g.M = g2
	for i := range h.Calls {
		g.Do(h.Calls[i].Op, 1)
	}
	offs = rec.starts
	if failAt >= len(offs) {
		return "unknown"
	}
	o := offs[failAt]
	pk := o / 188 * 188
	in := o - pk
	if pk+188 > len(g.W.Buf) {
		return "unknown"
	}
	b := g.W.Buf[pk : pk+188]
	switch {
	case in == 0:
		return "sync-byte"
	case in < 4:
		return "ts-header"
	case b[3]&0x20 != 0 && in == 4 && b[4] == 0:
		return "one-byte-stuffing-adaptation-field"
	case b[3]&0x20 != 0 && in <= 4+int(b[4]):
		return "adaptation-field"
	}
	if (b[1]&0x1f == 0x03) && b[2] == 0x01 && b[in] == 0xff { // caller PID 0x301: padded short packet
		return "trailing-ff-padding"
	}
	return "payload"
}

type offsetRecorder struct {
	inner  *RecWriter
	starts []int
}

func (r *offsetRecorder) Write(p []byte) (int, error) {
	r.starts = append(r.starts, len(r.inner.Buf))
	return r.inner.Write(p)
}

func checkC18(c *mc.Ctx) {
	c.Ev.Level = "fault_enumeration"
	c.Ev.Rule = "writer half: for each scenario every index of the writer's Write calls is made to fail, once in one-shot and once in permanent mode, and the run is executed to completion on the real Muxer; reader half: for each stream, reader kind, packet-size mode, API and read pattern every byte offset is made the failure point; distinct_nontrivial = distinct (scenario, failing Write site / failure offset class) pairs"
	c.Ev.Assumptions = append(c.Ev.Assumptions, "the injected error is a plain errors.New value at every offset / Write index, and seven standard-library error values (closed pipe, closed file, connection reset, deadline, cancelled context, no progress, short write) at a subset; io.EOF and io.ErrUnexpectedEOF are end of stream, not failures")
	scens := map[string][]MOp{
		"tables-and-stuffing-cases": append(append([]MOp{}, setupAB...), opTables, opDataAs1, opDataAs2, opDataAfit, opDataA1),
		"multi-packet-and-af":       append(append([]MOp{}, setupAB...), opDataA3, opDataARAI, opDataAprv, opDataB1),
		"writepacket":               append(append([]MOp{}, setupAB...), opPktNull, opPktAF, opPktShort, opDataAs1, opTables, opPktShAF, opPktNull),
		"full-header-ext-af":        append(append([]MOp{}, setupAB...), MOp{K: "data", PID: 0x100, Len: 300, Hdr: "full", AF: "ext"}, MOp{K: "data", PID: 0x101, Len: 150, Hdr: "ptsdts", AF: "splice"}, opDataAs1),
		"every-af-part-at-once":     append(append([]MOp{}, setupA...), MOp{K: "data", PID: 0x100, Len: 300, AF: "allfixed"}, MOp{K: "data", PID: 0x100, Len: 20, AF: "allfixed"}),
	}
	baseScens := map[string]bool{}
	for k := range scens {
		baseScens[k] = true
	}
	if c.Thorough() {
		scens["cc-wrap-17"] = append(append([]MOp{}, setupAB...), opDataA17, opDataB17, opTables)
		for _, af := range []string{"raipcr", "priv10", "splice", "ext", "priv0", "noroompcr", "noroomstuff", "priv167"} {
			scens["af-"+af] = append(append([]MOp{}, setupA...), MOp{K: "data", PID: 0x100, Len: 200, AF: af}, MOp{K: "data", PID: 0x100, Len: 169, AF: af}, opDataA1)
		}
		for n := 0; n < nHdrShapes; n += 7 {
			scens[fmt.Sprintf("hdr-shape-%d", n)] = append(append([]MOp{}, setupA...), MOp{K: "data", PID: 0x100, Len: 120, Hdr: fmt.Sprintf("s%d", n)}, MOp{K: "data", PID: 0x100, Len: 190, Hdr: fmt.Sprintf("s%d", n)})
		}
		for _, pk := range []string{"null", "ownpid", "afonly", "short", "shortaf", "priv0pkt", "big", "stalebig", "afwrap", "af252"} {
			scens["pkt-"+pk] = append(append([]MOp{}, setupA...), opDataA1, MOp{K: "pkt", Pkt: pk}, opDataA1)
		}
		for l := 1; l <= 400; l++ {
			scens[fmt.Sprintf("stuffing-len-%d", l)] = append(append([]MOp{}, setupA...), MOp{K: "data", PID: 0x100, Len: l}, MOp{K: "data", PID: 0x100, Len: l + 184})
		}
	}
	for name, ops := range scens {
		base := RunOps(40, ops, 1)
		W := base.W.Writes
		n := int64(W) * 4
		done := mc.ParFor(n, c.OverBudget, func(i int64) {
			at, perm, partial := int(i/4), i%2 == 1, i%4 >= 2
			vs := writerFault(ops, at, perm, partial)
			for _, v := range vs {
				c.Rep.Report(v.Sig, map[string]any{"kind": "writer-fault", "scenario": name, "ops": ops, "fail_at": at, "permanent": perm, "partial": partial, "message": v.Msg})
			}
			if partial {
				c.Ev.Class("writer-partial-write", 1)
			}
			if !perm && !partial {
				c.Ev.Distinct(name + "|" + writeSite(base, &base.Calls[len(base.Calls)-1], at))
			}
		})
		c.Ev.AddScenario(mc.Scenario{Name: "writer:" + name, SpaceSize: n, Executed: done, Exhaustive: done == n,
			Bound: fmt.Sprintf("every one of the %d Write calls x {one-shot, permanent} x {nothing accepted, first half of the bytes accepted}", W)})
		c.Ev.Class("writer-fault-runs", done)
		// the same with the standard library's error values (one-shot, nothing accepted)
		nk := int64(W) * int64(len(c18ErrKinds))
		donek := mc.ParFor(nk, c.OverBudget, func(i int64) {
			at, ek := int(i/int64(len(c18ErrKinds))), c18ErrKinds[i%int64(len(c18ErrKinds))]
			for _, v := range writerFault(ops, at, false, false, ek.Err) {
				c.Rep.Report(v.Sig, map[string]any{"kind": "writer-fault", "scenario": name, "ops": ops, "fail_at": at, "permanent": false, "partial": false, "error_kind": ek.Name, "message": v.Msg})
			}
		})
		c.Ev.AddScenario(mc.Scenario{Name: "writer-error-values:" + name, SpaceSize: nk, Executed: donek, Exhaustive: donek == nk,
			Bound: fmt.Sprintf("every one of the %d Write calls x %d standard-library error values, one-shot", W, len(c18ErrKinds))})
		c.Ev.Class("writer-fault-error-values", donek)
		// a writer that fails twice: every pair of Write indices (thorough tier: every scenario; quick: the four base ones)
		if _, isBase := baseScens[name]; isBase || c.Thorough() {
			var pairs [][2]int
			for a := 0; a < W; a++ {
				for b := a + 1; b <= W; b++ {
					pairs = append(pairs, [2]int{a, b})
				}
			}
			if (!c.Thorough() || !isBase) && len(pairs) > 3000 {
				// quick tier, and the additional scenarios of the thorough tier: the second failure within the next 12 Write calls
				var near [][2]int
				for _, p := range pairs {
					if p[1]-p[0] <= 12 {
						near = append(near, p)
					}
				}
				pairs = near
			}
			np := int64(len(pairs)) * 2
			donep := mc.ParFor(np, c.OverBudget, func(i int64) {
				p, partial := pairs[i/2], i%2 == 1
				for _, v := range writerFaults(ops, p[0], []int{p[1]}, false, partial) {
					c.Rep.Report(v.Sig, map[string]any{"kind": "writer-fault", "scenario": name, "ops": ops, "fail_at": p[0], "fail_more": []int{p[1]}, "permanent": false, "partial": partial, "message": v.Msg})
				}
			})
			c.Ev.AddScenario(mc.Scenario{Name: "writer-two-failures:" + name, SpaceSize: np, Executed: donep, Exhaustive: donep == np,
				Bound: fmt.Sprintf("pairs of one-shot failing Write indices (%d pairs) x {nothing accepted, first half accepted}", len(pairs))})
			c.Ev.Class("writer-two-failures", donep)
		}
		if len(c.Ev.Samples) < 2 {
			c.Ev.Sample(map[string]any{"scenario": name, "ops": fmt.Sprint(ops), "write_calls": W})
		}
	}
	readerFaults(c)
	c.Ev.Require("writer-fault-runs", "writer-partial-write", "reader-fault-runs", "reader-fault-inside-autodetect", "reader-fault-error-values", "writer-fault-error-values", "writer-two-failures")
}

// ---------------------------------------------------------------------------------------
// reader half

// faultReader delivers b in chunks and fails at byte offset failAt (the Read that would start
// at that offset returns the injected error; a Read that straddles it is cut short there).
type faultReader struct {
	b      []byte
	off    int
	chunk  int
	failAt int
	failed bool
	// withData: the Read that reaches failAt returns its bytes and the error in the same call
	withData bool
	err      error // the failure (errInjected when nil)
}

func (r *faultReader) failure() error {
	if r.err != nil {
		return r.err
	}
	return errInjected
}

func (r *faultReader) Read(p []byte) (int, error) {
	if r.off >= r.failAt {
		r.failed = true
		return 0, r.failure()
	}
	n := len(p)
	if r.chunk > 0 && n > r.chunk {
		n = r.chunk
	}
	if n > r.failAt-r.off {
		n = r.failAt - r.off
	}
	if n > len(r.b)-r.off {
		n = len(r.b) - r.off
	}
	if n == 0 {
		return 0, io.EOF
	}
	copy(p, r.b[r.off:r.off+n])
	r.off += n
	if r.withData && r.off == r.failAt {
		// a caller whose buffer was filled exactly may return its result first (io.Reader: process the
		// bytes before the error); the failure then surfaces on the next Read
		if n < len(p) {
			r.failed = true
		}
		return n, r.failure()
	}
	return n, nil
}

type faultSeeker struct{ faultReader }

func (r *faultSeeker) Seek(off int64, whence int) (int64, error) {
	switch whence {
	case io.SeekStart:
	case io.SeekCurrent:
		off += int64(r.off)
	case io.SeekEnd:
		off += int64(len(r.b))
	default:
		return 0, errors.New("faultSeeker: unsupported whence")
	}
	r.off = int(off)
	return off, nil
}

type readerCfg struct {
	Kind  string // plain bufio seek
	Auto  bool
	API   string // packet data
	Chunk int
	// WithData: the Read that reaches the failure offset returns the bytes in front of it together with
	// the error (n > 0 and err != nil in one call, as io.Reader permits)
	WithData bool
}

func mkFaultReader(cfg readerCfg, b []byte, failAt int) (io.Reader, *faultReader) {
	switch cfg.Kind {
	case "seek":
		s := &faultSeeker{faultReader{b: b, chunk: cfg.Chunk, failAt: failAt, withData: cfg.WithData}}
		return s, &s.faultReader
	case "bufio":
		f := &faultReader{b: b, chunk: cfg.Chunk, failAt: failAt, withData: cfg.WithData}
		return bufio.NewReader(f), f
	}
	f := &faultReader{b: b, chunk: cfg.Chunk, failAt: failAt, withData: cfg.WithData}
	return f, f
}

// observeUntilFault drains the demuxer through the chosen API until the call during which
// the reader failed (fr.failed flips), ErrNoMorePackets, or the call cap. It returns what was
// delivered before, the error of the pending call (the one during which the reader failed)
// and whether the failure was reached at all.
func observeUntilFault(cfg readerCfg, r io.Reader, fr *faultReader, inputLen int) (got []string, pendErr error, reached bool, pan any) {
	var opts []func(*astits.Demuxer)
	if !cfg.Auto {
		opts = append(opts, astits.DemuxerOptPacketSize(188))
	}
	d := astits.NewDemuxer(context.Background(), r, opts...)
	defer func() {
		if x := recover(); x != nil {
			pan = x
		}
	}()
	for k := 0; k < inputLen/8+64; k++ {
		var res any
		var err error
		if cfg.API == "packet" {
			res, err = d.NextPacket()
		} else {
			res, err = d.NextData()
		}
		if fr.failed {
			return got, err, true, nil
		}
		if err != nil {
			if errors.Is(err, astits.ErrNoMorePackets) {
				return got, err, false, nil
			}
			continue // an unrelated error before the reader failed: the caller carries on
		}
		got = append(got, mc.Canon(res))
	}
	return got, nil, false, nil
}

func readerFaults(c *mc.Ctx) {
	streams := StandardStreams(c.Seed)
	var cfgs []readerCfg
	for _, kind := range []string{"plain", "bufio", "seek"} {
		for _, auto := range []bool{false, true} {
			for _, api := range []string{"packet", "data"} {
				for _, chunk := range []int{0, 1, 100} {
					cfgs = append(cfgs, readerCfg{kind, auto, api, chunk, false})
					if chunk != 1 && kind != "bufio" { // a bufio.Reader keeps the error back until its buffer is drained: same as the plain mode for the Demuxer
						cfgs = append(cfgs, readerCfg{kind, auto, api, chunk, true})
					}
				}
			}
		}
	}
	for _, st := range streams {
		if len(st.Bytes) > 12*188 && !c.Thorough() {
			continue
		}
		b := st.Bytes
		type job struct {
			cfg  readerCfg
			base []string
		}
		var jobs []job
		for _, cfg := range cfgs {
			r, fr0 := mkFaultReader(cfg, b, len(b)+1) // fault-free baseline for this configuration
			base, err, _, pan := observeUntilFault(cfg, r, fr0, len(b))
			if pan != nil || !errors.Is(err, astits.ErrNoMorePackets) || len(base) == 0 {
				// the fault-free run itself does not work in this configuration: that is C08's
				// subject (auto-detection under short reads), not an I/O failure - skip, but say so
				c.Ev.Class(fmt.Sprintf("baseline-unusable:%s/auto=%v/chunk=%d", cfg.Kind, cfg.Auto, cfg.Chunk), 1)
				continue
			}
			jobs = append(jobs, job{cfg, base})
		}
		n := int64(len(jobs)) * int64(len(b))
		done := mc.ParFor(n, c.OverBudget, func(i int64) {
			j := jobs[i/int64(len(b))]
			at := int(i % int64(len(b)))
			r, fr := mkFaultReader(j.cfg, b, at)
			got, err, reached, pan := observeUntilFault(j.cfg, r, fr, len(b))
			det := map[string]any{"kind": "reader-fault", "stream": st.Name, "cfg": j.cfg, "fail_at": at, "bytes": mc.Hex(b)}
			rep := func(sig, f string, a ...any) {
				det["message"] = fmt.Sprintf(f, a...)
				c.Rep.Report(sig, det)
			}
			site := fmt.Sprintf("%s/auto=%v/%s", j.cfg.Kind, j.cfg.Auto, j.cfg.API)
			switch {
			case pan != nil:
				rep("reader-fault-panic:"+site, "panic: %v", pan)
			case !reached:
				// the demuxer never read up to the failure offset (it stopped on its own): no I/O
				// failure happened from its point of view; termination is C03's subject
				c.Ev.Class("reader-fault-not-reached", 1)
			case err == nil:
				rep("reader-error-swallowed:"+site, "reader failed at offset %d during a call that returned no error", at)
			case errors.Is(err, astits.ErrNoMorePackets):
				rep("reader-error-reported-as-eof:"+site, "reader failed at offset %d but the call returned ErrNoMorePackets", at)
			case !errors.Is(err, errInjected):
				rep("reader-error-not-wrapped:"+site, "reader failed at offset %d; the call returned %v which does not wrap the cause", at, err)
			}
			if !isPrefix(got, j.base) {
				rep("reader-fault-output-not-prefix:"+site, "delivered results before the failure are not a prefix of the fault-free output")
			}
			if j.cfg.Auto && at < 193 {
				c.Ev.Class("reader-fault-inside-autodetect", 1)
			}
			c.Ev.Distinct(fmt.Sprintf("%s|%v|%d", st.Name, j.cfg, at/188))
		})
		c.Ev.AddScenario(mc.Scenario{Name: "reader:" + st.Name, SpaceSize: n, Executed: done, Exhaustive: done == n,
			Bound: fmt.Sprintf("every byte offset 0..%d x %d usable configurations (reader kind x auto/explicit x API x read pattern)", len(b)-1, len(jobs))})
		c.Ev.Class("reader-fault-runs", done)
		// the same with the standard library's sentinel errors as the failure (whole-chunk reads, offsets around every
		// packet boundary and every 47th byte)
		var offs []int
		for at := 0; at < len(b); at++ {
			if m := at % 188; at%47 == 0 || m == 0 || m == 1 || m == 187 {
				offs = append(offs, at)
			}
		}
		var kjobs []job
		for _, j := range jobs {
			if j.cfg.Chunk == 0 && !j.cfg.WithData {
				kjobs = append(kjobs, j)
			}
		}
		nk := int64(len(c18ErrKinds)) * int64(len(kjobs)) * int64(len(offs))
		donek := mc.ParFor(nk, c.OverBudget, func(i int64) {
			ek := c18ErrKinds[i%int64(len(c18ErrKinds))]
			i /= int64(len(c18ErrKinds))
			j := kjobs[i%int64(len(kjobs))]
			at := offs[i/int64(len(kjobs))]
			r, fr := mkFaultReader(j.cfg, b, at)
			fr.err = ek.Err
			got, err, reached, pan := observeUntilFault(j.cfg, r, fr, len(b))
			det := map[string]any{"kind": "reader-fault", "stream": st.Name, "cfg": j.cfg, "fail_at": at, "error_kind": ek.Name, "bytes": mc.Hex(b)}
			site := fmt.Sprintf("%s/auto=%v/%s", j.cfg.Kind, j.cfg.Auto, j.cfg.API)
			rep := func(sig, f string, a ...any) {
				det["message"] = fmt.Sprintf(f, a...)
				c.Rep.Report(sig, det)
			}
			switch {
			case pan != nil:
				rep("reader-fault-panic:"+site, "panic: %v", pan)
			case !reached:
			case err == nil:
				rep("reader-error-swallowed:"+site, "reader failed with %v at offset %d during a call that returned no error", ek.Err, at)
			case errors.Is(err, astits.ErrNoMorePackets):
				rep("reader-error-reported-as-eof:"+site, "reader failed with %v at offset %d but the call returned ErrNoMorePackets", ek.Err, at)
			case !errors.Is(err, ek.Err):
				rep("reader-error-not-wrapped:"+site, "reader failed with %v at offset %d; the call returned %v which does not wrap the cause", ek.Err, at, err)
			}
			if !isPrefix(got, j.base) {
				rep("reader-fault-output-not-prefix:"+site, "delivered results before the failure are not a prefix of the fault-free output")
			}
		})
		c.Ev.AddScenario(mc.Scenario{Name: "reader-error-values:" + st.Name, SpaceSize: nk, Executed: donek, Exhaustive: donek == nk,
			Bound: fmt.Sprintf("%d standard-library error values x %d configurations x %d offsets (packet boundaries +-1, every 47th byte)", len(c18ErrKinds), len(kjobs), len(offs))})
		c.Ev.Class("reader-fault-error-values", donek)
	}
}

func isPrefix(a, b []string) bool {
	if len(a) > len(b) {
		return false
	}
	for i := range a {
		if a[i] != b[i] {
			return false
		}
	}
	return true
}

var _ = bytes.Equal
var _ = reflect.DeepEqual
