package checks

import (
	"bufio"
	"bytes"
	"context"
	"errors"
	"fmt"
	"io"
	"time"

	astits "github.com/asticode/go-astits"
	"verif/mc"
	"verif/ref"
)

func init() {
	register("C03", checkC03)
	Replayers["robustness"] = func(d map[string]any) error {
		var b mc.Hex
		var cfg c03Cfg
		if err := reJSON(d["bytes"], &b); err != nil {
			return err
		}
		if err := reJSON(d["cfg"], &cfg); err != nil {
			return err
		}
		sig, msg := runC03(b, cfg)
		if sig != "" {
			return fmt.Errorf("%s: %s", sig, msg)
		}
		return nil
	}
}

type c03Cfg struct {
	Size   int    // 0 = auto
	Reader string // seek bufio plain onebyte
	API    string // packet data
	Opt    string // none skipper parser
}

func (c c03Cfg) String() string {
	return fmt.Sprintf("size=%d/%s/%s/%s", c.Size, c.Reader, c.API, c.Opt)
}

// progReader measures how far the demuxer has consumed the input.
type progReader struct {
	b     []byte
	off   int
	chunk int
}

func (r *progReader) Read(p []byte) (int, error) {
	if r.off >= len(r.b) {
		return 0, io.EOF
	}
	n := len(p)
	if r.chunk > 0 && n > r.chunk {
		n = r.chunk
	}
	if n > len(r.b)-r.off {
		n = len(r.b) - r.off
	}
	copy(p, r.b[r.off:r.off+n])
	r.off += n
	return n, nil
}

type progSeeker struct{ progReader }

func (r *progSeeker) Seek(off int64, whence int) (int64, error) {
	switch whence {
	case io.SeekStart:
	case io.SeekCurrent:
		off += int64(r.off)
	case io.SeekEnd:
		off += int64(len(r.b))
	default:
		return 0, errors.New("unsupported whence")
	}
	if off < 0 {
		return 0, errors.New("negative position")
	}
	r.off = int(off)
	return off, nil
}

// autodetectCannotSucceed is the driver-side fact used by the K1 classifier: the library's
// documented heuristic needs a sync byte at offset 0 and another at offsets 188..192.
func autodetectCannotSucceed(b []byte, reader string) bool {
	if len(b) < 1 || b[0] != 0x47 {
		return true
	}
	if reader == "bufio" && len(b) < 193 {
		return true // bufio.Reader.Peek needs all 193 bytes
	}
	for i := 188; i < 193 && i < len(b); i++ {
		if b[i] == 0x47 {
			return false
		}
	}
	return true
}

// runC03 drives one input through one configuration and applies the oracle.
func runC03(b []byte, cfg c03Cfg) (sig, msg string) {
	var r io.Reader
	var consumed func() int
	switch cfg.Reader {
	case "seek":
		s := &progSeeker{progReader{b: b}}
		r, consumed = s, func() int { return s.off }
	case "bufio":
		u := &progReader{b: b}
		br := bufio.NewReader(u)
		r, consumed = br, func() int { return u.off - br.Buffered() }
	case "onebyte":
		u := &progReader{b: b, chunk: 1}
		r, consumed = u, func() int { return u.off }
	default:
		u := &progReader{b: b}
		r, consumed = u, func() int { return u.off }
	}
	var opts []func(*astits.Demuxer)
	if cfg.Size != 0 {
		opts = append(opts, astits.DemuxerOptPacketSize(cfg.Size))
	}
	switch cfg.Opt {
	case "skipper":
		opts = append(opts, astits.DemuxerOptPacketSkipper(func(p *astits.Packet) bool { return p.Header.ContinuityCounter%3 == 1 }))
	case "parser":
		opts = append(opts, astits.DemuxerOptPacketsParser(func(ps []*astits.Packet) ([]*astits.DemuxerData, bool, error) { return nil, false, nil }))
	}
	d := astits.NewDemuxer(context.Background(), r, opts...)
	call := func() (ok bool, err error) {
		if cfg.API == "packet" {
			_, err = d.NextPacket()
		} else {
			_, err = d.NextData()
		}
		return err == nil, err
	}
	k1 := cfg.Size == 0 && autodetectCannotSucceed(b, cfg.Reader)
	limit := len(b)/8 + 16
	calls, stalls := 0, 0
	eof := false
	if p := mc.Catch(func() {
		for calls < limit+8 {
			before := consumed()
			ok, err := call()
			calls++
			if errors.Is(err, astits.ErrNoMorePackets) {
				eof = true
				break
			}
			if !ok && consumed() <= before {
				stalls++ // an error without consuming input is allowed once in a while; a spin shows as the call bound being exceeded
			}
		}
	}); p != nil {
		return "panic", fmt.Sprintf("panic after %d calls: %v", calls, p)
	}
	if sig == "" && !eof {
		sig, msg = "eof-not-reached", fmt.Sprintf("%d calls on %d bytes without reaching ErrNoMorePackets (%d of them returned an error without consuming input)", calls, len(b), stalls)
	}
	if sig == "" && calls > limit {
		sig, msg = "too-many-calls", fmt.Sprintf("%d calls needed for %d bytes (bound %d)", calls, len(b), limit)
	}
	if sig != "" {
		if k1 {
			sig = "autodetect-failure-never-reaches-eof"
		}
		return
	}
	if p := mc.Catch(func() {
		for k := 0; k < 10; k++ {
			if _, err := call(); !errors.Is(err, astits.ErrNoMorePackets) {
				sig, msg = "eof-not-sticky", fmt.Sprintf("call %d after ErrNoMorePackets returned %v", k+1, err)
				return
			}
		}
	}); p != nil {
		return "panic", fmt.Sprintf("panic after end of stream: %v", p)
	}
	return
}

func c03Cfgs(sizes []int, full bool) []c03Cfg {
	var out []c03Cfg
	readers := []string{"seek", "bufio", "plain", "onebyte"}
	optsL := []string{"none", "skipper", "parser"}
	for _, s := range sizes {
		for _, r := range readers {
			for _, a := range []string{"packet", "data"} {
				for _, o := range optsL {
					if !full && o != "none" && r != "seek" {
						continue
					}
					out = append(out, c03Cfg{s, r, a, o})
				}
			}
		}
	}
	return out
}

type c03Family struct {
	name  string
	n     int64
	gen   func(i int64) []byte
	cfgs  []c03Cfg
	bound string
}

func checkC03(c *mc.Ctx) {
	c.Ev.Level = "fault_enumeration"
	c.Ev.Rule = "(a) structured neighbourhood: every byte offset x 7 mutation classes and truncation at every offset of base streams that visit every parser, plus empty / garbage inputs; (b) dispatch x truncation products exhaustive in the control bytes (adaptation-field flag byte x length x extension flags; both PES flag bytes x header_data_length x cut; table_id x section_length; descriptor tag x declared length x cut); x packet size x reader kind x API x options; oracle: no panic, every call makes progress, ErrNoMorePackets after <= len/8+16 calls and sticky; distinct_nontrivial = distinct (family, case, configuration class)"
	c.Ev.Assumptions = append(c.Ev.Assumptions, "a hang is detected by a 60 s watchdog on a case that normally takes microseconds (reported as VIOLATION, never used as a pass criterion)",
		"'every byte sequence' is decided for the enumerated neighbourhoods and products only (DESIGN.md section 6)")
	streams := c19Streams(c.Seed)
	var fams []c03Family
	muts := []func(byte) byte{func(byte) byte { return 0 }, func(byte) byte { return 0xff }, func(byte) byte { return 0x47 }, func(b byte) byte { return b ^ 1 }, func(b byte) byte { return b ^ 0x80 }, func(b byte) byte { return b + 1 }, func(b byte) byte { return b - 1 }}
	for _, st := range streams {
		st := st
		fams = append(fams, c03Family{name: "mutate:" + st.Name, n: int64(len(st.Bytes) * len(muts)), cfgs: c03Cfgs([]int{0, 188}, false),
			gen: func(i int64) []byte {
				b := append([]byte{}, st.Bytes...)
				off, m := int(i)/len(muts), muts[int(i)%len(muts)]
				b[off] = m(b[off])
				return b
			}, bound: "every byte offset x {0x00,0xFF,0x47,^0x01,^0x80,+1,-1}"})
		if c.Thorough() {
			// two deviations inside a sliding 16-byte window
			nm := len(muts)
			fams = append(fams, c03Family{name: "mutate2:" + st.Name, n: int64(len(st.Bytes)) * 15 * int64(nm*nm), cfgs: []c03Cfg{{188, "seek", "data", "none"}, {188, "plain", "packet", "none"}, {0, "bufio", "data", "none"}, {0, "seek", "packet", "skipper"}},
				gen: func(i int64) []byte {
					b := append([]byte{}, st.Bytes...)
					m2 := muts[i%int64(nm)]
					i /= int64(nm)
					m1 := muts[i%int64(nm)]
					i /= int64(nm)
					d := int(i%15) + 1
					off := int(i / 15)
					b[off] = m1(b[off])
					if off+d < len(b) {
						b[off+d] = m2(b[off+d])
					}
					return b
				}, bound: "every byte offset x every second offset within the next 15 bytes x 7x7 mutation classes"})
		}
		fams = append(fams, c03Family{name: "truncate:" + st.Name, n: int64(len(st.Bytes) + 1), cfgs: c03Cfgs([]int{0, 188}, true),
			gen: func(i int64) []byte { return st.Bytes[:i] }, bound: "truncation at every offset"})
		for _, k := range []int{1, 4, 16, 188} {
			k := k
			big := enlarge(st.Bytes, k)
			sizes := []int{188 + k}
			if k <= 4 {
				sizes = append(sizes, 0)
			}
			fams = append(fams, c03Family{name: fmt.Sprintf("truncate-size-%d:%s", 188+k, st.Name), n: int64(len(big) + 1), cfgs: c03Cfgs(sizes, false),
				gen: func(i int64) []byte { return big[:i] }, bound: "truncation at every offset of the enlarged-packet form"})
		}
	}
	// wrong explicit size on a 188 stream, and garbage
	garb := [][]byte{{}, {0x47}, {0x00}, bytes.Repeat([]byte{0x47}, 400), bytes.Repeat([]byte{0x00}, 400), bytes.Repeat([]byte{0xff}, 189), append([]byte{0x47}, bytes.Repeat([]byte{0x11}, 600)...),
		append(bytes.Repeat([]byte{0x22}, 5), streams[0].Bytes...)}
	fams = append(fams, c03Family{name: "garbage", n: int64(len(garb)), cfgs: c03Cfgs([]int{0, 188, 192, 204, 189, 376}, true), gen: func(i int64) []byte { return garb[i] }, bound: "empty, single bytes, all-sync, zeros, no second sync byte, leading junk"})
	fams = append(fams, c03Family{name: "wrong-explicit-size", n: 1, cfgs: c03Cfgs([]int{189, 192, 204, 376}, true), gen: func(int64) []byte { return streams[0].Bytes }, bound: "188-byte stream read with other explicit sizes"})
	// very large payload units (size arithmetic of the reassembly buffers): n full packets of one PID with
	// continuous counters, on a PES PID, the PAT PID and an SI PID, around 64 KiB and 128 KiB
	bigNs := []int{355, 356, 357, 358, 712, 713, 714}
	bigPIDs := []uint16{0x100, 0x0000, 0x0012}
	fams = append(fams, c03Family{name: "big-unit:", n: int64(len(bigNs) * len(bigPIDs) * 2), cfgs: []c03Cfg{{188, "seek", "data", "none"}, {0, "bufio", "data", "none"}, {188, "plain", "packet", "none"}},
		gen: func(i int64) []byte {
			n := bigNs[i%int64(len(bigNs))]
			i /= int64(len(bigNs))
			pid := bigPIDs[i%int64(len(bigPIDs))]
			i /= int64(len(bigPIDs))
			fill := []byte{0x00, 0xa5}[i]
			b := make([]byte, 0, (n+1)*188)
			for k := 0; k <= n; k++ { // n packets of the unit, then the start of the next unit
				p := make([]byte, 188)
				for j := range p {
					p[j] = fill
				}
				p[0], p[1], p[2], p[3] = 0x47, byte(pid>>8), byte(pid), 0x10|byte(k&0xf)
				if k == 0 || k == n {
					p[1] |= 0x40
					copy(p[4:], []byte{0x00, 0x00, 0x01, 0xe0, 0x00, 0x00, 0x80, 0x00, 0x00})
				}
				b = append(b, p...)
			}
			return b
		}, bound: "units of 355..358 and 712..714 full packets (just below / above 65536 and 131072 payload bytes) x PID {PES, PAT, SI} x 2 fills"})
	fams = append(fams, c03Dispatch(c)...)

	for _, f := range fams {
		f := f
		nc := int64(len(f.cfgs))
		total := f.n * nc
		t0 := time.Now()
		done := mc.ParForWatched(c, total, 60*time.Second, func(i int64) any {
			return map[string]any{"kind": "robustness", "family": f.name, "case": i / nc, "cfg": f.cfgs[i%nc], "bytes": mc.Hex(f.gen(i / nc)), "message": "hang"}
		}, func(i int64) {
			b, cfg := f.gen(i/nc), f.cfgs[i%nc]
			sig, msg := runC03(b, cfg)
			if sig != "" {
				full := sig
				if sig != "autodetect-failure-never-reaches-eof" {
					full = sig + ":" + familyClass(f.name) + ":" + cfg.API
				}
				c.Rep.Report(full, map[string]any{"kind": "robustness", "family": f.name, "case": i / nc, "cfg": cfg, "bytes": mc.Hex(b), "message": msg})
			}
			if cfg.Size == 0 {
				c.Ev.Class("auto-detect-config", 1)
			}
			if i%nc == 0 && (i/nc)%257 == 0 {
				c.Ev.Distinct(fmt.Sprintf("%s|%d", f.name, i/nc))
			}
		})
		c.Ev.DistinctAdd(done / nc)
		c.Ev.AddScenario(mc.Scenario{Name: f.name, SpaceSize: total, Executed: done, Exhaustive: done == total, Bound: fmt.Sprintf("%s; %d cases x %d configurations", f.bound, f.n, nc), Note: fmt.Sprintf("%.1fs", time.Since(t0).Seconds())})
		c.Ev.Class("family:"+familyClass(f.name), 1)
		if len(c.Ev.Samples) < 6 {
			c.Ev.Sample(map[string]any{"family": f.name, "cases": f.n, "configs": nc, "example_cfg": f.cfgs[0].String()})
		}
	}
	c.Ev.Require("auto-detect-config", "family:big-unit", "family:mutate", "family:truncate", "family:af-dispatch", "family:pes-dispatch", "family:table-dispatch", "family:descriptor-dispatch")
}

func familyClass(n string) string {
	for i := 0; i < len(n); i++ {
		if n[i] == ':' {
			return n[:i]
		}
	}
	return n
}

// ---------------------------------------------------------------------------------------
// dispatch x truncation products

func c03Dispatch(c *mc.Ctx) []c03Family {
	var fams []c03Family
	dataCfgs := []c03Cfg{{188, "seek", "data", "none"}, {188, "plain", "packet", "none"}, {0, "bufio", "data", "none"}}
	// (1) adaptation field: flag byte x declared length x extension flag set x fill x afc
	fills := []byte{0x00, 0xff, 0x01, 0x80}
	if !c.Thorough() {
		fills = fills[:2]
	}
	fams = append(fams, c03Family{name: "af-dispatch:", n: 256 * 184 * 8 * int64(len(fills)) * 2, cfgs: dataCfgs[:2],
		gen: func(i int64) []byte {
			flags := byte(i % 256)
			i /= 256
			l := int(i % 184)
			i /= 184
			ext := byte(i % 8)
			i /= 8
			fill := fills[i%int64(len(fills))]
			i /= int64(len(fills))
			afc := byte(0x20 + 0x10*byte(i%2))
			b := make([]byte, 188*2)
			for k := range b {
				b[k] = fill
			}
			b[0], b[1], b[2], b[3], b[4] = 0x47, 0x41, 0x00, afc|3, byte(l)
			if l > 0 {
				b[5] = flags
			}
			// an extension header somewhere plausible: put the ext flags right after the fixed parts
			pos := 6
			if flags&0x10 != 0 {
				pos += 6
			}
			if flags&0x08 != 0 {
				pos += 6
			}
			if flags&0x04 != 0 {
				pos++
			}
			if flags&0x02 != 0 {
				b[pos] = byte(l) // private data length: sometimes fits, sometimes not
				pos += 1 + int(b[pos])
			}
			if flags&0x01 != 0 && pos+1 < 188 {
				b[pos] = fill | 1
				b[pos+1] = ext<<5 | 0x1f
			}
			// second packet: a valid null packet
			b[188], b[189], b[190], b[191] = 0x47, 0x1f, 0xff, 0x10
			return b
		}, bound: "all 256 AF flag bytes x adaptation_field_length 0..183 x 8 extension flag sets x 4 fills x afc {10,11}"})

	// (1a) the same adaptation-field control bytes under every combination of the header's own flag bits
	// (transport_error, payload_unit_start, transport_priority) and scrambling control: what the header says about
	// the packet does not make a malformed adaptation field safe to walk into
	{
		ls := []int{0, 1, 2, 7, 20, 100, 182, 183, 184, 200, 255}
		fams = append(fams, c03Family{name: "af-dispatch:header-flags", n: 8 * 4 * 256 * int64(len(ls)) * 2 * 2, cfgs: dataCfgs,
			gen: func(i int64) []byte {
				top := byte(i%8) << 5
				i /= 8
				scr := byte(i%4) << 6
				i /= 4
				flags := byte(i % 256)
				i /= 256
				l := ls[i%int64(len(ls))]
				i /= int64(len(ls))
				afc := byte(0x20 + 0x10*byte(i%2))
				i /= 2
				fill := []byte{0x00, 0xff}[i%2]
				b := make([]byte, 188*3)
				for k := range b {
					b[k] = fill
				}
				b[0], b[1], b[2], b[3], b[4] = 0x47, top|0x01, 0x00, scr|afc|3, byte(l)
				b[5] = flags
				if flags&0x02 != 0 { // a private data length that overruns the field (behind whatever parts precede it)
					pos := 6
					if flags&0x10 != 0 {
						pos += 6
					}
					if flags&0x08 != 0 {
						pos += 6
					}
					if flags&0x04 != 0 {
						pos++
					}
					b[pos] = 0xff
				}
				// a second packet of the same PID and a valid null packet
				copy(b[188:], b[:188])
				b[188+1] &^= 0x40
				b[188+3] = b[3]&0xf0 | 4
				b[376], b[377], b[378], b[379] = 0x47, 0x1f, 0xff, 0x10
				return b
			}, bound: "8 combinations of transport_error / payload_unit_start / priority x 4 scrambling values x all 256 AF flag bytes x 11 adaptation_field_length values x afc {10,11} x 2 fills; private data length overrunning the field"})
	}
	// (1b) the same control bytes on PIDs whose units go through the section-completeness test: PAT PID,
	// a PMT PID announced by a preceding PAT, an SI PID; with and without payload_unit_start
	patPkt := EncodePkts(Packetize(PSIUnit(0, 0, [][]byte{SecPAT(modelPAT(1, 0x1000), ref.SecHdr{CNI: true})}, nil), nil, new(uint8), true))
	psiPIDs := []uint16{0x0000, 0x1000, 0x0011}
	fams = append(fams, c03Family{name: "af-dispatch-psi:", n: 256 * 184 * 2 * 2 * 2 * int64(len(psiPIDs)), cfgs: dataCfgs[:1],
		gen: func(i int64) []byte {
			flags := byte(i % 256)
			i /= 256
			l := int(i % 184)
			i /= 184
			fill := fills[i%2]
			i /= 2
			afc := byte(0x20 + 0x10*byte(i%2))
			i /= 2
			pusi := byte(0x40 * (i % 2))
			i /= 2
			pid := psiPIDs[i]
			b := make([]byte, 188*2)
			for k := range b {
				b[k] = fill
			}
			b[0], b[1], b[2], b[3], b[4] = 0x47, pusi|byte(pid>>8), byte(pid), afc|3, byte(l)
			if l > 0 {
				b[5] = flags
			}
			b[188], b[189], b[190], b[191] = 0x47, pusi|byte(pid>>8), byte(pid), 0x14
			return append(append([]byte{}, patPkt...), b...)
		}, bound: "PAT packet, then on PID {0, announced PMT PID, 0x11}: all 256 AF flag bytes x adaptation_field_length 0..183 x 2 fills x afc {10,11} x payload_unit_start {0,1}, then a second packet of that PID"})

	// (2) PES: flag bytes x extension flag byte x header_data_length class x body cut at every length
	hdlClasses := []int{0, 1, 2, 3, 4} // exact, 0, 1, exact-1/exact+1 alternately, 255
	f1s := []byte{0x80, 0x00, 0xff, 0x8f, 0xb0, 0x41, 0x04, 0x7e}
	maxBody := 70
	if !c.Thorough() {
		hdlClasses = []int{0, 4}
		f1s = []byte{0x80}
		maxBody = 36
	}
	// (f2, extension flag byte) pairs: the extension byte only matters when f2&1
	type fx struct{ f2, ext byte }
	var fxs []fx
	for f2 := 0; f2 < 256; f2++ {
		if f2&1 == 0 {
			fxs = append(fxs, fx{byte(f2), 0})
			continue
		}
		for e := 0; e < 256; e++ {
			fxs = append(fxs, fx{byte(f2), byte(e)})
		}
	}
	fams = append(fams, c03Family{name: "pes-dispatch:", n: int64(len(f1s)) * int64(len(fxs)) * int64(len(hdlClasses)) * int64(maxBody), cfgs: dataCfgs[:1],
		gen: func(i int64) []byte {
			f1 := f1s[i%int64(len(f1s))]
			i /= int64(len(f1s))
			x := fxs[i%int64(len(fxs))]
			i /= int64(len(fxs))
			f2 := x.f2
			hc := hdlClasses[i%int64(len(hdlClasses))]
			i /= int64(len(hdlClasses))
			cut := int(i) // bytes of optional-field area present
			// size the flags imply (independent arithmetic from the ISO table)
			need := 0
			switch f2 >> 6 {
			case 2:
				need += 5
			case 3:
				need += 10
			}
			for _, y := range []struct {
				m byte
				n int
			}{{0x20, 6}, {0x10, 3}, {0x08, 1}, {0x04, 1}, {0x02, 2}} {
				if f2&y.m != 0 {
					need += y.n
				}
			}
			extPos := need // offset of the extension flag byte inside the optional-field area
			if f2&1 != 0 {
				need++
				for _, y := range []struct {
					m byte
					n int
				}{{0x80, 16}, {0x40, 1}, {0x20, 2}, {0x10, 2}, {0x01, 2}} {
					if x.ext&y.m != 0 {
						need += y.n
					}
				}
			}
			hdl := need
			switch hc {
			case 1:
				hdl = 0
			case 2:
				hdl = 1
			case 3:
				hdl = need + 1 - 2*int(f1&1)
				if hdl < 0 {
					hdl = 0
				}
			case 4:
				hdl = 255
			}
			pes := []byte{0, 0, 1, 0xe0, 0, 0, f1, f2, byte(hdl)}
			for k := 0; k < cut; k++ {
				v := byte(0xf1 + k*7)
				if k == extPos && f2&1 != 0 {
					v = x.ext
				}
				pes = append(pes, v)
			}
			u := SUnit{PID: 0x100, Bytes: pes}
			cc := uint8(0)
			ps := Packetize(u, nil, &cc, false)
			return EncodePkts(ps)
		}, bound: "PES flag byte 1 (1 value quick / 8 thorough) x all 256 values of flag byte 2 x all 256 extension flag bytes (when the extension flag is set) x header_data_length classes x optional-field area cut at every length"})

	// (2b) PES units that end inside their own header: every header_data_length x the first bytes of the
	// optional-field area present x PES_packet_length classes (unbounded, header only, header + 50, maximum, 1)
	f2s := []byte{0x00, 0x80, 0xc0, 0x01, 0x3e}
	fams = append(fams, c03Family{name: "pes-dispatch:truncated-header", n: int64(len(f2s)) * 256 * 24 * 5, cfgs: dataCfgs[:1],
		gen: func(i int64) []byte {
			f2 := f2s[i%int64(len(f2s))]
			i /= int64(len(f2s))
			hdl := int(i % 256)
			i /= 256
			cut := int(i % 24)
			i /= 24
			plen := []int{0, 3 + hdl, 3 + hdl + 50, 0xffff, 1}[i]
			if plen > 0xffff {
				plen = 0xffff
			}
			pes := []byte{0, 0, 1, 0xc0, byte(plen >> 8), byte(plen), 0x80, f2, byte(hdl)}
			for k := 0; k < cut; k++ {
				pes = append(pes, byte(0x21+k*2))
			}
			cc := uint8(0)
			ps := Packetize(SUnit{PID: 0x100, Bytes: pes}, nil, &cc, false)
			// a second unit start so that the first one is flushed mid-stream as well as (variant) only at the end
			if hdl%2 == 0 {
				ps = append(ps, Packetize(PESUnit(0x100, 0xc0, []byte{1, 2, 3}, 5, true), nil, &cc, false)...)
			}
			return EncodePkts(ps)
		}, bound: "5 flag bytes x every PES_header_data_length 0..255 x 0..23 bytes of the optional-field area present x 5 PES_packet_length classes; flushed by a following unit or at end of stream"})

	// (2c) units of a few bytes: every prefix of 0..16 bytes of a PES packet / of a section is a whole unit (the rest
	// of the packet is adaptation field stuffing), on an elementary PID, PSI PIDs, the CAT PID and the null PID,
	// flushed by a following unit start or at the end of the stream
	{
		heads := [][]byte{
			{0x00, 0x00, 0x01, 0xe0, 0x00, 0x00, 0x80, 0x80, 0x05, 0x21, 0x00, 0x01, 0x00, 0x01, 0xaa, 0xbb},
			{0x00, 0x00, 0x01, 0xbe, 0x00, 0x04, 0xff, 0xff, 0xff, 0xff, 0x11, 0x22, 0x33, 0x44, 0x55, 0x66},
			{0x00, 0x00, 0xb0, 0x0d, 0x00, 0x01, 0xc1, 0x00, 0x00, 0x00, 0x01, 0xf0, 0x00, 0x2a, 0xb1, 0x04},
			{0x00, 0x00, 0x01, 0xbd, 0x00, 0x00, 0x8f, 0xff, 0xff, 0x00, 0x00, 0x00, 0x00, 0x00, 0x00, 0x00},
		}
		pidsS := []uint16{0x100, 0x00, 0x1000, 0x11, 0x01, 0x1fff}
		fams = append(fams, c03Family{name: "pes-dispatch:tiny-units", n: int64(len(heads)) * 17 * int64(len(pidsS)) * 2, cfgs: dataCfgs,
			gen: func(i int64) []byte {
				h := heads[i%int64(len(heads))]
				i /= int64(len(heads))
				l := int(i % 17)
				i /= 17
				pid := pidsS[i%int64(len(pidsS))]
				i /= int64(len(pidsS))
				var ps []*ref.Pkt
				if pid == 0x1000 {
					c0 := uint8(0)
					ps = append(ps, Packetize(PSIUnit(0, 0, [][]byte{SecPAT(modelPAT(1, 0x1000), ref.SecHdr{CNI: true})}, nil), nil, &c0, true)...)
				}
				cc := uint8(3)
				if l == 0 {
					ps = append(ps, &ref.Pkt{PID: pid, PUSI: true, HasAF: true, AF: stuffAF(nil, 184), CC: cc}) // no payload at all
				} else {
					ps = append(ps, &ref.Pkt{PID: pid, PUSI: true, HasPL: true, HasAF: true, AF: stuffAF(nil, 184-l), CC: cc, Payload: append([]byte{}, h[:l]...)})
				}
				if i == 1 {
					ps = append(ps, &ref.Pkt{PID: pid, PUSI: true, HasPL: true, HasAF: true, AF: stuffAF(nil, 184-l-0), CC: (cc + 1) & 0xf, Payload: append([]byte{}, h[:maxInt(l, 1)]...)})
					if l == 0 {
						ps[len(ps)-1].AF = stuffAF(nil, 183)
					}
				}
				return EncodePkts(ps)
			}, bound: "4 heads (PES video, padding stream, PAT section, private stream) x every prefix length 0..16 as a whole unit x 6 PIDs x {flushed by the next unit start, flushed at end of stream}"})
	}

	// (3) table_id x section_length x PID
	sls := []int{0, 1, 3, 4, 5, 8, 9, 12, 13, 17, 0x3fd, 0xfff}
	pidsT := []uint16{0x00, 0x10, 0x11, 0x12, 0x14, 0x1000}
	fams = append(fams, c03Family{name: "table-dispatch:", n: 256 * int64(len(sls)) * int64(len(pidsT)) * 3, cfgs: dataCfgs,
		gen: func(i int64) []byte {
			tid := byte(i % 256)
			i /= 256
			sl := sls[i%int64(len(sls))]
			i /= int64(len(sls))
			pid := pidsT[i%int64(len(pidsT))]
			i /= int64(len(pidsT))
			variant := int(i)
			body := bytes.Repeat([]byte{0xf0}, 40)
			if variant == 1 {
				body = bytes.Repeat([]byte{0x00}, 40)
			}
			sec := append([]byte{tid, 0xb0 | byte(sl>>8), byte(sl)}, body...)
			if variant == 2 && sl >= 4 && sl <= len(body) {
				// valid CRC so that the table body parser is reached
				n := 3 + sl - 4
				crc := ref.CRC(sec[:n])
				sec[n], sec[n+1], sec[n+2], sec[n+3] = byte(crc>>24), byte(crc>>16), byte(crc>>8), byte(crc)
			}
			var ps []*ref.Pkt
			if pid == 0x1000 {
				c0 := uint8(0)
				pat := modelPAT(1, 0x1000)
				ps = append(ps, Packetize(PSIUnit(0, 0, [][]byte{SecPAT(pat, ref.SecHdr{CNI: true})}, nil), nil, &c0, true)...)
			}
			cc := uint8(0)
			ps = append(ps, Packetize(SUnit{PID: pid, PSI: true, Bytes: append([]byte{0}, sec...)}, nil, &cc, true)...)
			return EncodePkts(ps)
		}, bound: "all 256 table ids x 12 section_length values x 6 PIDs x {0xF0 body, zero body, zero body with valid CRC}"})

	// (4) descriptors: tag x declared length x available bytes x fill, inside a PMT ES loop and an SDT loop
	dls := []int{0, 1, 2, 3, 4, 5, 6, 7, 8, 9, 10, 11, 12, 13, 16, 255}
	fams = append(fams, c03Family{name: "descriptor-dispatch:", n: 256 * int64(len(dls)) * 18 * 4 * 2, cfgs: dataCfgs[:1],
		gen: func(i int64) []byte {
			tag := byte(i % 256)
			i /= 256
			dl := dls[i%int64(len(dls))]
			i /= int64(len(dls))
			avail := int(i % 18) // bytes actually present after the descriptor header inside the loop
			i /= 18
			fill := []byte{0x00, 0xff, 0x01, 0x23}[i%4]
			i /= 4
			loop := append([]byte{tag, byte(dl)}, bytes.Repeat([]byte{fill}, avail)...)
			// sentinel descriptor after it
			loop = append(loop, 0x52, 1, 0x99)
			var sec []byte
			var pid uint16
			if i == 0 {
				pid = 0x1000
				sec = ref.Long(ref.SecHdr{TableID: 2, SSI: true, Ext: 1, CNI: true}, ref.PMTBody(0x100, nil, []ref.PMTStream{{Type: 0x1b, PID: 0x100, Descs: loop}}))
			} else {
				pid = 0x11
				sec = ref.Long(ref.SecHdr{TableID: 0x42, SSI: true, Private: true, Ext: 1, CNI: true}, ref.SDTBody(1, []ref.SDTService{{ID: 1, Running: 4, Descs: loop}}))
			}
			var ps []*ref.Pkt
			c0, cc := uint8(0), uint8(0)
			pat := modelPAT(1, 0x1000)
			ps = append(ps, Packetize(PSIUnit(0, 0, [][]byte{SecPAT(pat, ref.SecHdr{CNI: true})}, nil), nil, &c0, true)...)
			ps = append(ps, Packetize(SUnit{PID: pid, PSI: true, Bytes: append([]byte{0}, sec...)}, nil, &cc, true)...)
			return EncodePkts(ps)
		}, bound: "all 256 descriptor tags x 16 declared lengths x 0..17 bytes available x 4 fills x {PMT ES loop, SDT loop}, valid section CRC"})
	return fams
}

func maxInt(a, b int) int {
	if a > b {
		return a
	}
	return b
}
