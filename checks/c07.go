package checks

import (
	"bufio"
	"bytes"
	"context"
	"fmt"
	astits "github.com/asticode/go-astits"

	"verif/mc"
	"verif/ref"
)

func init() { register("C07", checkC07) }

type c07Lists struct {
	pids  []uint16
	lists [][]*ref.Pkt
	exp   map[uint16][]ExpData
	solo  map[uint16][]string
}

func c07Build(seed int64, thorough bool) *c07Lists {
	cc := []uint8{14, 3, 9, 0, 15}
	a1 := PESUnit(0x100, 0xe0, pesPayload(1, 184*2-14-30, seed), 100, false)
	a2n := 2
	a2 := PESUnit(0x100, 0xe0, pesPayload(2, 184*a2n-14-3-20, seed), 200, false)
	// first-packet adaptation fields with every variable-length part (their bytes are delivered with the unit)
	a1.AF = &ref.AF{RAI: true, PCR: &ref.PCR{Base: 1234, Ext: 5}, HasPrivate: true, Private: []byte("tpd-A1")}
	a2.AF = &ref.AF{HasPrivate: true, Private: []byte("tpd-A2-longer"), Ext: &ref.AFExt{LTW: true, LTWValid: true, LTWOffset: 9}}
	b1n := 2
	b1 := PESUnit(0x101, 0xc0, pesPayload(3, 184*b1n-14-9, seed), 300, true)
	b2 := PESUnit(0x101, 0xc0, pesPayload(4, 60, seed), 400, true)
	sdt := modelSDT(7)
	s1 := PSIUnit(0x11, 0, [][]byte{SecSDT(sdt, ref.SecHdr{CNI: true})}, []ExpData{{Kind: "SDT", Table: sdt}})
	sdt2 := modelSDT(1)
	s2 := PSIUnit(0x11, 0, [][]byte{SecSDT(sdt2, ref.SecHdr{CNI: true, Version: 1})}, []ExpData{{Kind: "SDT", Table: sdt2}})
	pat, pmt := modelPAT(0, 0x10, 1, 0x1000), modelPMT(1, 0x100, 2) // network entry (program_number 0) in front of the programme
	uPAT := PSIUnit(0, 0, [][]byte{SecPAT(pat, ref.SecHdr{CNI: true})}, []ExpData{{Kind: "PAT", Table: pat}})
	uPMT := PSIUnit(0x1000, 0, [][]byte{SecPMT(pmt, ref.SecHdr{CNI: true})}, []ExpData{{Kind: "PMT", Table: pmt}})
	l := &c07Lists{pids: []uint16{0x100, 0x101, 0x11, 0, 0x1000}}
	sdtPkts := Packetize(s1, nil, &cc[2], true)
	sdtExp := s1.Exp
	if thorough {
		sdtPkts = append(sdtPkts, Packetize(s2, nil, &cc[2], true)...)
		sdtExp = append(append([]ExpData{}, s1.Exp...), s2.Exp...)
	}
	l.lists = [][]*ref.Pkt{
		append(Packetize(a1, nil, &cc[0], false), Packetize(a2, nil, &cc[0], false)...),
		append(Packetize(b1, nil, &cc[1], false), Packetize(b2, nil, &cc[1], false)...),
		sdtPkts,
		Packetize(uPAT, nil, &cc[3], true),
		Packetize(uPMT, nil, &cc[4], true),
	}
	l.exp = map[uint16][]ExpData{0x100: {a1.Exp[0], a2.Exp[0]}, 0x101: {b1.Exp[0], b2.Exp[0]}, 0x11: sdtExp, 0: uPAT.Exp, 0x1000: uPMT.Exp}
	// solo runs of the real demuxer: each PID's packets alone (PMT: after the PAT)
	l.solo = map[uint16][]string{}
	for i, pid := range l.pids {
		ps := l.lists[i]
		if pid == 0x1000 {
			ps = append(append([]*ref.Pkt{}, l.lists[3]...), ps...)
		}
		out := DemuxBytes(EncodePkts(ps))
		l.solo[pid] = canonData(out.Data)[pid]
	}
	return l
}

func checkC07(c *mc.Ctx) {
	c.Ev.Level = "model_checking"
	c.Ev.Rule = "all order-preserving merges (schedules of the multiplex) of five per-PID packet sequences; every insertion position of null / adaptation-only / transport-error packets; every byte x mutation class of one PID's packets; per-PID output of the real Demuxer compared with that PID's solo run; distinct_nontrivial = distinct schedules / insertions / corruptions"
	c.Ev.Assumptions = append(c.Ev.Assumptions, "the PMT PID is compared only in schedules where the PAT packet precedes the PMT packet (the dependence the statement allows)",
		"corruptions never touch the PID field itself (a changed PID moves the packet to another PID by definition)")
	l := c07Build(c.Seed, c.Thorough())
	// the solo runs must be what the streams carry (cross-check of the baseline itself)
	for pid, es := range l.exp {
		out := &DmxOut{EOF: true}
		_ = out
		if len(l.solo[pid]) != len(es) {
			c.Rep.Report("solo-baseline-differs-from-carried-units", map[string]any{"kind": "note", "pid": pid, "message": fmt.Sprintf("solo run of PID %#x delivers %d data, %d carried", pid, len(l.solo[pid]), len(es))})
		}
	}
	lens := make([]int, len(l.lists))
	for i, x := range l.lists {
		lens[i] = len(x)
	}
	total := mc.MergeCount(lens)
	// enumerate merges in parallel: shard on the first two choices
	orders := make(chan []int, 1024)
	go func() {
		mc.Merges(lens, func(o []int) bool {
			if c.OverBudget() {
				return false
			}
			orders <- append([]int{}, o...)
			return true
		})
		close(orders)
	}()
	var batch [][]int
	var done int64
	flush := func() {
		b := batch
		done += mc.ParFor(int64(len(b)), nil, func(i int64) {
			o := b[i]
			st := BuildStream("merge", l.lists, o, nil)
			out := DemuxBytes(st.Bytes)
			patFirst := false
			for _, s := range o {
				if s == 3 {
					patFirst = true
					break
				}
				if s == 4 {
					break
				}
			}
			c07Compare(c, l, out, o, st.Bytes, patFirst, nil)
			if patFirst {
				c.Ev.Class("pmt-after-pat", 1)
			} else {
				c.Ev.Class("pmt-before-pat", 1)
			}
		})
		batch = batch[:0]
	}
	for o := range orders {
		batch = append(batch, o)
		if len(batch) == 8192 {
			flush()
		}
	}
	flush()
	c.Ev.DistinctAdd(done)
	c.Ev.Sample(map[string]any{"schedule_example": roundRobin(l.lists), "per_pid_lengths": lens})
	c.Ev.AddScenario(mc.Scenario{Name: "all-merges", SpaceSize: total, Executed: done, Exhaustive: done == total,
		Bound: fmt.Sprintf("all order-preserving merges of per-PID sequences of lengths %v", lens)})

	// per-PID sequences that contain legitimate duplicate packets (same counter, same bytes,
	// consecutive WITHIN the PID): every merge with other PIDs' packets - including between a
	// packet and its duplicate - must leave the output unchanged
	{
		dupLists := [][]*ref.Pkt{nil, nil, l.lists[2]}
		for _, k := range []int{0, 1} {
			for i, p := range l.lists[k] {
				dupLists[k] = append(dupLists[k], p)
				if i == 1 || (k == 0 && i == 2) {
					dupLists[k] = append(dupLists[k], p)
				}
			}
		}
		dl := &c07Lists{pids: []uint16{0x100, 0x101, 0x11}, lists: dupLists, solo: map[uint16][]string{}}
		for i, pid := range dl.pids {
			dl.solo[pid] = canonData(DemuxBytes(EncodePkts(dupLists[i])).Data)[pid]
			if !equalStrs(dl.solo[pid], l.solo[pid]) {
				c.Rep.Report("duplicate-changes-solo-output", map[string]any{"kind": "stream", "bytes": mc.Hex(EncodePkts(dupLists[i])), "message": fmt.Sprintf("PID %#x: adjacent duplicates change the output", pid)})
			}
		}
		dlens := []int{len(dupLists[0]), len(dupLists[1]), len(dupLists[2])}
		orders := mc.AllMerges(dlens)
		dd := mc.ParFor(int64(len(orders)), c.OverBudget, func(i int64) {
			st := BuildStream("dup-merge", dupLists, orders[i], nil)
			c07Compare(c, dl, DemuxBytes(st.Bytes), orders[i], st.Bytes, true, nil)
			c.Ev.Class("merge-with-duplicates", 1)
		})
		c.Ev.DistinctAdd(dd)
		c.Ev.AddScenario(mc.Scenario{Name: "merges-with-duplicates", SpaceSize: int64(len(orders)), Executed: dd, Exhaustive: dd == int64(len(orders)),
			Bound: fmt.Sprintf("all order-preserving merges of PES A (2 duplicated packets), PES B (1 duplicated packet) and the SDT PID, lengths %v", dlens)})
	}

	// a PAT sent as two sections (two units), each announcing one PMT PID: in every merge, every PMT
	// unit that follows the PAT section announcing its PID must be delivered, whatever other PAT
	// sections arrive in between
	{
		ccs := []uint8{0, 3, 6, 9}
		patA, patB := modelPAT(1, 0x1000), modelPAT(2, 0x1001)
		mkPMT := func(pid uint16, prog uint16, n int) SUnit {
			d := modelPMT(prog, 0x100, n)
			return PSIUnit(pid, 0, [][]byte{SecPMT(d, ref.SecHdr{CNI: true})}, []ExpData{{Kind: "PMT", Table: d}})
		}
		p1a, p1b, p2 := mkPMT(0x1000, 1, 1), mkPMT(0x1000, 1, 2), mkPMT(0x1001, 2, 3)
		a := PESUnit(0x100, 0xe0, pesPayload(1, 250, c.Seed), 1, false)
		lists := [][]*ref.Pkt{
			append(Packetize(PSIUnit(0, 0, [][]byte{SecPAT(patA, ref.SecHdr{CNI: true, LSN: 1})}, nil), nil, &ccs[0], true), Packetize(PSIUnit(0, 0, [][]byte{SecPAT(patB, ref.SecHdr{CNI: true, SN: 1, LSN: 1})}, nil), nil, &ccs[0], true)...),
			append(Packetize(p1a, nil, &ccs[1], true), Packetize(p1b, nil, &ccs[1], true)...),
			Packetize(p2, nil, &ccs[2], true),
			Packetize(a, nil, &ccs[3], false),
		}
		units := map[uint16][]ExpData{0x1000: {p1a.Exp[0], p1b.Exp[0]}, 0x1001: {p2.Exp[0]}}
		announce := map[uint16]int{0x1000: 0, 0x1001: 1} // index within the PAT list of the announcing packet
		lens := []int{len(lists[0]), len(lists[1]), len(lists[2]), len(lists[3])}
		orders := mc.AllMerges(lens)
		pd := mc.ParFor(int64(len(orders)), c.OverBudget, func(i int64) {
			o := orders[i]
			st := BuildStream("pat-sections", lists, o, nil)
			out := DemuxBytes(st.Bytes)
			got := byPID(out.Data)
			for li, pid := range map[int]uint16{1: 0x1000, 2: 0x1001} {
				// which units of this PID come after the announcing PAT packet
				seenPAT, k := 0, 0
				var must []ExpData
				for _, s := range o {
					if s == 0 {
						seenPAT++
					}
					if s == li {
						if seenPAT > announce[pid] {
							must = append(must, units[pid][k])
						}
						k++
					}
				}
				j := 0
				for _, d := range got[pid] {
					if j < len(must) {
						if ok, _ := must[j].Matches(d); ok {
							j++
						}
					}
				}
				if j != len(must) || out.Panic != nil {
					c.Rep.Report("pmt-lost-after-its-pat-section", map[string]any{"kind": "stream", "what": o, "bytes": mc.Hex(st.Bytes), "message": fmt.Sprintf("PID %#x: %d PMT units follow the PAT section announcing the PID, %d of them were delivered", pid, len(must), j)})
					return
				}
			}
			c.Ev.Class("pat-in-two-sections", 1)
		})
		c.Ev.DistinctAdd(pd)
		c.Ev.AddScenario(mc.Scenario{Name: "pat-sections-merges", SpaceSize: int64(len(orders)), Executed: pd, Exhaustive: pd == int64(len(orders)), Bound: fmt.Sprintf("all merges of a 2-section PAT (2 units), 2 PMT PIDs and a PES PID, lengths %v", lens)})
	}

	// tables that repeat while others are in flight: three identical single-packet PATs, two multi-packet
	// PMTs (3 and 2 packets), a multi-packet PES: a PMT unit must be delivered in every merge in which a PAT
	// packet precedes its first packet - repeating the PAT must not disturb a PMT being assembled
	{
		ccs := []uint8{2, 8, 13}
		pat := modelPAT(1, 0x1000)
		var patPk []*ref.Pkt
		for i := 0; i < 3; i++ {
			patPk = append(patPk, Packetize(PSIUnit(0, 0, [][]byte{SecPAT(pat, ref.SecHdr{CNI: true})}, nil), nil, &ccs[0], true)...)
		}
		pmtA, pmtB := modelPMT(1, 0x100, 90), modelPMT(1, 0x101, 45)
		uA := PSIUnit(0x1000, 0, [][]byte{SecPMT(pmtA, ref.SecHdr{CNI: true})}, []ExpData{{Kind: "PMT", Table: pmtA}})
		uB := PSIUnit(0x1000, 0, [][]byte{SecPMT(pmtB, ref.SecHdr{CNI: true, Version: 1})}, []ExpData{{Kind: "PMT", Table: pmtB}})
		pkA, pkB := Packetize(uA, nil, &ccs[1], true), Packetize(uB, nil, &ccs[1], true)
		pes := Packetize(PESUnit(0x100, 0xe0, pesPayload(77, 300, c.Seed), 7, false), nil, &ccs[2], false)
		lists := [][]*ref.Pkt{patPk, append(append([]*ref.Pkt{}, pkA...), pkB...), pes}
		lens := []int{len(lists[0]), len(lists[1]), len(lists[2])}
		orders := mc.AllMerges(lens)
		pd := mc.ParFor(int64(len(orders)), c.OverBudget, func(i int64) {
			o := orders[i]
			st := BuildStream("pat-repeats", lists, o, nil)
			out := DemuxBytes(st.Bytes)
			// PMT units whose first packet comes after a PAT packet
			seenPAT, k := 0, 0
			var must []ExpData
			for _, s := range o {
				switch s {
				case 0:
					seenPAT++
				case 1:
					if k == 0 && seenPAT > 0 {
						must = append(must, uA.Exp[0])
					}
					if k == len(pkA) && seenPAT > 0 {
						must = append(must, uB.Exp[0])
					}
					k++
				}
			}
			j := 0
			for _, d := range byPID(out.Data)[0x1000] {
				if j < len(must) {
					if ok, _ := must[j].Matches(d); ok {
						j++
					}
				}
			}
			if j != len(must) || out.Panic != nil || len(byPID(out.Data)[0]) != 3 || len(byPID(out.Data)[0x100]) != 1 {
				c.Rep.Report("repeated-pat-disturbs-other-pids", map[string]any{"kind": "stream", "what": o, "bytes": mc.Hex(st.Bytes), "message": fmt.Sprintf("%d PMT units start after a PAT, %d of them delivered; %d PAT, %d PES delivered (3 and 1 carried)", len(must), j, len(byPID(out.Data)[0]), len(byPID(out.Data)[0x100]))})
				return
			}
			c.Ev.Class("pat-repeated-during-pmt", 1)
		})
		c.Ev.DistinctAdd(pd)
		c.Ev.AddScenario(mc.Scenario{Name: "pat-repeats-merges", SpaceSize: int64(len(orders)), Executed: pd, Exhaustive: pd == int64(len(orders)), Bound: fmt.Sprintf("all merges of 3 identical PAT packets, two multi-packet PMT units on one PID and a multi-packet PES, lengths %v", lens)})
	}

	// PIDs that differ from a PMT PID in a single bit (and from each other): what the Demuxer learns about
	// one PID (it carries PMTs) must not leak to its neighbours in any index structure
	{
		var n int64
		for _, pmtPID := range []uint16{0x0234, 0x1fc0} {
			for k := 0; k < 13; k++ {
				esPID := pmtPID ^ (1 << uint(k))
				if esPID < 0x20 || esPID == 0x1fff {
					continue
				}
				ccs := []uint8{1, 2, 3}
				pat := modelPAT(1, pmtPID)
				pmt := modelPMT(1, esPID, 1)
				pmt.ElementaryStreams[0].ElementaryPID = esPID
				uPMT := PSIUnit(pmtPID, 0, [][]byte{SecPMT(pmt, ref.SecHdr{CNI: true})}, []ExpData{{Kind: "PMT", Table: pmt}})
				e1 := PESUnit(esPID, 0xe0, pesPayload(101, 200, c.Seed), 1, false)
				e2 := PESUnit(esPID, 0xe0, pesPayload(102, 90, c.Seed), 2, false)
				e3 := PESUnit(esPID, 0xe0, pesPayload(103, 10, c.Seed), 3, false)
				lists := [][]*ref.Pkt{
					Packetize(PSIUnit(0, 0, [][]byte{SecPAT(pat, ref.SecHdr{CNI: true})}, nil), nil, &ccs[0], true),
					Packetize(uPMT, nil, &ccs[1], true),
					append(append(Packetize(e1, nil, &ccs[2], false), Packetize(e2, nil, &ccs[2], false)...), Packetize(e3, nil, &ccs[2], false)...),
				}
				lens := []int{len(lists[0]), len(lists[1]), len(lists[2])}
				mc.Merges(lens, func(o []int) bool {
					st := BuildStream("pid-neighbours", lists, append([]int{}, o...), nil)
					out := DemuxBytes(st.Bytes)
					got := byPID(out.Data)[esPID]
					ok := len(got) == 3 && out.Panic == nil && len(out.Errs) == 0
					for i, e := range []ExpData{e1.Exp[0], e2.Exp[0], e3.Exp[0]} {
						if ok {
							ok, _ = e.Matches(got[i])
						}
					}
					if !ok {
						c.Rep.Report("pid-neighbour-of-a-pmt-pid-affected", map[string]any{"kind": "stream", "what": fmt.Sprintf("PMT PID %#x, elementary PID %#x, order %v", pmtPID, esPID, o), "bytes": mc.Hex(st.Bytes), "message": fmt.Sprintf("PID %#x carries 3 PES whatever the position of the PAT/PMT; %d data delivered, errors %v", esPID, len(got), errStrings(out.Errs))})
					}
					n++
					return true
				})
			}
		}
		c.Ev.DistinctAdd(n)
		c.Ev.Class("pid-neighbours", n)
		c.Ev.AddScenario(mc.Scenario{Name: "pid-neighbours-merges", SpaceSize: n, Executed: n, Exhaustive: true, Bound: "2 PMT PIDs x every elementary PID at Hamming distance 1 x all merges of PAT, PMT and three PES units"})
	}

	// two programmes whose PMTs name each other's PMT PID (and their own) as an elementary PID: what a table on one
	// PID says about another PID does not change what that PID delivers (only the PAT decides where PMTs are)
	{
		var n int64
		ccs := []uint8{1, 2, 3}
		pat := modelPAT(1, 0x200, 2, 0x201)
		pmtX := modelPMT(1, 0x201, 2)
		pmtX.ElementaryStreams[0].ElementaryPID, pmtX.ElementaryStreams[1].ElementaryPID = 0x201, 0x200
		mkY := func(v uint8) SUnit {
			d := modelPMT(2, 0x300, int(v)+1)
			return PSIUnit(0x201, 0, [][]byte{SecPMT(d, ref.SecHdr{CNI: true, Version: v})}, []ExpData{{Kind: "PMT", Table: d}})
		}
		y1, y2, y3 := mkY(0), mkY(1), mkY(2)
		uX := PSIUnit(0x200, 0, [][]byte{SecPMT(pmtX, ref.SecHdr{CNI: true})}, []ExpData{{Kind: "PMT", Table: pmtX}})
		lists := [][]*ref.Pkt{
			Packetize(PSIUnit(0, 0, [][]byte{SecPAT(pat, ref.SecHdr{CNI: true})}, nil), nil, &ccs[0], true),
			append(Packetize(uX, nil, &ccs[1], true), Packetize(uX, nil, &ccs[1], true)...),
			append(append(Packetize(y1, nil, &ccs[2], true), Packetize(y2, nil, &ccs[2], true)...), Packetize(y3, nil, &ccs[2], true)...),
		}
		lens := []int{len(lists[0]), len(lists[1]), len(lists[2])}
		mc.Merges(lens, func(o []int) bool {
			if o[0] != 0 {
				return true // the PAT comes first (a PMT PID is one from the PAT listing it on)
			}
			st := BuildStream("pmt-lists-pmt-pids", lists, append([]int{}, o...), nil)
			out := DemuxBytes(st.Bytes)
			got := byPID(out.Data)[0x201]
			ok := len(got) == 3 && out.Panic == nil && len(out.Errs) == 0
			for i, e := range []ExpData{y1.Exp[0], y2.Exp[0], y3.Exp[0]} {
				if ok {
					ok, _ = e.Matches(got[i])
				}
			}
			if !ok {
				c.Rep.Report("pmt-pid-affected-by-another-pmt", map[string]any{"kind": "stream", "what": fmt.Sprintf("order %v", o), "bytes": mc.Hex(st.Bytes), "message": fmt.Sprintf("PMT PID 0x201 carries 3 PMTs wherever the PMTs of PID 0x200 (which list 0x201 and 0x200 as elementary PIDs) fall; %d data delivered, errors %v", len(got), errStrings(out.Errs))})
			}
			n++
			return true
		})
		c.Ev.DistinctAdd(n)
		c.Ev.Class("pmt-lists-pmt-pids", n)
		c.Ev.AddScenario(mc.Scenario{Name: "pmt-lists-pmt-pids-merges", SpaceSize: n, Executed: n, Exhaustive: true, Bound: "PAT first, then all merges of two PMT units on one PMT PID (listing both PMT PIDs as elementary PIDs) with three PMT units on the other"})
	}
	// PMT units of two PMT PIDs in front of, around and behind the PAT that announces them: a unit of a PID the PAT
	// has not announced yet is judged when it is flushed (by the PID's next unit start, or at the end of the stream), so
	// a PMT is delivered exactly when the PAT arrives before the packet that flushes it - on each PID by itself,
	// whatever the other PMT PID has pending
	{
		var n int64
		ccs := []uint8{4, 8, 12}
		pat := modelPAT(1, 0x200, 2, 0x201)
		mk := func(pid uint16, prog uint16, v uint8, cc *uint8) []*ref.Pkt {
			return Packetize(PSIUnit(pid, 0, [][]byte{SecPMT(modelPMT(prog, 0x100, 1+int(v)), ref.SecHdr{CNI: true, Version: v})}, nil), nil, cc, true)
		}
		lists := [][]*ref.Pkt{
			Packetize(PSIUnit(0, 0, [][]byte{SecPAT(pat, ref.SecHdr{CNI: true})}, nil), nil, &ccs[0], true),
			append(mk(0x200, 1, 0, &ccs[1]), mk(0x200, 1, 1, &ccs[1])...),
			append(mk(0x201, 2, 0, &ccs[2]), mk(0x201, 2, 1, &ccs[2])...),
		}
		lens := []int{len(lists[0]), len(lists[1]), len(lists[2])}
		if lens[0] != 1 || lens[1] != 2 || lens[2] != 2 {
			panic("pmts-around-the-pat: units are expected to be one packet each")
		}
		mc.Merges(lens, func(o []int) bool {
			st := BuildStream("pmts-around-the-pat", lists, append([]int{}, o...), nil)
			out := DemuxBytes(st.Bytes)
			patPos := -1
			pos := map[int][]int{}
			for i, k := range o {
				if k == 0 {
					patPos = i
				} else {
					pos[k] = append(pos[k], i)
				}
			}
			got := byPID(out.Data)
			for k, pid := range map[int]uint16{1: 0x200, 2: 0x201} {
				// unit 0 is flushed by the start of unit 1 (or on completion when the PAT is already in), unit 1 at the end
				want := 1
				if patPos < pos[k][1] {
					want = 2
				}
				if len(got[pid]) != want || out.Panic != nil || len(out.Errs) > 0 {
					c.Rep.Report("pmt-pid-affected-by-another-pmt", map[string]any{"kind": "stream", "what": fmt.Sprintf("order %v", o), "bytes": mc.Hex(st.Bytes),
						"message": fmt.Sprintf("PMT PID %#x carries two PMTs (positions %v), the PAT is at position %d: %d PMTs delivered, %d expected (errors %v)", pid, pos[k], patPos, len(got[pid]), want, errStrings(out.Errs))})
				}
			}
			n++
			return true
		})
		c.Ev.DistinctAdd(n)
		c.Ev.Class("pmts-around-the-pat", n)
		c.Ev.AddScenario(mc.Scenario{Name: "pmts-around-the-pat-merges", SpaceSize: n, Executed: n, Exhaustive: true, Bound: "all merges of the PAT with two PMT units on each of two PMT PIDs (the PAT anywhere)"})
	}
	// adaptation fields of the same length and shape (stuffing only) on two PIDs, differing in their indicator bits
	// alone: what one PID's packets flag says nothing about the other PID's packets
	{
		var n int64
		for _, flags := range []struct{ disc, rai, prio bool }{{false, true, true}, {true, false, false}, {true, true, true}} {
			ccs := []uint8{6, 10}
			mk := func(pid uint16, tag int, cc *uint8, flagged bool) []*ref.Pkt {
				ps := Packetize(PESUnit(pid, 0xc0, pesPayload(tag, 60, c.Seed), uint64(tag), true), nil, cc, false)
				if flagged {
					ps[0].AF.Disc, ps[0].AF.RAI, ps[0].AF.ESPrio = flags.disc, flags.rai, flags.prio
				}
				return ps
			}
			lists := [][]*ref.Pkt{
				append(mk(0x100, 71, &ccs[0], true), mk(0x100, 72, &ccs[0], true)...),
				append(append(mk(0x101, 73, &ccs[1], false), Packetize(PESUnit(0x101, 0xc0, pesPayload(74, 184+60-14, c.Seed), 74, true), nil, &ccs[1], false)...), mk(0x101, 75, &ccs[1], false)...),
			}
			solo := map[uint16][]string{}
			for k, pid := range []uint16{0x100, 0x101} {
				solo[pid] = canonData(DemuxBytes(EncodePkts(lists[k])).Data)[pid]
				if pid == 0x101 && len(solo[pid]) != 3 {
					panic("same-length-adaptation-fields: baseline of the unflagged PID")
				}
			}
			mc.Merges([]int{len(lists[0]), len(lists[1])}, func(o []int) bool {
				st := BuildStream("same-length-adaptation-fields", lists, append([]int{}, o...), nil)
				out := DemuxBytes(st.Bytes)
				got := canonData(out.Data)
				for _, pid := range []uint16{0x100, 0x101} {
					if !equalStrs(got[pid], solo[pid]) || out.Panic != nil || len(out.Errs) > 0 {
						c.Rep.Report("pid-affected-by-adaptation-field-of-another-pid", map[string]any{"kind": "stream", "what": fmt.Sprintf("order %v flags %+v", o, flags), "bytes": mc.Hex(st.Bytes),
							"message": fmt.Sprintf("PID %#x: %d data in this merge, %d alone (or contents differ, the FirstPacket's adaptation field included); the other PID's packets carry adaptation fields of the same length with other indicator bits", pid, len(got[pid]), len(solo[pid]))})
						break
					}
				}
				n++
				return true
			})
		}
		c.Ev.DistinctAdd(n)
		c.Ev.Class("same-length-adaptation-fields", n)
		c.Ev.AddScenario(mc.Scenario{Name: "same-length-adaptation-fields-merges", SpaceSize: n, Executed: n, Exhaustive: true, Bound: "two PIDs whose packets carry stuffing-only adaptation fields of equal length, one PID's with discontinuity / random access / priority set (3 flag sets): all merges"})
	}
	// byte-identical payload units on several PIDs at once (the same audio on two PIDs, one PMT section carried on
	// the PMT PIDs of two programmes, the same SDT on the SDT PID and on a PMT PID): what a PID delivers carries
	// that PID, whatever an identical unit on another PID has just delivered
	{
		var n int64
		ccs := []uint8{0, 5, 9, 13, 2, 7}
		pat := modelPAT(1, 0x200, 2, 0x201)
		pmt := modelPMT(1, 0x100, 2)
		pmtB := modelPMT(1, 0x100, 3)
		pes := PESUnit(0, 0xc0, pesPayload(33, 120, c.Seed), 33, true)
		mkPMT := func(pid uint16, d *astits.PMTData, v uint8) []*ref.Pkt {
			return Packetize(PSIUnit(pid, 0, [][]byte{SecPMT(d, ref.SecHdr{CNI: true, Version: v})}, nil), nil, &ccs[1+int(pid&1)], true)
		}
		mkPES := func(pid uint16) []*ref.Pkt {
			u := pes
			u.PID = pid
			return Packetize(u, nil, &ccs[3+int(pid&1)], false)
		}
		lists := [][]*ref.Pkt{
			Packetize(PSIUnit(0, 0, [][]byte{SecPAT(pat, ref.SecHdr{CNI: true})}, nil), nil, &ccs[0], true),
			append(mkPMT(0x200, pmt, 0), mkPMT(0x200, pmtB, 1)...),
			append(mkPMT(0x201, pmt, 0), mkPMT(0x201, pmtB, 1)...),
			append(mkPES(0x100), mkPES(0x100)...),
			append(mkPES(0x101), mkPES(0x101)...),
		}
		want := map[uint16]int{0: 1, 0x200: 2, 0x201: 2, 0x100: 2, 0x101: 2}
		var solo map[uint16][]string
		lens := []int{len(lists[0]), len(lists[1]), len(lists[2]), len(lists[3]), len(lists[4])}
		mc.Merges(lens, func(o []int) bool {
			if o[0] != 0 {
				return true // the PAT comes first
			}
			st := BuildStream("identical-units-on-several-pids", lists, append([]int{}, o...), nil)
			out := DemuxBytes(st.Bytes)
			got := map[uint16][]string{}
			for _, d := range out.Data {
				x := *d
				x.FirstPacket = nil
				got[d.PID] = append(got[d.PID], mc.Canon(&x))
			}
			if solo == nil {
				solo = got // the first merge: one PID after the other
				for pid, k := range want {
					if len(got[pid]) != k {
						c.Rep.Report("identical-units-baseline", map[string]any{"kind": "stream", "what": fmt.Sprintf("order %v", o), "bytes": mc.Hex(st.Bytes), "message": fmt.Sprintf("PID %#x delivers %d data, %d units carried", pid, len(got[pid]), k)})
					}
				}
			}
			bad := out.Panic != nil || len(out.Errs) > 0 || len(got) != len(solo)
			for pid, g := range got {
				bad = bad || !equalStrs(g, solo[pid])
			}
			if bad {
				c.Rep.Report("pid-affected-by-identical-unit-on-another-pid", map[string]any{"kind": "stream", "what": fmt.Sprintf("order %v", o), "bytes": mc.Hex(st.Bytes), "message": fmt.Sprintf("two PMT PIDs and two audio PIDs carry byte-identical units: under this interleaving the data per PID differ from the PIDs one after the other (errors %v)", errStrings(out.Errs))})
			}
			n++
			return true
		})
		c.Ev.DistinctAdd(n)
		c.Ev.Class("identical-units-on-several-pids", n)
		c.Ev.AddScenario(mc.Scenario{Name: "identical-units-merges", SpaceSize: n, Executed: n, Exhaustive: true, Bound: "PAT first, then all merges of two PMT PIDs and two audio PIDs that carry the same two units each"})
	}

	// insertions: null, adaptation-only of a used PID, TEI packet of a used PID, at every position of
	// several base schedules
	bases := [][]int{roundRobin(l.lists)}
	var seqOrder []int
	for i := len(l.lists) - 1; i >= 0; i-- {
		for range l.lists[i] {
			seqOrder = append(seqOrder, i)
		}
	}
	bases = append(bases, seqOrder)
	var insDone, insTotal int64
	for _, o := range bases {
		st := BuildStream("base", l.lists, o, nil)
		patFirst := indexOf(o, 3) < indexOf(o, 4)
		mkIns := []func(at int) *ref.Pkt{
			func(int) *ref.Pkt {
				return &ref.Pkt{PID: 0x1fff, HasPL: true, Payload: bytes.Repeat([]byte{0xff}, 184)}
			},
			func(at int) *ref.Pkt { // adaptation-only packet of PID A carrying the counter of the last A packet
				return &ref.Pkt{PID: 0x100, HasAF: true, AF: &ref.AF{PCR: &ref.PCR{Base: 5}, Stuffing: 176}, CC: lastCCBefore(st.Pkts, 0x100, at)}
			},
			func(at int) *ref.Pkt { // transport error packet of PID B (content garbage, counter repeated)
				return &ref.Pkt{PID: 0x101, TEI: true, HasPL: true, PUSI: true, Payload: bytes.Repeat([]byte{0x00}, 184), CC: lastCCBefore(st.Pkts, 0x101, at)}
			},
			func(at int) *ref.Pkt { // adaptation-only packet of PID A signalling a (PCR) discontinuity
				return &ref.Pkt{PID: 0x100, HasAF: true, AF: &ref.AF{Disc: true, PCR: &ref.PCR{Base: 7}, Stuffing: 176}, CC: lastCCBefore(st.Pkts, 0x100, at)}
			},
			func(at int) *ref.Pkt { // adaptation-only packet of PID B whose counter was (wrongly) advanced: it carries no payload
				return &ref.Pkt{PID: 0x101, HasAF: true, AF: &ref.AF{Stuffing: 182}, CC: (lastCCBefore(st.Pkts, 0x101, at) + 1) & 0xf}
			},
			func(at int) *ref.Pkt { // adaptation-only packet with discontinuity_indicator on the SDT PID
				return &ref.Pkt{PID: 0x11, HasAF: true, AF: &ref.AF{Disc: true, Stuffing: 182}, CC: (lastCCBefore(st.Pkts, 0x11, at) + 5) & 0xf}
			},
			func(at int) *ref.Pkt { // adaptation-only packet on the SDT PID
				return &ref.Pkt{PID: 0x11, HasAF: true, AF: &ref.AF{Stuffing: 182}, CC: lastCCBefore(st.Pkts, 0x11, at)}
			},
		}
		n := int64(len(st.Pkts)+1) * int64(len(mkIns))
		insTotal += n
		insDone += mc.ParFor(n, c.OverBudget, func(i int64) {
			at, k := int(i)/len(mkIns), int(i)%len(mkIns)
			ps := append(append(append([]*ref.Pkt{}, st.Pkts[:at]...), mkIns[k](at)), st.Pkts[at:]...)
			b := EncodePkts(ps)
			out := DemuxBytes(b)
			c07Compare(c, l, out, []int{at, k}, b, patFirst, nil)
			c.Ev.Class("packet-inserted", 1)
			c.Ev.Distinct(fmt.Sprintf("ins%v-%d-%d", o[:3], at, k))
		})
	}
	c.Ev.AddScenario(mc.Scenario{Name: "insertions", SpaceSize: insTotal, Executed: insDone, Exhaustive: insDone == insTotal,
		Bound: "2 base schedules x every insertion position x {null packet, AF-only on PES PID, TEI packet on PES PID, AF-only with discontinuity_indicator, AF-only with advanced counter, AF-only on PSI PID (plain and with discontinuity_indicator)}"})

	// single-PID corruption: every byte (except the PID field) of every packet of PID A
	o := roundRobin(l.lists)
	st := BuildStream("base", l.lists, o, nil)
	patFirst := indexOf(o, 3) < indexOf(o, 4)
	var sites []int
	for pi, p := range st.Pkts {
		if p.PID != 0x100 {
			continue
		}
		for off := 0; off < 188; off++ {
			if off == 1 || off == 2 {
				continue // PID field (and TEI/PUSI/priority flags sharing its first byte are covered by the class below)
			}
			sites = append(sites, pi*188+off)
		}
	}
	muts := []func(byte) byte{func(byte) byte { return 0 }, func(byte) byte { return 0xff }, func(b byte) byte { return b ^ 1 }, func(b byte) byte { return b ^ 0x80 }, func(b byte) byte { return b + 1 }, func(byte) byte { return 0x47 }}
	// flags in byte 1 (TEI, PUSI, priority) without touching the PID bits
	flagMuts := []byte{0x80, 0x40, 0x20}
	n := int64(len(sites) * len(muts))
	cdone := mc.ParFor(n, c.OverBudget, func(i int64) {
		site, m := sites[int(i)/len(muts)], muts[int(i)%len(muts)]
		b := append([]byte{}, st.Bytes...)
		nb := m(b[site])
		if nb == b[site] {
			return
		}
		b[site] = nb
		out := DemuxBytes(b)
		c07Compare(c, l, out, []int{site}, b, patFirst, map[uint16]bool{0x100: true})
		c.Ev.Class("pid-corrupted", 1)
	})
	for pi, p := range st.Pkts {
		if p.PID != 0x100 {
			continue
		}
		for _, f := range flagMuts {
			b := append([]byte{}, st.Bytes...)
			b[pi*188+1] ^= f
			out := DemuxBytes(b)
			c07Compare(c, l, out, []int{pi*188 + 1, int(f)}, b, patFirst, map[uint16]bool{0x100: true})
			cdone++
			n++
		}
	}
	// loss and garbage confined to PID A: every subset of A's packets deleted; garbage packets with
	// A's PID (arbitrary counter, PUSI or not, PES-looking or not) inserted at every position
	{
		var aIdx []int
		for pi, p := range st.Pkts {
			if p.PID == 0x100 {
				aIdx = append(aIdx, pi)
			}
		}
		for mask := 1; mask < 1<<uint(len(aIdx)); mask++ {
			var ps []*ref.Pkt
			for pi, p := range st.Pkts {
				drop := false
				for k, ai := range aIdx {
					if ai == pi && mask>>uint(k)&1 == 1 {
						drop = true
					}
				}
				if !drop {
					ps = append(ps, p)
				}
			}
			b := EncodePkts(ps)
			c07Compare(c, l, DemuxBytes(b), []int{-1, mask}, b, patFirst, map[uint16]bool{0x100: true})
			cdone++
			n++
			c.Ev.Class("pid-loss", 1)
		}
		garbage := []*ref.Pkt{
			{PID: 0x100, HasPL: true, CC: 9, Payload: bytes.Repeat([]byte{0x5a}, 184)},
			{PID: 0x100, HasPL: true, PUSI: true, CC: 3, Payload: append([]byte{0, 0, 1, 0xe0, 0xff, 0xff, 0x80, 0xc0, 0x0a}, bytes.Repeat([]byte{0x11}, 175)...)},
			{PID: 0x100, HasPL: true, PUSI: true, CC: 0, Payload: bytes.Repeat([]byte{0x00}, 184)},
			{PID: 0x100, HasPL: true, HasAF: true, AF: &ref.AF{Disc: true, Stuffing: 100}, CC: 12, Payload: bytes.Repeat([]byte{0xfe}, 82)},
		}
		for at := 0; at <= len(st.Pkts); at++ {
			for _, g := range garbage {
				ps := append(append(append([]*ref.Pkt{}, st.Pkts[:at]...), g), st.Pkts[at:]...)
				b := EncodePkts(ps)
				c07Compare(c, l, DemuxBytes(b), []int{-2, at}, b, patFirst, map[uint16]bool{0x100: true})
				cdone++
				n++
				c.Ev.Class("pid-garbage", 1)
			}
		}
	}
	// a packet of PID A that cannot be parsed at all (its adaptation field overruns the packet), at every
	// position including the last ones, read with an explicit packet size and with auto-detection (seekable
	// and buffered reader): the error is reported, the packets that follow - other PIDs' - are not affected
	{
		for at := 2; at <= len(st.Pkts); at++ {
			for variant := 0; variant < 2; variant++ {
				// variant 1: PID A carries nothing after the bad packet, so that the packets behind it are other PIDs'
				// whatever the schedule (the last packets of the stream in particular)
				ps := append(append([]*ref.Pkt{}, st.Pkts[:at]...), &ref.Pkt{PID: 0x100, HasPL: true, CC: 1, Payload: bytes.Repeat([]byte{0x5a}, 184)})
				for _, p := range st.Pkts[at:] {
					if variant == 0 || p.PID != 0x100 {
						ps = append(ps, p)
					}
				}
				b := EncodePkts(ps)
				copy(b[at*188:], []byte{0x47, 0x01, 0x00, 0x21, 0xb7, 0x02, 0xff}) // transport_private_data_length overruns the packet
				for k, mk := range []func() *astits.Demuxer{
					func() *astits.Demuxer {
						return astits.NewDemuxer(context.Background(), bytes.NewReader(b), astits.DemuxerOptPacketSize(188))
					},
					func() *astits.Demuxer { return astits.NewDemuxer(context.Background(), bytes.NewReader(b)) },
					func() *astits.Demuxer {
						return astits.NewDemuxer(context.Background(), bufio.NewReader(bytes.NewReader(b)))
					},
				} {
					c07Compare(c, l, DrainData(mk(), len(b)), []int{-4, at, k, variant}, b, patFirst, map[uint16]bool{0x100: true})
					cdone++
					n++
				}
			}
			c.Ev.Class("pid-unparsable-packet", 1)
		}
	}
	// garbage that is well-formed as a table of ANOTHER kind (valid CRC_32): a PAT-format section on the SDT
	// PID or on the PMT PID naming the elementary PIDs, a PMT-format section on the SDT PID. Whatever is
	// made of it on its own PID, every other PID is delivered as before.
	{
		fakePAT := SecPAT(modelPAT(5, 0x101, 6, 0x100), ref.SecHdr{CNI: true, Version: 9})
		fakePMT := SecPMT(modelPMT(5, 0x101, 2), ref.SecHdr{CNI: true})
		mkG := func(pid uint16, sec []byte, cc uint8) *ref.Pkt {
			pl := append(append([]byte{0x00}, sec...), bytes.Repeat([]byte{0xff}, 183-len(sec))...)
			return &ref.Pkt{PID: pid, PUSI: true, HasPL: true, CC: cc, Payload: pl}
		}
		type tg struct {
			pkt    *ref.Pkt
			exempt uint16
		}
		gs := []tg{{mkG(0x11, fakePAT, 5), 0x11}, {mkG(0x1000, fakePAT, 5), 0x1000}, {mkG(0x11, fakePMT, 5), 0x11}, {mkG(0x14, fakePAT, 0), 0x14}}
		for at := 0; at <= len(st.Pkts); at++ {
			for _, g := range gs {
				// the garbage packet must not sit inside a unit of its own PID that the comparison relies on:
				// its PID is exempt altogether
				ps := append(append(append([]*ref.Pkt{}, st.Pkts[:at]...), g.pkt), st.Pkts[at:]...)
				b := EncodePkts(ps)
				c07Compare(c, l, DemuxBytes(b), []int{-3, at}, b, patFirst, map[uint16]bool{g.exempt: true})
				cdone++
				n++
				c.Ev.Class("pid-garbage-looking-like-another-table", 1)
			}
		}
	}
	c.Ev.DistinctAdd(cdone)
	c.Ev.AddScenario(mc.Scenario{Name: "single-pid-corruption", SpaceSize: n, Executed: cdone, Exhaustive: cdone == n,
		Bound: "every byte of every packet of PID 0x100 (PID bits excluded) x {0x00, 0xFF, ^0x01, ^0x80, +1, 0x47} plus TEI/PUSI/priority flips, every subset of its packets deleted, 4 garbage packets with its PID at every position; packets carrying a CRC-valid section of another table kind (PAT / PMT format) on the SDT, TOT and PMT PIDs at every position; all other PIDs must be unchanged"})
	c.Ev.Require("pmt-after-pat", "pmt-before-pat", "packet-inserted", "pid-corrupted", "merge-with-duplicates", "pid-unparsable-packet")
}

func indexOf(o []int, v int) int {
	for i, x := range o {
		if x == v {
			return i
		}
	}
	return -1
}

func lastCCBefore(ps []*ref.Pkt, pid uint16, at int) uint8 {
	for i := at - 1; i >= 0; i-- {
		if ps[i].PID == pid && ps[i].HasPL {
			return ps[i].CC
		}
	}
	// none before: one less than the first
	for _, p := range ps {
		if p.PID == pid {
			return (p.CC + 15) & 0xf
		}
	}
	return 0
}

// c07Compare compares every PID's delivered sequence with its solo run. skip names PIDs whose
// own packets were corrupted (their output is unconstrained here; errors for them are allowed).
func c07Compare(c *mc.Ctx, l *c07Lists, out *DmxOut, what []int, b []byte, patFirst bool, skip map[uint16]bool) {
	rep := func(sig, msg string) {
		c.Rep.Report(sig, map[string]any{"kind": "stream", "what": what, "bytes": mc.Hex(b), "message": msg})
	}
	if out.Panic != nil {
		rep("panic", fmt.Sprint(out.Panic))
		return
	}
	if !out.EOF {
		rep("no-eof", "ErrNoMorePackets not reached")
		return
	}
	if len(out.Errs) > 0 && skip == nil {
		rep("error-on-wellformed-stream", fmt.Sprint(out.Errs[0]))
	}
	got := canonData(out.Data)
	for _, pid := range l.pids {
		if skip[pid] {
			continue
		}
		if pid == 0x1000 && !patFirst {
			continue
		}
		if !equalStrs(got[pid], l.solo[pid]) {
			rep(fmt.Sprintf("pid-output-depends-on-other-pids:%s", pidClass(pid)), fmt.Sprintf("PID %#x delivered %d data, its solo run delivers %d (or contents differ)", pid, len(got[pid]), len(l.solo[pid])))
			return
		}
	}
	for pid := range got {
		known := false
		for _, p := range l.pids {
			if p == pid {
				known = true
			}
		}
		if !known && !skip[0x100] && !skip[pid] {
			rep("foreign-pid", fmt.Sprintf("PID %#x delivered data", pid))
		}
	}
}
