package checks

import (
	"bytes"
	"context"
	"fmt"

	astits "github.com/asticode/go-astits"

	"verif/mc"
)

// c19RunSkipParser runs NextData to the end with a PacketsParser of the given mode (0 observer, 1 replacer
// returning one datum per unit, 2 replacer returning nothing for odd units) and, when skip is not nil, a
// PacketSkipper. It returns the delivered data and the units the parser was handed, both in canonical form.
func c19RunSkipParser(b []byte, skip func(call int) bool, mode int) (data, units []string, prob string) {
	data, units, prob, _ = c19RunSkipParserU(b, skip, mode)
	return
}

func c19RunSkipParserU(b []byte, skip func(call int) bool, mode int) (data, units []string, prob, badUnit string) {
	calls, pcalls := 0, 0
	parser := func(ps []*astits.Packet) ([]*astits.DemuxerData, bool, error) {
		units = append(units, mc.Canon(ps))
		call := pcalls
		pcalls++
		// whatever the stream (here: every deletion pattern, so counter gaps sit before, inside and after every
		// unit), a unit is non-empty and of a single PID
		if len(ps) == 0 {
			if badUnit == "" {
				badUnit = fmt.Sprintf("parser call %d was handed an empty unit", call)
			}
			return nil, false, nil
		}
		for _, p := range ps {
			if p.Header.PID != ps[0].Header.PID && badUnit == "" {
				badUnit = fmt.Sprintf("parser call %d was handed packets of PIDs %#x and %#x in one unit", call, ps[0].Header.PID, p.Header.PID)
			}
		}
		switch mode {
		case 1:
			return []*astits.DemuxerData{{PID: ps[0].Header.PID, PES: &astits.PESData{Data: []byte{byte(call)}}}}, true, nil
		case 2:
			if call%2 == 1 {
				return nil, true, nil
			}
			return []*astits.DemuxerData{{PID: ps[0].Header.PID, PES: &astits.PESData{Data: []byte{byte(call)}}}}, true, nil
		}
		return nil, false, nil
	}
	opts := []func(*astits.Demuxer){astits.DemuxerOptPacketSize(188), astits.DemuxerOptPacketsParser(parser)}
	if skip != nil {
		opts = append(opts, astits.DemuxerOptPacketSkipper(func(p *astits.Packet) bool {
			s := skip(calls)
			calls++
			return s
		}))
	}
	d := astits.NewDemuxer(context.Background(), bytes.NewReader(b), opts...)
	o := DrainData(d, len(b))
	if o.Panic != nil || !o.EOF || len(o.Errs) > 0 {
		return nil, units, fmt.Sprintf("panic=%v eof=%v errs=%v", o.Panic, o.EOF, errStrings(o.Errs)), badUnit
	}
	for _, x := range o.Data {
		data = append(data, mc.Canon(x))
	}
	return data, units, "", badUnit
}

// c19Product: the two options together. For every skip vector and every parser mode, the Demuxer with both
// installed behaves as the Demuxer with the parser alone on the physically filtered stream: the same data
// are delivered and the parser is handed the same units in the same order (a skipped packet is in no unit,
// and skipping never splits or merges the units around it other than by the deletion itself).
func c19Product(c *mc.Ctx, st *Stream, maxN int) {
	n := len(st.Pkts)
	if n > maxN {
		return
	}
	total := int64(1) << uint(n)
	for mode := 0; mode < 3; mode++ {
		mode := mode
		done := mc.ParFor(total, c.OverBudget, func(mask int64) {
			got, gu, prob, badUnit := c19RunSkipParserU(st.Bytes, func(call int) bool { return mask>>uint(call)&1 == 1 }, mode)
			var fb []byte
			for i := 0; i < n; i++ {
				if mask>>uint(i)&1 == 0 {
					fb = append(fb, st.Bytes[i*188:(i+1)*188]...)
				}
			}
			want, wu, p2 := c19RunSkipParser(fb, nil, mode)
			det := map[string]any{"kind": "stream", "stream": st.Name, "api": "data", "skip_mask": mask, "parser_mode": mode, "bytes": mc.Hex(st.Bytes)}
			rep := func(sig, msg string) { det["message"] = msg; c.Rep.Report(sig, det) }
			if badUnit != "" {
				rep("parser-argument", badUnit)
			}
			switch {
			case prob != "" || p2 != "":
				if prob != p2 {
					rep("skipper-with-parser-run-failed", fmt.Sprintf("with skipper: %q; on the filtered stream: %q", prob, p2))
				}
			case !equalStrs(gu, wu):
				rep("skipper-with-parser-units-differ-from-deletion", fmt.Sprintf("parser handed %d units with the skipper, %d on the filtered stream (or contents differ)", len(gu), len(wu)))
			case !equalStrs(got, want):
				rep("skipper-with-parser-differs-from-deletion", fmt.Sprintf("%d data with the skipper, %d on the filtered stream (or contents differ)", len(got), len(want)))
			}
			if mask != 0 && mask != total-1 {
				c.Ev.Class("skip-vector-with-parser", 1)
			}
			c.Ev.Distinct(fmt.Sprintf("%s|product|%d|%d", st.Name, mode, mask))
		})
		c.Ev.AddScenario(mc.Scenario{Name: fmt.Sprintf("skip-vectors-with-parser:%s:mode%d", st.Name, mode), SpaceSize: total, Executed: done, Exhaustive: done == total,
			Bound: fmt.Sprintf("all 2^%d per-packet skip decisions with a PacketsParser installed (0 observer, 1 replacer, 2 replacer returning nothing for odd units), against the parser alone on the filtered stream", n)})
	}
}
