package checks

import (
	"fmt"

	"verif/mc"
	"verif/ref"
)

// c02UnitOfPackets builds a unit of the given kind that packetises (greedily) into exactly pk packets; variant
// changes its contents without changing its size class.
func c02UnitOfPackets(pid uint16, kind string, pk, variant int, seed int64) (SUnit, bool) {
	for n := 0; n < 400; n++ {
		var u SUnit
		switch kind {
		case "pat":
			var args []uint16
			for i := 0; i < n; i++ {
				args = append(args, uint16(1+i+variant*300), uint16(0x1000+i))
			}
			s := SecPAT(modelPAT(args...), ref.SecHdr{CNI: true, Version: uint8(variant)})
			if len(s) > 1024 {
				return SUnit{}, false
			}
			u = PSIUnit(pid, 0, [][]byte{s}, nil)
		case "pmt":
			d := modelPMT(1, 0x100, n)
			d.PCRPID = uint16(0x100 + variant)
			s := SecPMT(d, ref.SecHdr{CNI: true, Version: uint8(variant)})
			if len(s) > 1024 {
				return SUnit{}, false
			}
			u = PSIUnit(pid, 0, [][]byte{s}, nil)
		case "eit":
			d := modelEIT(n)
			d.ServiceID = uint16(0x600 + variant)
			s := SecEIT(d, ref.SecHdr{CNI: true, Version: uint8(variant)})
			if len(s) > 4096 {
				return SUnit{}, false
			}
			u = PSIUnit(pid, 0, [][]byte{s}, nil)
		case "pes":
			if n > 0 {
				return SUnit{}, false
			}
			u = PESUnit(pid, 0xe0, pesPayload(200+variant, 184*pk-14-5, seed), uint64(variant+1), false)
		}
		cc := uint8(0)
		if got := len(Packetize(u, nil, &cc, true)); got == pk {
			return u, true
		} else if got > pk {
			return SUnit{}, false
		}
	}
	return SUnit{}, false
}

// c02CounterWrap: a unit that comes again, byte for byte, exactly 16 (and 32) packets of its PID later - with the
// same continuity counter, since the counter has gone round - is a unit of its own and is delivered like the
// first time. In between: fifteen single-packet units, units of 5+5+5, 7+8, 3+6+6, 1+14 and 15 packets.
func c02CounterWrap(c *mc.Ctx) {
	shapes := [][]int{{1, 1, 1, 1, 1, 1, 1, 1, 1, 1, 1, 1, 1, 1, 1}, {5, 5, 5}, {7, 8}, {3, 6, 6}, {1, 14}, {15}, {14}, {2, 13}}
	kinds := []struct {
		pid  uint16
		kind string
	}{{0, "pat"}, {0x1000, "pmt"}, {0x12, "eit"}, {0x100, "pes"}}
	var cases int64
	for _, k := range kinds {
		for _, xPk := range []int{1, 2} { // the repeated unit: one packet, two packets
			for si, shape := range shapes {
				sum := 0
				for _, p := range shape {
					sum += p
				}
				if sum+xPk != 16 {
					continue
				}
				x, ok := c02UnitOfPackets(k.pid, k.kind, xPk, 0, c.Seed)
				var fill [][]SUnit
				for round := 0; round < 2 && ok; round++ {
					var f []SUnit
					for i, p := range shape {
						u, ok2 := c02UnitOfPackets(k.pid, k.kind, p, 1+round*20+i, c.Seed)
						ok = ok && ok2
						f = append(f, u)
					}
					fill = append(fill, f)
				}
				if !ok {
					continue // this kind has no unit of that many packets (PAT / PMT sections end at 1024 bytes)
				}
				var prefix []*ref.Pkt
				if k.kind == "pmt" {
					prefix = Packetize(PSIUnit(0, 0, [][]byte{SecPAT(modelPAT(1, 0x1000), ref.SecHdr{CNI: true})}, nil), nil, new(uint8), true)
				}
				units := append(append(append(append([]SUnit{x}, fill[0]...), x), fill[1]...), x)
				cc := uint8(11)
				var pkts []*ref.Pkt
				var want []string
				for _, u := range units {
					ps := Packetize(u, nil, &cc, true)
					solo := DemuxBytes(EncodePkts(append(append([]*ref.Pkt{}, prefix...), ps...)))
					want = append(want, canonData(solo.Data)[k.pid]...)
					pkts = append(pkts, ps...)
				}
				b := EncodePkts(append(append([]*ref.Pkt{}, prefix...), pkts...))
				out := DemuxBytes(b)
				got := canonData(out.Data)[k.pid]
				cases++
				c.Ev.Distinct(fmt.Sprintf("counter-wrap|%s|%d|%d", k.kind, xPk, si))
				if out.Panic != nil || len(out.Errs) > 0 || len(want) < len(units) || !equalStrs(got, want) {
					c.Rep.Report("unit-repeated-after-counter-wrap:"+k.kind, map[string]any{"kind": "stream", "scenario": "counter-wrap", "bytes": mc.Hex(b),
						"message": fmt.Sprintf("%s PID %#x: a %d-packet unit, %v packets of other units, the same unit again (same continuity counter), %v packets, the unit a third time: %d data delivered, %d carried (errors %v)", k.kind, k.pid, xPk, shape, shape, len(got), len(want), errStrings(out.Errs))})
				}
			}
		}
	}
	c.Ev.Class("unit-repeated-after-counter-wrap", cases)
	c.Ev.AddScenario(mc.Scenario{Name: "identical-unit-16-packets-later", SpaceSize: cases, Executed: cases, Exhaustive: true,
		Bound: "PAT / PMT / EIT / PES PID x repeated unit of 1 or 2 packets x fillers of 15x1, 5+5+5, 7+8, 3+6+6, 1+14, 15, 14, 2+13 packets (where the kind has units that long), the unit three times at distances of 16 packets"})
}
