package checks

import (
	"bytes"
	"context"
	"errors"
	"fmt"

	astits "github.com/asticode/go-astits"
	"verif/mc"
	"verif/ref"
)

func init() {
	register("C02", checkC02)
	Replayers["stream"] = func(d map[string]any) error {
		var b mc.Hex
		if err := reJSON(d["bytes"], &b); err != nil {
			return err
		}
		out := DemuxBytes(b)
		fmt.Printf("  %d data, errs=%v eof=%v panic=%v\n", len(out.Data), errStrings(out.Errs), out.EOF, out.Panic)
		for _, x := range out.Data {
			fmt.Printf("   pid=%#x %s\n", x.PID, dataKind(x))
		}
		if m, ok := d["message"].(string); ok {
			return errors.New(m)
		}
		return nil
	}
}

type unitKind struct {
	Name     string
	Make     func(pointer, trailFF int) SUnit // pointer/trailFF only meaningful for PSI
	PSI      bool
	NeedsPAT bool // PMT PID must be announced by a PAT first
	Early    bool // PAT/PMT: returned by the call that reads the final packet
	Big      bool // unit of many packets: single deviations over the small alphabet only, no pairs
}

// privateUnit: a payload unit on a PID the library has no parser for (no PSI PID, no PES start code).
func privateUnit(pid uint16, head []byte, n int) SUnit {
	b := append([]byte{}, head...)
	for i := 0; i < n; i++ {
		b = append(b, byte(0x30+i%0x40))
	}
	return SUnit{PID: pid, Bytes: b}
}

// lastSectionStart returns the offset (within unit bytes) of the first byte of the last section.
func lastSectionStart(u SUnit) int {
	secs, _ := ref.ParseUnit(u.Bytes)
	o := 1 + int(u.Bytes[0])
	for i := 0; i < len(secs)-1; i++ {
		o += len(secs[i].Bytes)
	}
	return o
}

// sectionsEnd returns the offset just after the last section byte.
func sectionsEnd(u SUnit) int {
	secs, _ := ref.ParseUnit(u.Bytes)
	o := 1 + int(u.Bytes[0])
	for _, s := range secs {
		o += len(s.Bytes)
	}
	return o
}

func withTrail(u SUnit, n int) SUnit {
	for i := 0; i < n; i++ {
		u.Bytes = append(u.Bytes, 0xff)
	}
	return u
}

func c02Kinds(seed int64) []unitKind {
	pmtPID := uint16(0x1000)
	return []unitKind{
		{Name: "pes-bounded", Make: func(_, _ int) SUnit { return PESUnit(0x101, 0xc0, pesPayload(11, 420, seed), 0x1_2345_6789, true) }},
		{Name: "pes-unbounded", Make: func(_, _ int) SUnit { return PESUnit(0x100, 0xe0, pesPayload(12, 500, seed), 1, false) }},
		{Name: "pes-start-code-lookalikes", Make: func(_, _ int) SUnit { return PESUnit(0x100, 0xe0, hostilePayload(0, 430), 3, false) }},
		{Name: "pes-bounded-start-code-lookalikes", Make: func(_, _ int) SUnit { return PESUnit(0x101, 0xc0, hostilePayload(4, 300), 4, true) }},
		{Name: "pes-unbounded-ff-ends", Make: func(_, _ int) SUnit { return PESUnit(0x100, 0xef, hostilePayload(9, 400), 5, false) }}, // video stream ids other than 0xe0 are unbounded as well
		{Name: "pes-unbounded-all-ff", Make: func(_, _ int) SUnit { return PESUnit(0x100, 0xe7, hostilePayload(10, 250), 6, false) }},
		// private data on a PID that is neither PSI nor PES: the unit starts with bytes that are close to, but not,
		// the PES start code 00 00 01. Nothing is delivered for it and nothing is reported as an error.
		{Name: "private-data-5-0-1", Make: func(_, _ int) SUnit {
			return privateUnit(0x102, []byte{0x05, 0x00, 0x01, 0xe0, 0x00, 0x00, 0x80, 0x00, 0x00}, 300)
		}},
		{Name: "private-data-0-5-1", Make: func(_, _ int) SUnit {
			return privateUnit(0x102, []byte{0x00, 0x05, 0x01, 0xe0, 0x00, 0x00, 0x80, 0x00, 0x00}, 300)
		}},
		{Name: "private-data-0-0-2", Make: func(_, _ int) SUnit {
			return privateUnit(0x102, []byte{0x00, 0x00, 0x02, 0xe0, 0x00, 0x00, 0x80, 0x00, 0x00}, 200)
		}},
		{Name: "private-data-0-1-0", Make: func(_, _ int) SUnit {
			return privateUnit(0x102, []byte{0x00, 0x01, 0x00, 0x00, 0x01, 0xe0, 0x00, 0x00}, 190)
		}},
		{Name: "private-data-2-bytes", Make: func(_, _ int) SUnit { return privateUnit(0x102, []byte{0x00, 0x00}, 0) }},
		{Name: "pes-with-af", Make: func(_, _ int) SUnit {
			u := PESUnit(0x100, 0xe0, pesPayload(13, 380, seed), 2, false)
			u.AF = &ref.AF{RAI: true, PCR: &ref.PCR{Base: 0x1_ffff_ffff, Ext: 0x1ff}, HasPrivate: true, Private: []byte{9, 8, 7}}
			return u
		}},
		{Name: "pat-1-section", PSI: true, Early: true, Make: func(p, t int) SUnit {
			d := modelPAT(0, 0x10, 1, 0x1000, 2, 0x1001)
			return withTrail(PSIUnit(0, p, [][]byte{SecPAT(d, ref.SecHdr{CNI: true, Version: 5})}, []ExpData{{Kind: "PAT", Table: d}}), t)
		}},
		{Name: "pat-3-sections", PSI: true, Early: true, Make: func(p, t int) SUnit {
			var args []uint16
			for i := 0; i < 40; i++ {
				args = append(args, uint16(i+1), uint16(0x1000+i))
			}
			a, b, c := modelPAT(1, 0x1000), modelPAT(2, 0x1001, 3, 0x1002), modelPAT(args...)
			return withTrail(PSIUnit(0, p, [][]byte{SecPAT(a, ref.SecHdr{CNI: true, LSN: 2}), SecPAT(b, ref.SecHdr{CNI: true, SN: 1, LSN: 2}), SecPAT(c, ref.SecHdr{CNI: true, SN: 2, LSN: 2})},
				[]ExpData{{Kind: "PAT", Table: a}, {Kind: "PAT", Table: b}, {Kind: "PAT", Table: c}}), t)
		}},
		{Name: "pmt-1-packet", PSI: true, Early: true, NeedsPAT: true, Make: func(p, t int) SUnit {
			d := modelPMT(1, 0x100, 3)
			return withTrail(PSIUnit(pmtPID, p, [][]byte{SecPMT(d, ref.SecHdr{CNI: true})}, []ExpData{{Kind: "PMT", Table: d}}), t)
		}},
		{Name: "pmt-6-packets-2-sections", PSI: true, Early: true, NeedsPAT: true, Make: func(p, t int) SUnit {
			a, b := modelPMT(1, 0x100, 2), modelPMT(1, 0x101, 80)
			sb := SecPMT(b, ref.SecHdr{CNI: true, Version: 9})
			if len(sb) > 1024 {
				panic("model PMT exceeds the section limit")
			}
			return withTrail(PSIUnit(pmtPID, p, [][]byte{SecPMT(a, ref.SecHdr{CNI: true, Version: 9}), sb}, []ExpData{{Kind: "PMT", Table: a}, {Kind: "PMT", Table: b}}), t)
		}},
		// a unit beyond 1024 bytes on a PMT PID: a section may be up to 1024 bytes, and the unit also holds the pointer
		// field, pointer filler and trailing stuffing
		{Name: "pmt-section-near-1024-bytes", PSI: true, Early: true, Big: true, NeedsPAT: true, Make: func(p, t int) SUnit {
			var d *astits.PMTData
			for n := 60; ; n++ { // the largest model that still fits a section
				x := modelPMT(1, 0x100, n)
				if len(SecPMT(x, ref.SecHdr{CNI: true})) > 1024 {
					break
				}
				d = x
			}
			return withTrail(PSIUnit(pmtPID, p, [][]byte{SecPMT(d, ref.SecHdr{CNI: true, Version: 3})}, []ExpData{{Kind: "PMT", Table: d}}), t)
		}},
		{Name: "sdt-2-sections", PSI: true, Make: func(p, t int) SUnit {
			a, b := modelSDT(2), modelSDT(9)
			return withTrail(PSIUnit(0x11, p, [][]byte{SecSDT(a, ref.SecHdr{CNI: true, LSN: 1}), SecSDT(b, ref.SecHdr{CNI: true, SN: 1, LSN: 1})},
				[]ExpData{{Kind: "SDT", Table: a}, {Kind: "SDT", Table: b}}), t)
		}},
		{Name: "nit", PSI: true, Make: func(p, t int) SUnit {
			d := modelNIT(12)
			return withTrail(PSIUnit(0x10, p, [][]byte{SecNIT(d, ref.SecHdr{TableID: 0x41, CNI: true})}, []ExpData{{Kind: "NIT", Table: d}}), t)
		}},
		{Name: "eit-2-sections", PSI: true, Make: func(p, t int) SUnit {
			a, b := modelEIT(1), modelEIT(6)
			return withTrail(PSIUnit(0x12, p, [][]byte{SecEIT(a, ref.SecHdr{CNI: true}), SecEIT(b, ref.SecHdr{TableID: 0x6f, CNI: true})},
				[]ExpData{{Kind: "EIT", Table: a}, {Kind: "EIT", Table: b}}), t)
		}},
		// tables the library recognises but does not decode (BAT, TDT, stuffing table) sharing a unit with
		// one it decodes: they deliver nothing and must not hide what follows them
		{Name: "bat-then-sdt", PSI: true, Make: func(p, t int) SUnit {
			d := modelSDT(3)
			bat := ref.Long(ref.SecHdr{TableID: 0x4a, SSI: true, Private: true, Ext: 0x0bb0, CNI: true, Version: 3}, append(ref.Loop12(0xf, []byte{0x47, 0x03, 'b', 'a', 't'}), ref.Loop12(0xf, nil)...))
			return withTrail(PSIUnit(0x11, p, [][]byte{bat, SecSDT(d, ref.SecHdr{CNI: true})}, []ExpData{{Kind: "SDT", Table: d}}), t)
		}},
		{Name: "tdt-then-tot", PSI: true, Make: func(p, t int) SUnit {
			d := modelTOT()
			utc := ref.DVBTime(d.UTCTime)
			tdt := ref.Short(0x70, false, true, utc[:], false)
			return withTrail(PSIUnit(0x14, p, [][]byte{tdt, SecTOT(d)}, []ExpData{{Kind: "TOT", Table: d}}), t)
		}},
		{Name: "stuffing-table-then-eit", PSI: true, Make: func(p, t int) SUnit {
			d := modelEIT(2)
			st := ref.Short(0x72, false, true, bytes.Repeat([]byte{0xa5}, 40), false)
			return withTrail(PSIUnit(0x12, p, [][]byte{st, SecEIT(d, ref.SecHdr{CNI: true})}, []ExpData{{Kind: "EIT", Table: d}}), t)
		}},
		{Name: "empty-stuffing-table-then-eit", PSI: true, Make: func(p, t int) SUnit {
			// a stuffing section may be empty (EN 300 468 5.2.8: section_length counts the data bytes, none here)
			d := modelEIT(2)
			st := ref.Short(0x72, false, true, nil, false)
			return withTrail(PSIUnit(0x12, p, [][]byte{st, st, SecEIT(d, ref.SecHdr{CNI: true})}, []ExpData{{Kind: "EIT", Table: d}}), t)
		}},
		{Name: "tot", PSI: true, Make: func(p, t int) SUnit {
			d := modelTOT()
			return withTrail(PSIUnit(0x14, p, [][]byte{SecTOT(d)}, []ExpData{{Kind: "TOT", Table: d}}), t)
		}},
	}
}

// greedyCount returns the number of packets of the greedy packetisation.
func greedyCount(u SUnit) int {
	cc := uint8(0)
	return len(Packetize(u, nil, &cc, false))
}

type c02Case struct {
	Kind    string
	Pointer int
	Trail   int
	Chunks  []int
	PadFF   bool
	Second  bool // a second unit of the same PID follows (flush by PUSI) or not (flush at EOF)
	Before  bool // a larger unit of the same PID comes first (state left behind by an earlier unit)
}

// buildC02 builds the stream for a case and returns it with the index of the packet that holds
// the last section byte (for the no-read-ahead oracle).
func buildC02(k *unitKind, cs c02Case, seed int64) (st *Stream, finalPkt int, ok bool) {
	u := k.Make(cs.Pointer, cs.Trail)
	minFirst := 1
	if k.PSI {
		minFirst = lastSectionStart(u) + 1
	}
	room := 184
	if u.AF != nil {
		room -= u.AF.Size()
	}
	if len(cs.Chunks) > 0 && cs.Chunks[0] != 0 && cs.Chunks[0] < minFirst {
		return nil, 0, false // outside the well-formed domain (see DESIGN.md C02)
	}
	if minFirst > room {
		return nil, 0, false
	}
	var ps []*ref.Pkt
	exp := map[uint16][]ExpData{}
	if k.NeedsPAT {
		pat := modelPAT(0, 0x10, 1, u.PID, 2, 0x1fe0) // the usual DVB layout: the network entry first, the programme behind it
		c0 := uint8(7)
		up := PSIUnit(0, 0, [][]byte{SecPAT(pat, ref.SecHdr{CNI: true})}, []ExpData{{Kind: "PAT", Table: pat}})
		ps = append(ps, Packetize(up, nil, &c0, true)...)
		exp[0] = up.Exp
	}
	cc := uint8(14)
	if cs.Before {
		var ub SUnit
		if k.PSI {
			ub = k.Make(60, 0) // the same sections behind a long pointer field: the unit announces a larger size
		} else if len(u.Exp) == 0 {
			ub = privateUnit(u.PID, []byte{0x09, 0x00, 0x01}, 900)
		} else {
			ub = PESUnit(u.PID, u.Exp[0].StreamID, pesPayload(98, 900, seed), 76, u.Exp[0].StreamID != 0xe0)
		}
		ps = append(ps, Packetize(ub, nil, &cc, true)...)
		exp[u.PID] = append(exp[u.PID], ub.Exp...)
	}
	first := len(ps)
	// clamp chunk requests to the room of each packet; 0 = greedy
	up := Packetize(u, cs.Chunks, &cc, cs.PadFF)
	ps = append(ps, up...)
	exp[u.PID] = append(exp[u.PID], u.Exp...)
	// packet holding the last section byte
	if k.PSI {
		end := sectionsEnd(u)
		acc := 0
		for i, p := range up {
			n := len(p.Payload)
			if acc+n >= end {
				finalPkt = first + i
				break
			}
			acc += n
		}
	}
	if cs.Second {
		var u2 SUnit
		if k.PSI {
			u2 = k.Make(0, 0)
		} else if len(u.Exp) == 0 {
			u2 = privateUnit(u.PID, []byte{0x00, 0x00, 0x03}, 40)
		} else {
			u2 = PESUnit(u.PID, u.Exp[0].StreamID, pesPayload(99, 30, seed), 77, u.Exp[0].StreamID != 0xe0)
		}
		ps = append(ps, Packetize(u2, nil, &cc, true)...)
		exp[u.PID] = append(exp[u.PID], u2.Exp...)
	}
	// a trailing null packet so that reading ahead is possible
	null := &ref.Pkt{PID: 0x1fff, HasPL: true, Payload: bytes.Repeat([]byte{0xff}, 184)}
	ps = append(ps, null)
	return &Stream{Name: k.Name, Pkts: ps, Bytes: EncodePkts(ps), Exp: exp}, finalPkt, true
}

type countingReader struct {
	r *bytes.Reader
	n int
}

func (c *countingReader) Read(p []byte) (int, error) {
	n, err := c.r.Read(p)
	c.n += n
	return n, err
}

// runC02 demuxes the stream; for early (PAT/PMT) kinds also checks the read position when the
// first datum of the unit under test is returned.
func runC02(k *unitKind, st *Stream, finalPkt int, skip ...int) (sig, msg string) {
	toSkip := 0
	if len(skip) > 0 {
		toSkip = skip[0]
	}
	cr := &countingReader{r: bytes.NewReader(st.Bytes)}
	d := astits.NewDemuxer(context.Background(), cr, astits.DemuxerOptPacketSize(188))
	out := &DmxOut{}
	var pidUnder uint16
	for pid := range st.Exp {
		if pid != 0 || !k.NeedsPAT {
			pidUnder = pid
		}
	}
	posChecked := false
	if p := mc.Catch(func() {
		for out.Calls < len(st.Bytes)/8+64 {
			out.Calls++
			x, err := d.NextData()
			if err == nil {
				out.Data = append(out.Data, x)
				if k.Early && !posChecked && x.PID == pidUnder && toSkip > 0 {
					toSkip--
				} else if k.Early && !posChecked && x.PID == pidUnder {
					posChecked = true
					if want := 188 * (finalPkt + 1); cr.n != want {
						sig, msg = "psi-read-ahead", fmt.Sprintf("first datum of the %s unit returned with the reader at offset %d; its final packet ends at %d", k.Name, cr.n, want)
					}
				}
				continue
			}
			if errors.Is(err, astits.ErrNoMorePackets) {
				out.EOF = true
				return
			}
			out.Errs = append(out.Errs, err)
		}
	}); p != nil {
		out.Panic = p
	}
	if sig != "" {
		return
	}
	return CompareOutput(st.Exp, out)
}

func checkC02(c *mc.Ctx) {
	c.Ev.Level = "model_checking"
	c.Ev.Rule = "reference multiplexer builds every packetisation of each unit kind within the deviation bound (packet i carries only c bytes, all c in 1..183 for one deviation; pairs over {1,2,3,91,182,183}), pointer fields, trailing stuffing, AF vs 0xFF padding, flush by next unit or by EOF; all order-preserving merges of several PIDs; each stream is demuxed by the real Demuxer and compared with the carried units; distinct_nontrivial = distinct (kind, packetisation) streams"
	c.Ev.Assumptions = append(c.Ev.Assumptions,
		"well-formed domain: a PUSI packet of a PSI unit contains at least the first byte of the unit's last section (ISO 13818-1 2.4.4: PUSI marks packets in which a section starts)",
		"PES payload bytes never 0x00/0x01/0x47; explicit packet size 188 on a counting bytes.Reader",
		"no-read-ahead: the PAT/PMT is returned when the packet holding the last section byte has been read; a following stuffing-only packet is not waited for")
	kinds := c02Kinds(c.Seed)
	small := []int{1, 2, 3, 91, 182, 183}
	var cases []struct {
		k  int
		cs c02Case
	}
	addCase := func(k int, cs c02Case) {
		cases = append(cases, struct {
			k  int
			cs c02Case
		}{k, cs})
	}
	for ki := range kinds {
		k := &kinds[ki]
		pointers := []int{0}
		trails := []int{0}
		if k.PSI {
			pointers = []int{0, 1, 7, 50}
			trails = []int{0, 1, 5, 190}
		}
		for _, ptr := range pointers {
			for _, tr := range trails {
				if (ptr != 0 && tr != 0) && !c.Thorough() {
					continue
				}
				u := k.Make(ptr, tr)
				n := greedyCount(u) + 1
				for _, second := range []bool{true, false} {
					for _, pad := range []bool{false, true} {
						if pad && !k.PSI {
							continue
						}
						addCase(ki, c02Case{k.Name, ptr, tr, nil, pad, second, false})
						// one deviation: packet i carries only cbytes
						for i := 0; i < n; i++ {
							for cb := 1; cb <= 183; cb++ {
								if k.Big && cb != 1 && cb != 2 && cb != 91 && cb != 182 && cb != 183 {
									continue
								}
								ch := make([]int, i+1)
								ch[i] = cb
								addCase(ki, c02Case{k.Name, ptr, tr, ch, pad, second, false})
							}
						}
						if k.Big {
							continue
						}
						// the first packet's deviations again behind a larger unit of the same PID
						if ptr == 0 && tr == 0 {
							for cb := 1; cb <= 183; cb++ {
								cs := c02Case{k.Name, ptr, tr, []int{cb}, pad, second, false}
								cs.Before = true
								addCase(ki, cs)
							}
						}
						// two deviations over the small alphabet
						if ptr == 0 && tr == 0 || c.Thorough() {
							for i := 0; i < n; i++ {
								for j := i + 1; j < n+1; j++ {
									for _, a := range small {
										for _, b := range small {
											ch := make([]int, j+1)
											ch[i], ch[j] = a, b
											addCase(ki, c02Case{k.Name, ptr, tr, ch, pad, second, false})
										}
									}
								}
							}
						}
					}
				}
			}
		}
	}
	total := int64(len(cases))
	var skipped int64
	done := mc.ParFor(total, c.OverBudget, func(i int64) {
		k := &kinds[cases[i].k]
		cs := cases[i].cs
		st, fin, ok := buildC02(k, cs, c.Seed)
		if !ok {
			c.Ev.Class("outside-wellformed-domain", 1)
			return
		}
		skipN := 0
		if cs.Before {
			skipN = len(k.Make(60, 0).Exp)
			c.Ev.Class("unit-behind-a-larger-unit", 1)
		}
		sig, msg := runC02(k, st, fin, skipN)
		if sig != "" {
			c.Rep.Report(sig+":"+k.Name, map[string]any{"kind": "stream", "case": cs, "bytes": mc.Hex(st.Bytes), "message": msg})
		}
		c.Ev.Distinct(fmt.Sprintf("%v", cs))
		if k.Early {
			c.Ev.Class("early-psi-position-checked", 1)
		}
		if !cs.Second {
			c.Ev.Class("flush-at-eof", 1)
		}
		if len(cs.Chunks) > 0 && cs.Chunks[0] == 1 {
			c.Ev.Class("one-byte-first-chunk", 1)
		}
		if i%40009 == 0 {
			c.Ev.Sample(map[string]any{"case": cs, "packets": len(st.Pkts)})
		}
	})
	_ = skipped
	c.Ev.AddScenario(mc.Scenario{Name: "single-unit-packetisation", SpaceSize: total, Executed: done, Exhaustive: done == total,
		Bound: "25 unit kinds (one of them beyond 1024 bytes on a PMT PID, single deviations over {1,2,91,182,183} only) x pointer_field {0,1,7,50} x trailing stuffing {0,1,5,190} x {AF stuffing, 0xFF padding} x {flush by next unit, flush at EOF} x (greedy + every single chunk deviation c in 1..183 at every packet + pairs over {1,2,3,91,182,183})"})
	c02PMTBeforePAT(c)
	c02MultiSectionPAT(c)
	c02Continuous(c)
	c02CounterWrap(c)
	c02Merges(c)
	c.Ev.Require("early-psi-position-checked", "flush-at-eof", "one-byte-first-chunk", "multi-pid-merge", "eight-pids-eof-drain", "continuous-sections-without-straddle", "continuous-sections-with-stuffed-packet", "section-tail-of-ff-bytes", "unit-repeated-after-counter-wrap", "section-straddles-unit-start", "unit-behind-a-larger-unit")
}

// c02Merges: several PIDs, all order-preserving merges; 8 PIDs sequential (EOF drain).
func c02Merges(c *mc.Ctx) {
	seed := c.Seed
	mk := func(chunksA []int) (lists [][]*ref.Pkt, exp map[uint16][]ExpData) {
		ccs := []uint8{3, 15, 9}
		a1 := PESUnit(0x100, 0xe0, pesPayload(1, 250, seed), 10, false)
		a2 := PESUnit(0x100, 0xe0, pesPayload(2, 100, seed), 20, false)
		b1 := PESUnit(0x101, 0xc0, pesPayload(3, 190, seed), 30, true)
		sa := modelSDT(6)
		s1 := PSIUnit(0x11, 0, [][]byte{SecSDT(sa, ref.SecHdr{CNI: true})}, []ExpData{{Kind: "SDT", Table: sa}})
		lists = [][]*ref.Pkt{
			append(Packetize(a1, chunksA, &ccs[0], false), Packetize(a2, nil, &ccs[0], false)...),
			Packetize(b1, nil, &ccs[1], false),
			Packetize(s1, nil, &ccs[2], true),
		}
		exp = map[uint16][]ExpData{0x100: {a1.Exp[0], a2.Exp[0]}, 0x101: b1.Exp, 0x11: s1.Exp}
		return
	}
	var total, done int64
	for _, ch := range [][]int{nil, {1}, {100, 1}} {
		lists, exp := mk(ch)
		lens := []int{len(lists[0]), len(lists[1]), len(lists[2])}
		orders := mc.AllMerges(lens)
		total += int64(len(orders))
		done += mc.ParFor(int64(len(orders)), c.OverBudget, func(i int64) {
			st := BuildStream("merge", lists, orders[i], exp)
			out := DemuxBytes(st.Bytes)
			if sig, msg := CompareOutput(exp, out); sig != "" {
				c.Rep.Report(sig+":merge", map[string]any{"kind": "stream", "order": orders[i], "bytes": mc.Hex(st.Bytes), "message": msg})
			}
			c.Ev.Class("multi-pid-merge", 1)
			c.Ev.Distinct(fmt.Sprintf("merge%v%v", ch, orders[i]))
		})
	}
	c.Ev.AddScenario(mc.Scenario{Name: "three-pid-merges", SpaceSize: total, Executed: done, Exhaustive: done == total,
		Bound: "all order-preserving merges of PES A (2 units), PES B (1 unit), SDT (1 unit) for 3 packetisations of A"})
	// eight PIDs, one unit each, sequential in every rotation and reversed: every last unit must
	// be delivered at EOF
	var units []SUnit
	for i := 0; i < 8; i++ {
		units = append(units, PESUnit(uint16(0x200+i*3), 0xc0+uint8(i), pesPayload(50+i, 60+i*40, seed), uint64(i), true))
	}
	perms := [][]int{}
	for r := 0; r < 8; r++ {
		var p, q []int
		for i := 0; i < 8; i++ {
			p = append(p, (i+r)%8)
			q = append(q, (8+r-i)%8)
		}
		perms = append(perms, p, q)
	}
	for _, p := range perms {
		var ps []*ref.Pkt
		exp := map[uint16][]ExpData{}
		for _, i := range p {
			cc := uint8(i)
			ps = append(ps, Packetize(units[i], nil, &cc, false)...)
			exp[units[i].PID] = units[i].Exp
		}
		b := EncodePkts(ps)
		out := DemuxBytes(b)
		if sig, msg := CompareOutput(exp, out); sig != "" {
			c.Rep.Report(sig+":eight-pids", map[string]any{"kind": "stream", "order": p, "bytes": mc.Hex(b), "message": msg})
		}
		c.Ev.Class("eight-pids-eof-drain", 1)
	}
	c.Ev.AddScenario(mc.Scenario{Name: "eight-pids-sequential", SpaceSize: int64(len(perms)), Executed: int64(len(perms)), Exhaustive: true, Bound: "8 PIDs, one unit each, 16 PID orders; every unit is delivered only by the end-of-stream drain"})
}

// SplitHeaderStream: PAT and PMT units of several sections, packetised so that only the
// table_id of the last section is in the first packet (its section_length bytes follow in the
// next packet) - exercises the "section header not complete yet" path of the early PSI flush.
func SplitHeaderStream(seed int64) []byte {
	kinds := c02Kinds(seed)
	var out []byte
	for ki := range kinds {
		k := &kinds[ki]
		if k.Name != "pat-3-sections" && k.Name != "pmt-6-packets-2-sections" {
			continue
		}
		u := k.Make(0, 0)
		first := lastSectionStart(u) + 1
		for _, ch := range [][]int{{first}, {first + 1}, nil} {
			if st, _, ok := buildC02(k, c02Case{Kind: k.Name, Chunks: ch, Second: true}, seed); ok {
				out = append(out, st.Bytes...)
			}
		}
	}
	return out
}

// c02PMTBeforePAT: packets of the PMT PID that arrive before the PAT announcing it must not
// spoil the early return of the PMTs that follow the PAT (the PID's kind is a property of the
// programme map at the time a unit completes, not of the first packet ever seen on the PID).
func c02PMTBeforePAT(c *mc.Ctx) {
	pat := modelPAT(1, 0x1000)
	mk := func(n int, v uint8) SUnit {
		d := modelPMT(1, 0x100, n)
		return PSIUnit(0x1000, 0, [][]byte{SecPMT(d, ref.SecHdr{CNI: true, Version: v})}, []ExpData{{Kind: "PMT", Table: d}})
	}
	uPAT := PSIUnit(0, 0, [][]byte{SecPAT(pat, ref.SecHdr{CNI: true})}, []ExpData{{Kind: "PAT", Table: pat}})
	var n int64
	for _, early := range []int{1, 2} { // PMT packets seen before the PAT: a whole 1-packet PMT, or the first packet of a longer one
		for _, lateN := range []int{2, 30} {
			cc0, cc1 := uint8(0), uint8(4)
			var ps []*ref.Pkt
			first := Packetize(mk(29, 0), nil, &cc1, true) // content distinct from the PMTs that follow the PAT
			if early == 1 {
				cc1 = 4
				first = Packetize(mk(1, 0), nil, &cc1, true)
			}
			ps = append(ps, first[:early]...)
			ps = append(ps, Packetize(uPAT, nil, &cc0, true)...)
			ps = append(ps, first[early:]...)
			type want struct {
				exp ExpData
				end int
			}
			var wants []want
			for k := 0; k < 2; k++ {
				u := mk(lateN+k, uint8(k+1))
				ps = append(ps, Packetize(u, nil, &cc1, true)...)
				wants = append(wants, want{u.Exp[0], len(ps) * 188})
			}
			ps = append(ps, &ref.Pkt{PID: 0x1fff, HasPL: true, Payload: bytes.Repeat([]byte{0xff}, 184)})
			b := EncodePkts(ps)
			cr := &countingReader{r: bytes.NewReader(b)}
			d := astits.NewDemuxer(context.Background(), cr, astits.DemuxerOptPacketSize(188))
			wi := 0
			for calls := 0; calls < 64; calls++ {
				x, err := d.NextData()
				if err != nil {
					break
				}
				if x.PID != 0x1000 || wi >= len(wants) {
					continue
				}
				if ok, _ := wants[wi].exp.Matches(x); !ok {
					continue // the PMT whose packets straddle the PAT: unconstrained
				}
				if cr.n != wants[wi].end {
					c.Rep.Report("psi-read-ahead:pmt-pid-seen-before-pat", map[string]any{"kind": "stream", "bytes": mc.Hex(b), "message": fmt.Sprintf("PMT %d returned with the reader at offset %d; its final packet ends at %d", wi, cr.n, wants[wi].end)})
				}
				wi++
			}
			if wi != len(wants) {
				c.Rep.Report("unit-missing:pmt-pid-seen-before-pat", map[string]any{"kind": "stream", "bytes": mc.Hex(b), "message": fmt.Sprintf("%d of %d PMTs that follow the PAT were delivered", wi, len(wants))})
			}
			n++
			c.Ev.Class("pmt-pid-seen-before-pat", 1)
		}
	}
	c.Ev.AddScenario(mc.Scenario{Name: "pmt-pid-seen-before-pat", SpaceSize: n, Executed: n, Exhaustive: true, Bound: "PMT packets (a whole unit / the first packet of a unit) before the PAT, then two PMTs of 1 and 3+ packets: each must be returned when its final packet has been read"})
}

// c02MultiSectionPAT: a PAT unit of several sections announces one PMT PID per section; the PMT on
// every announced PID must be delivered (and returned when its final packet has been read).
func c02MultiSectionPAT(c *mc.Ctx) {
	var n int64
	for nsec := 1; nsec <= 3; nsec++ {
		for _, oneUnit := range []bool{true, false} { // all sections in one unit / one section per unit
			var secs [][]byte
			var exps []ExpData
			for k := 0; k < nsec; k++ {
				d := modelPAT(uint16(k+1), uint16(0x1000+k))
				secs = append(secs, SecPAT(d, ref.SecHdr{CNI: true, SN: uint8(k), LSN: uint8(nsec - 1)}))
				exps = append(exps, ExpData{Kind: "PAT", Table: d})
			}
			cc0 := uint8(2)
			var ps []*ref.Pkt
			exp := map[uint16][]ExpData{}
			if oneUnit {
				u := PSIUnit(0, 0, secs, exps)
				ps = append(ps, Packetize(u, nil, &cc0, true)...)
				exp[0] = u.Exp
			} else {
				for k := range secs {
					u := PSIUnit(0, 0, [][]byte{secs[k]}, []ExpData{exps[k]})
					ps = append(ps, Packetize(u, nil, &cc0, true)...)
					exp[0] = append(exp[0], u.Exp...)
				}
			}
			ends := map[uint16]int{}
			for k := nsec - 1; k >= 0; k-- { // PMTs in reverse PID order
				pid := uint16(0x1000 + k)
				d := modelPMT(uint16(k+1), 0x100, 2+k*20)
				u := PSIUnit(pid, 0, [][]byte{SecPMT(d, ref.SecHdr{CNI: true})}, []ExpData{{Kind: "PMT", Table: d}})
				cc := uint8(k)
				ps = append(ps, Packetize(u, nil, &cc, true)...)
				exp[pid] = u.Exp
				ends[pid] = len(ps) * 188
			}
			ps = append(ps, &ref.Pkt{PID: 0x1fff, HasPL: true, Payload: bytes.Repeat([]byte{0xff}, 184)})
			b := EncodePkts(ps)
			cr := &countingReader{r: bytes.NewReader(b)}
			d := astits.NewDemuxer(context.Background(), cr, astits.DemuxerOptPacketSize(188))
			out := &DmxOut{}
			for out.Calls < 64 {
				out.Calls++
				x, err := d.NextData()
				if err != nil {
					out.EOF = errors.Is(err, astits.ErrNoMorePackets)
					if !out.EOF {
						out.Errs = append(out.Errs, err)
						continue
					}
					break
				}
				out.Data = append(out.Data, x)
				if e, ok := ends[x.PID]; ok && cr.n != e {
					c.Rep.Report("psi-read-ahead:multi-section-pat", map[string]any{"kind": "stream", "bytes": mc.Hex(b), "message": fmt.Sprintf("PMT on PID %#x returned with the reader at offset %d; its final packet ends at %d", x.PID, cr.n, e)})
				}
			}
			if sig, msg := CompareOutput(exp, out); sig != "" {
				c.Rep.Report(sig+":multi-section-pat", map[string]any{"kind": "stream", "bytes": mc.Hex(b), "message": msg})
			}
			n++
			if nsec > 1 && oneUnit {
				c.Ev.Class("pmt-pid-announced-in-later-pat-section", 1)
			}
		}
	}
	c.Ev.AddScenario(mc.Scenario{Name: "multi-section-pat-announces-pmts", SpaceSize: n, Executed: n, Exhaustive: true, Bound: "PAT of 1..3 sections (one unit / one unit per section), one PMT PID per section, PMTs of 1..3 packets"})
}
