package checks

import (
	"bufio"
	"bytes"
	"context"
	"errors"
	"fmt"
	"io"
	"strings"

	astits "github.com/asticode/go-astits"
	"verif/mc"
	"verif/ref"
)

func init() {
	register("C19", checkC19)
	register("C20", checkC20)
}

func normAFForCompare(a *ref.AF) *ref.AF {
	if a == nil {
		return nil
	}
	x := *a
	x.Zero = false
	if len(x.Private) == 0 {
		x.Private = nil
	}
	return &x
}

// runWithSkipper drains the chosen API with a per-call skip decision vector; it returns the
// canonical results, the predicate's call log (canonical header+AF of each argument) and
// whether a skipped packet was ever returned.
func runWithSkipper(b []byte, api string, decide func(call int, p *astits.Packet) bool) (res []string, log []*astits.Packet, prob string) {
	calls := 0
	sk := func(p *astits.Packet) bool {
		cp := *p
		log = append(log, &cp)
		s := decide(calls, p)
		calls++
		return s
	}
	opts := []func(*astits.Demuxer){astits.DemuxerOptPacketSkipper(sk)}
	var rd io.Reader = bytes.NewReader(b)
	switch {
	case strings.HasSuffix(api, "+auto"): // packet size auto-detected on a seekable reader
		api = strings.TrimSuffix(api, "+auto")
	case strings.HasSuffix(api, "+bufio-auto"): // ... on a buffered reader
		api = strings.TrimSuffix(api, "+bufio-auto")
		rd = bufio.NewReader(bytes.NewReader(b))
	default:
		opts = append(opts, astits.DemuxerOptPacketSize(188))
	}
	d := astits.NewDemuxer(context.Background(), rd, opts...)
	if api == "packet" {
		o := DrainPackets(d, len(b))
		if o.Panic != nil || !o.EOF || len(o.Errs) > 0 {
			return nil, log, fmt.Sprintf("panic=%v eof=%v errs=%v", o.Panic, o.EOF, errStrings(o.Errs))
		}
		for _, p := range o.Pkts {
			res = append(res, mc.Canon(p))
		}
		return res, log, ""
	}
	o := DrainData(d, len(b))
	if o.Panic != nil || !o.EOF || len(o.Errs) > 0 {
		return nil, log, fmt.Sprintf("panic=%v eof=%v errs=%v", o.Panic, o.EOF, errStrings(o.Errs))
	}
	for _, x := range o.Data {
		res = append(res, mc.Canon(x))
	}
	return res, log, ""
}

func runPlain(b []byte, api string) ([]string, string) {
	r, _, p := runWithSkipperNone(b, api)
	return r, p
}

func runWithSkipperNone(b []byte, api string) (res []string, log []*astits.Packet, prob string) {
	d := astits.NewDemuxer(context.Background(), bytes.NewReader(b), astits.DemuxerOptPacketSize(188))
	if api == "packet" {
		o := DrainPackets(d, len(b))
		if o.Panic != nil || !o.EOF || len(o.Errs) > 0 {
			return nil, nil, fmt.Sprintf("panic=%v eof=%v errs=%v", o.Panic, o.EOF, errStrings(o.Errs))
		}
		for _, p := range o.Pkts {
			res = append(res, mc.Canon(p))
		}
		return res, nil, ""
	}
	o := DrainData(d, len(b))
	if o.Panic != nil || !o.EOF || len(o.Errs) > 0 {
		return nil, nil, fmt.Sprintf("panic=%v eof=%v errs=%v", o.Panic, o.EOF, errStrings(o.Errs))
	}
	for _, x := range o.Data {
		res = append(res, mc.Canon(x))
	}
	return res, nil, ""
}

// AFVarietyStream is the stream with adaptation fields of every kind.
func AFVarietyStream(seed int64) []byte {
	for _, s := range c19Streams(seed) {
		if s.Name == "af-variety" {
			return s.Bytes
		}
	}
	return nil
}

// PIDClassesStream: payload packets on every class of PID a special case could hang on - the null PID (with
// payloads that are not the usual 0xFF filler), CAT, TSDT, a DVB SI PID, the top of the range, PID 0 - two
// packets each with different contents, with and without an adaptation field carrying private data.
func PIDClassesStream(seed int64) *Stream {
	var ps []*ref.Pkt
	next := map[uint16]uint8{}
	for k, pid := range []uint16{0x1fff, 0x0001, 0x0002, 0x0012, 0x1ffe, 0x0100, 0x1fff} {
		for j := 0; j < 2; j++ {
			pl := make([]byte, 184)
			for i := range pl {
				pl[i] = byte(0x20 + (i*3+k*17+j*5)%0xc0)
			}
			p := &ref.Pkt{PID: pid, HasPL: true, CC: next[pid] & 0xf, Payload: pl}
			next[pid]++
			if j == 1 {
				p.HasAF, p.AF = true, &ref.AF{HasPrivate: true, Private: []byte{byte(k), 0xaa, 0x47, byte(j)}, ESPrio: true}
				p.Payload = pl[:184-p.AF.Size()]
			}
			ps = append(ps, p)
		}
	}
	// a valid PAT at the end so that NextData has something to deliver as well
	c0 := uint8(9)
	ps = append(ps, Packetize(PSIUnit(0, 0, [][]byte{SecPAT(modelPAT(1, 0x1000), ref.SecHdr{CNI: true})}, nil), nil, &c0, true)...)
	return &Stream{Name: "pid-classes", Pkts: ps, Bytes: EncodePkts(ps)}
}

// ContinuousSectionsStream: sections packed back to back on the SDT and the PMT PID (ISO 13818-1 2.4.4), so that
// sections end in the pointer area of the packet in which the next one starts.
func ContinuousSectionsStream(seed int64) *Stream {
	var ps []*ref.Pkt
	c0, c1, c2 := uint8(0), uint8(4), uint8(8)
	ps = append(ps, Packetize(PSIUnit(0, 0, [][]byte{SecPAT(modelPAT(0, 0x10, 1, 0x1000, 2, 0x1001), ref.SecHdr{CNI: true})}, nil), nil, &c0, true)...)
	// second PMT PID: a section of two packets whose end shares its packet with a complete small section, twice
	// (one unit-start packet both ends the pending unit and completes its own)
	{
		c3 := uint8(12)
		var secs [][]byte
		for k := 0; k < 2; k++ {
			secs = append(secs, SecPMT(modelPMT(2, 0x200, 14+k), ref.SecHdr{CNI: true, Version: uint8(2 * k)}), SecPMT(modelPMT(2, 0x200, 1), ref.SecHdr{CNI: true, Version: uint8(2*k + 1)}))
		}
		q, _, _ := packContinuous(0x1001, secs, &c3)
		ps = append(ps, q...)
	}
	var sdt, pmt [][]byte
	for k := 0; k < 4; k++ {
		sdt = append(sdt, SecSDT(modelSDT(2+k%3), ref.SecHdr{CNI: true, SN: uint8(k), LSN: 3}))
		pmt = append(pmt, SecPMT(modelPMT(1, 0x100, 3+2*k), ref.SecHdr{CNI: true, Version: uint8(k)}))
	}
	a, _, _ := packContinuous(0x11, sdt, &c1)
	b, _, _ := packContinuous(0x1000, pmt, &c2)
	for i := 0; i < len(a) || i < len(b); i++ {
		if i < len(a) {
			ps = append(ps, a[i])
		}
		if i < len(b) {
			ps = append(ps, b[i])
		}
	}
	return &Stream{Name: "continuous-sections", Pkts: ps, Bytes: EncodePkts(ps)}
}

// PrivateSectionsStream: on the PAT PID and a PMT PID, a section of two packets whose end shares its packet with
// nothing but a user-private section (table ids 0x90, 0xc0: no table the library knows, no default data). That
// packet is a payload unit of its own - the pending one ends in front of its pointer target - and a PacketsParser
// is handed it like any other.
func PrivateSectionsStream(seed int64) *Stream {
	priv := func(tid uint8, n int) []byte {
		b := []byte{tid, 0x70 | byte(n>>8), byte(n)}
		for i := 0; i < n; i++ {
			b = append(b, byte(0x21+i%0x50))
		}
		return b
	}
	var args []uint16
	for i := 0; i < 60; i++ {
		args = append(args, uint16(i+1), uint16(0x1000+i))
	}
	c0, c1 := uint8(2), uint8(11)
	a, _, _ := packContinuous(0, [][]byte{SecPAT(modelPAT(args...), ref.SecHdr{CNI: true}), priv(0x90, 30)}, &c0)
	// (the private section is the last thing in its packet, 0xFF filler behind it: a known section behind an unknown
	// one in the same unit is not looked for by the library - its parsing of a unit stops at an unknown table id)
	b, _, _ := packContinuous(0x1000, [][]byte{SecPMT(modelPMT(1, 0x100, 40), ref.SecHdr{CNI: true}), priv(0xc0, 12)}, &c1)
	b2, _, _ := packContinuous(0x1000, [][]byte{SecPMT(modelPMT(1, 0x100, 41), ref.SecHdr{CNI: true, Version: 1}), priv(0x91, 20)}, &c1)
	ps := append(append(append([]*ref.Pkt{}, a...), b...), b2...)
	return &Stream{Name: "private-sections-behind-section-ends", Pkts: ps, Bytes: EncodePkts(ps)}
}

// c19Streams: the standard streams plus one with adaptation fields of every kind.
func c19Streams(seed int64) []*Stream { return c19StreamsT(seed, false) }

func c19StreamsT(seed int64, thorough bool) []*Stream {
	ss := StandardStreams(seed)
	cc := uint8(0)
	u := PESUnit(0x300, 0xe0, pesPayload(5, 300, seed), 9, false)
	u.AF = &ref.AF{Disc: false, RAI: true, ESPrio: true, PCR: &ref.PCR{Base: 1, Ext: 2}, OPCR: &ref.PCR{Base: 3, Ext: 4}, HasSplice: true, Splice: 0xfe,
		HasPrivate: true, Private: []byte{1, 2, 3}, Ext: &ref.AFExt{LTW: true, LTWValid: true, LTWOffset: 77, Piecewise: true, Rate: 99, Seamless: true, Splice: 3, DTS: 0x1_2222_3333}}
	ps := Packetize(u, []int{50, 1, 100}, &cc, false)
	afOnly := &ref.Pkt{PID: 0x300, HasAF: true, AF: &ref.AF{PCR: &ref.PCR{Base: 9}, Stuffing: 176}, CC: (cc + 15) & 0xf}
	ps = append(ps, afOnly)
	// adaptation field only, with every variable-length part (private data, extension)
	ps = append(ps, &ref.Pkt{PID: 0x300, HasAF: true, CC: (cc + 15) & 0xf, AF: stuffAF(&ref.AF{ESPrio: true, HasPrivate: true, Private: []byte("af-only-private-data"),
		Ext: &ref.AFExt{LTW: true, LTWOffset: 0x2345, Seamless: true, Splice: 5, DTS: 0x1_8000_0001}}, 184)})
	ps = append(ps, Packetize(PESUnit(0x300, 0xe0, pesPayload(6, 20, seed), 10, false), nil, &cc, false)...)
	ss = append(ss, &Stream{Name: "af-variety", Pkts: ps, Bytes: EncodePkts(ps)})
	{ // contents that look like structure: start codes at packet starts, padding-like bytes, sync bytes, a section inside a section
		ccs := []uint8{7, 7, 7, 7, 7}
		lists := [][]*ref.Pkt{
			Packetize(PSIUnit(0, 0, [][]byte{SecPAT(modelPAT(1, 0x1000), ref.SecHdr{CNI: true})}, nil), nil, &ccs[0], true),
			Packetize(lookalikePSI(0x1000, true, 6), nil, &ccs[1], true),
			Packetize(lookalikePES(0x100, 58, seed), nil, &ccs[2], false),
			append(Packetize(PESUnit(0x101, 0xc0, hostilePayload(9, 200), 3, true), nil, &ccs[3], false), Packetize(PESUnit(0x101, 0xc0, hostilePayload(12, 100), 4, true), nil, &ccs[3], false)...),
			Packetize(lookalikePSI(0x11, false, 7), nil, &ccs[4], true),
		}
		ss = append(ss, BuildStream("hostile-contents", lists, roundRobin(lists), nil))
	}
	ss = append(ss, VersionToggleStream(seed), PIDClassesStream(seed), ContinuousSectionsStream(seed), NextIndicatorStream(seed), PrivateSectionsStream(seed))
	{ // a longer multiplex: PAT, PMT, two PES PIDs with several units, a 2-packet SDT (13 packets)
		ccs := []uint8{0, 0, 4, 9, 15}
		pat, pmt, sdt := modelPAT(1, 0x1000), modelPMT(1, 0x100, 2), modelSDT(7)
		lists := [][]*ref.Pkt{
			Packetize(PSIUnit(0, 0, [][]byte{SecPAT(pat, ref.SecHdr{CNI: true})}, nil), nil, &ccs[0], true),
			Packetize(PSIUnit(0x1000, 0, [][]byte{SecPMT(pmt, ref.SecHdr{CNI: true})}, nil), nil, &ccs[1], true),
			append(append(Packetize(PESUnit(0x100, 0xe0, pesPayload(21, 300, seed), 1, false), nil, &ccs[2], false), Packetize(PESUnit(0x100, 0xe0, pesPayload(22, 100, seed), 2, false), nil, &ccs[2], false)...), Packetize(PESUnit(0x100, 0xe0, pesPayload(23, 200, seed), 3, false), nil, &ccs[2], false)...),
			append(Packetize(PESUnit(0x101, 0xc0, pesPayload(24, 250, seed), 4, true), nil, &ccs[3], false), Packetize(PESUnit(0x101, 0xc0, pesPayload(25, 30, seed), 5, true), nil, &ccs[3], false)...),
			Packetize(PSIUnit(0x11, 0, [][]byte{SecSDT(sdt, ref.SecHdr{CNI: true})}, nil), nil, &ccs[4], true),
		}
		null := func(fill byte, cc uint8) *ref.Pkt {
			return &ref.Pkt{PID: 0x1fff, HasPL: true, CC: cc, Payload: bytes.Repeat([]byte{fill}, 184)}
		}
		// null packets: data bytes may have any value; counters consecutive so that the accumulator's
		// continuity rule keeps them in one group (the counter of null packets is undefined in ISO)
		lists = append(lists, []*ref.Pkt{null(0xff, 0), null(0x00, 1)})
		if thorough { // 16 packets: 2^16 skip vectors
			lists[3] = append(lists[3], Packetize(PESUnit(0x101, 0xc0, pesPayload(26, 40, seed), 6, true), nil, &ccs[3], false)...)
		}
		ss = append(ss, BuildStream("mixed-15", lists, roundRobin(lists), nil))
		if thorough { // 20 packets: 2^20 skip vectors - the PAT and the PMT repeated with a new version, one more video unit over two packets
			l2 := append([][]*ref.Pkt{}, lists...)
			l2[0] = append(append([]*ref.Pkt{}, l2[0]...), Packetize(PSIUnit(0, 0, [][]byte{SecPAT(modelPAT(1, 0x1000, 2, 0x1001), ref.SecHdr{CNI: true, Version: 1})}, nil), nil, &ccs[0], true)...)
			l2[1] = append(append([]*ref.Pkt{}, l2[1]...), Packetize(PSIUnit(0x1000, 0, [][]byte{SecPMT(modelPMT(1, 0x100, 3), ref.SecHdr{CNI: true, Version: 1})}, nil), nil, &ccs[1], true)...)
			l2[2] = append(append([]*ref.Pkt{}, l2[2]...), Packetize(PESUnit(0x100, 0xe0, pesPayload(27, 220, seed), 4, false), nil, &ccs[2], false)...)
			ss = append(ss, BuildStream("mixed-long", l2, roundRobin(l2), nil))
		}
	}
	return ss
}

func checkC19(c *mc.Ctx) {
	c.Ev.Level = "model_checking"
	c.Ev.Rule = "for each stream of n packets all 2^n per-packet skip decisions plus structured predicates, through NextPacket and NextData, compared with the real Demuxer run on the physically filtered stream; predicate call log compared with the reference decoding of every packet; PacketsParser observer / replacer / failing-at-k for every k; distinct_nontrivial = distinct (stream, API, decision vector / parser mode) runs"
	c.Ev.Assumptions = append(c.Ev.Assumptions, "per-packet decisions are implemented by a call counter inside the predicate (the predicate is consulted once per packet in stream order - itself checked)")
	for _, st := range append(c19StreamsT(c.Seed, c.Thorough()), IdenticalRunsStream(c.Seed)) {
		n := len(st.Pkts)
		if n > 16 && !(c.Thorough() && n <= 20) {
			continue
		}
		var refPk []*ref.Pkt
		for i := 0; i < n; i++ {
			p, err := ref.DecodePkt(st.Bytes[i*188 : (i+1)*188])
			if err != nil {
				panic(err)
			}
			refPk = append(refPk, p)
		}
		apis := []string{"packet", "data"}
		if n >= 2 && n <= 12 {
			// the packet size found by auto-detection instead of given: detection looks at the first packets itself, the
			// predicate is still consulted once per packet
			apis = append(apis, "packet+auto", "data+auto", "data+bufio-auto")
		}
		for _, api := range apis {
			api := api
			total := int64(1) << uint(n)
			done := mc.ParFor(total, c.OverBudget, func(mask int64) {
				res, log, prob := runWithSkipper(st.Bytes, api, func(call int, _ *astits.Packet) bool { return mask>>uint(call)&1 == 1 })
				var fb []byte
				for i := 0; i < n; i++ {
					if mask>>uint(i)&1 == 0 {
						fb = append(fb, st.Bytes[i*188:(i+1)*188]...)
					}
				}
				det := map[string]any{"kind": "stream", "stream": st.Name, "api": api, "skip_mask": mask, "bytes": mc.Hex(st.Bytes)}
				rep := func(sig, msg string) { det["message"] = msg; c.Rep.Report(sig+":"+api, det) }
				if prob != "" {
					rep("skipper-run-failed", prob)
					return
				}
				want, p2 := runPlain(fb, strings.SplitN(api, "+", 2)[0])
				if strings.Contains(api, "+") {
					c.Ev.Class("skip-vector-with-auto-detection", 1)
				}
				if p2 != "" {
					rep("filtered-run-failed", p2)
					return
				}
				if !equalStrs(res, want) {
					rep("skipper-differs-from-deletion", fmt.Sprintf("%d results with the skipper, %d on the filtered stream (or contents differ)", len(res), len(want)))
				}
				if len(log) != n {
					rep("skipper-call-count", fmt.Sprintf("predicate consulted %d times for %d packets", len(log), n))
					return
				}
				for i, lp := range log {
					g := toRefPkt(lp)
					g.Payload, g.AF = nil, normAFForCompare(g.AF)
					w := *refPk[i]
					w.Payload, w.AF = nil, normAFForCompare(w.AF)
					if !mc.SemEq(g, &w) {
						rep("skipper-argument", fmt.Sprintf("call %d: predicate saw %s, packet is %s", i, mc.Canon(g), mc.Canon(&w)))
						return
					}
				}
				if mask != 0 && mask != total-1 {
					c.Ev.Class("mixed-skip-vector", 1)
				}
				c.Ev.Distinct(fmt.Sprintf("%s|%s|%d", st.Name, api, mask))
			})
			c.Ev.AddScenario(mc.Scenario{Name: fmt.Sprintf("skip-vectors:%s:%s", st.Name, api), SpaceSize: total, Executed: done, Exhaustive: done == total, Bound: fmt.Sprintf("all 2^%d per-packet skip decisions", n)})
			// structured predicates
			preds := map[string]func(p *astits.Packet) bool{
				"pusi":    func(p *astits.Packet) bool { return p.Header.PayloadUnitStartIndicator },
				"has-af":  func(p *astits.Packet) bool { return p.Header.HasAdaptationField },
				"has-pcr": func(p *astits.Packet) bool { return p.AdaptationField != nil && p.AdaptationField.HasPCR },
				"rai": func(p *astits.Packet) bool {
					return p.AdaptationField != nil && p.AdaptationField.RandomAccessIndicator
				},
				"not-payload": func(p *astits.Packet) bool { return !p.Header.HasPayload },
			}
			pidset := map[uint16]bool{}
			for _, p := range refPk {
				pidset[p.PID] = true
			}
			for pid := range pidset {
				pid := pid
				preds[fmt.Sprintf("pid=%#x", pid)] = func(p *astits.Packet) bool { return p.Header.PID == pid }
				preds[fmt.Sprintf("pid!=%#x", pid)] = func(p *astits.Packet) bool { return p.Header.PID != pid }
			}
			for k := 0; k < 16; k++ {
				k := uint8(k)
				preds[fmt.Sprintf("cc=%d", k)] = func(p *astits.Packet) bool { return p.Header.ContinuityCounter == k }
			}
			for name, pr := range preds {
				res, _, prob := runWithSkipper(st.Bytes, api, func(_ int, p *astits.Packet) bool { return pr(p) })
				var fb []byte
				for i := 0; i < n; i++ {
					if !pr(fromRefPkt(refPk[i])) {
						fb = append(fb, st.Bytes[i*188:(i+1)*188]...)
					}
				}
				want, _ := runPlain(fb, strings.SplitN(api, "+", 2)[0])
				if prob != "" || !equalStrs(res, want) {
					c.Rep.Report("predicate-differs-from-deletion:"+api, map[string]any{"kind": "stream", "stream": st.Name, "predicate": name, "bytes": mc.Hex(st.Bytes), "message": prob})
				}
				c.Ev.Class("structured-predicate", 1)
			}
		}
		if st.Name != "identical-runs" { // which duplicate reaches a unit is C06's subject
			c19Parsers(c, st, refPk)
			if c.Thorough() {
				c19Product(c, st, 16)
			} else {
				c19Product(c, st, 11)
			}
		}
	}
	// a PID joined in the middle of a very long unit: 300 packets without a unit start (consecutive counters), then a
	// unit that starts - the start-less run is one unit for a PacketsParser, however long it is
	{
		var ps []*ref.Pkt
		for i := 0; i < 300; i++ {
			pl := make([]byte, 184)
			for k := range pl {
				pl[k] = byte(0x20 + (i+k*3)%0xd0)
			}
			ps = append(ps, &ref.Pkt{PID: 0x100, HasPL: true, CC: uint8(i & 0xf), Payload: pl})
		}
		cc := uint8(300 & 0xf)
		ps = append(ps, Packetize(PESUnit(0x100, 0xe0, pesPayload(161, 184*2-14-5, c.Seed), 9, false), nil, &cc, false)...)
		st := &Stream{Name: "long-start-less-run", Pkts: ps, Bytes: EncodePkts(ps)}
		c19Parsers(c, st, ps)
	}
	// units far bigger than anything a buffer is sized for at first (a 20000-byte and a 70000-byte video unit, a small
	// one behind them): what a PacketsParser was handed stays what it was
	{
		cc := uint8(2)
		var ps []*ref.Pkt
		for k, n := range []int{20000, 70000, 300} {
			ps = append(ps, Packetize(PESUnit(0x100, 0xe0, pesPayload(180+k, n, c.Seed), uint64(k+1), false), nil, &cc, false)...)
		}
		st := &Stream{Name: "big-units", Pkts: ps, Bytes: EncodePkts(ps)}
		c19Parsers(c, st, ps)
	}
	// a duplicate packet with a re-stamped PCR (ISO 13818-1 2.4.3.3: a duplicate repeats every byte of the original
	// except the PCR, which is encoded with a valid value of its own), on the SDT PID with sections packed back to back:
	// the duplicated packet ends one section in front of its pointer target and starts the next one, which runs on
	{
		var secs [][]byte
		for k, n := range []int{200, 250, 250, 60} {
			d := modelSDT(1)
			d.TransportStreamID = uint16(0x900 + k)
			d.Services[0].Descriptors = fixLens([]*astits.Descriptor{{Tag: 0x88, UserDefined: fillBytes(n-40, byte(0x40+k))}, {Tag: 0x89, UserDefined: fillBytes(n-40, byte(0x50+k))}})
			secs = append(secs, SecSDT(d, ref.SecHdr{CNI: true, Version: uint8(k)}))
		}
		cc := uint8(6)
		ps, _, _ := packContinuous(0x11, secs, &cc, func(k int) int {
			if k == 1 {
				return 8
			}
			return 0
		})
		if len(ps) >= 3 && ps[1].PUSI && ps[1].Payload[0] > 0 && ps[1].HasAF && !ps[2].PUSI {
			ps[1].AF.PCR, ps[1].AF.Stuffing = &ref.PCR{Base: 1000, Ext: 1}, ps[1].AF.Stuffing-6
			dup := *ps[1]
			af := *ps[1].AF
			af.PCR = &ref.PCR{Base: 1010, Ext: 2}
			dup.AF = &af
			all := append(append(append([]*ref.Pkt{}, ps[:2]...), &dup), ps[2:]...)
			st := &Stream{Name: "restamped-duplicate", Pkts: all, Bytes: EncodePkts(all)}
			c19Parsers(c, st, all)
			c.Ev.Class("duplicate-with-restamped-pcr", 1)
		}
	}
	// long runs of skipped packets: every run length 0..110 at four start positions in a stream of 120 single-packet
	// units on two PIDs - however many packets are skipped in a row, the next one that is not skipped is returned
	{
		cc := []uint8{0, 0}
		var ps []*ref.Pkt
		for i := 0; i < 120; i++ {
			k := i % 2
			ps = append(ps, Packetize(PESUnit(uint16(0x100+k), 0xc0, pesPayload(300+i, 40+i%7, c.Seed), uint64(i+1), true), nil, &cc[k], false)...)
		}
		b := EncodePkts(ps)
		starts := []int{0, 1, 2, 7}
		total := int64(len(starts) * 111 * 2)
		done := mc.ParFor(total, c.OverBudget, func(i int64) {
			api := []string{"packet", "data"}[i%2]
			l := int(i / 2 % 111)
			s0 := starts[i/2/111]
			res, log, prob := runWithSkipper(b, api, func(call int, _ *astits.Packet) bool { return call >= s0 && call < s0+l })
			fb := append(append([]byte{}, b[:s0*188]...), b[(s0+l)*188:]...)
			want, p2 := runPlain(fb, api)
			if prob != "" || p2 != "" || !equalStrs(res, want) || len(log) != len(ps) {
				c.Rep.Report("skipper-differs-from-deletion:"+api, map[string]any{"kind": "stream", "stream": "skip-runs", "api": api, "skip_from": s0, "skip_run": l, "bytes": mc.Hex(b),
					"message": fmt.Sprintf("packets %d..%d skipped: %d results, %d on the filtered stream (or contents differ); predicate consulted %d times for %d packets; %s %s", s0, s0+l-1, len(res), len(want), len(log), len(ps), prob, p2)})
			}
			c.Ev.Distinct(fmt.Sprintf("skip-runs|%s|%d|%d", api, s0, l))
		})
		c.Ev.Class("long-skip-run", done)
		c.Ev.AddScenario(mc.Scenario{Name: "skip-runs", SpaceSize: total, Executed: done, Exhaustive: done == total, Bound: "120-packet stream: every run of 0..110 consecutive skipped packets starting at packet 0, 1, 2 or 7, NextPacket and NextData"})
	}
	// a stream that ends in the middle of units: a PMT and a PAT section whose last packet never comes, a
	// PES cut short - the packets that did arrive are a unit each, handed to the parser when the stream ends
	{
		ccs := []uint8{0, 3, 6}
		pat := Packetize(PSIUnit(0, 0, [][]byte{SecPAT(modelPAT(1, 0x1000), ref.SecHdr{CNI: true})}, nil), nil, &ccs[0], true)
		var args []uint16
		for i := 0; i < 70; i++ {
			args = append(args, uint16(i+1), uint16(0x1000+i))
		}
		pat2 := Packetize(PSIUnit(0, 0, [][]byte{SecPAT(modelPAT(args...), ref.SecHdr{CNI: true, Version: 1})}, nil), nil, &ccs[0], true)
		pmt := Packetize(PSIUnit(0x1000, 0, [][]byte{SecPMT(modelPMT(1, 0x100, 60), ref.SecHdr{CNI: true})}, nil), nil, &ccs[1], true)
		pes := Packetize(PESUnit(0x100, 0xe0, pesPayload(91, 500, c.Seed), 1, false), nil, &ccs[2], false)
		ps := append(append(append(append([]*ref.Pkt{}, pat...), pes[:2]...), pmt[0]), pat2[0])
		st := &Stream{Name: "cut-at-end-of-stream", Pkts: ps, Bytes: EncodePkts(ps)}
		c19Parsers(c, st, ps)
	}
	// packets whose unit start was lost, in the middle and at the end of the stream, with payloads that
	// look like a unit start: an observing parser must not change what is delivered for them (nothing)
	{
		st := HeadlessStream(c.Seed)
		var refPk []*ref.Pkt
		for i := 0; i*188 < len(st.Bytes); i++ {
			p, err := ref.DecodePkt(st.Bytes[i*188 : (i+1)*188])
			if err != nil {
				panic(err)
			}
			refPk = append(refPk, p)
		}
		c19Parsers(c, st, refPk)
	}
	c.Ev.Require("mixed-skip-vector", "duplicate-with-restamped-pcr", "long-skip-run", "skip-vector-with-auto-detection", "skip-vector-with-parser", "structured-predicate", "parser-observer", "parser-replacer", "parser-replacer-returns-nothing", "parser-identity-replacer", "parser-constant-slice-replacer", "parser-failing-on-non-pat-unit")
}

// IdenticalRunsStream carries runs of byte-identical packets (null packets with the same undefined
// counter, a PES packet and a PAT followed by their permitted duplicate, repeated PCR-only packets):
// a per-packet decision must still be asked for each of them.
func IdenticalRunsStream(seed int64) *Stream {
	null := &ref.Pkt{PID: 0x1fff, HasPL: true, CC: 5, Payload: bytes.Repeat([]byte{0xff}, 184)}
	cc := []uint8{6, 2}
	pes := Packetize(PESUnit(0x100, 0xe0, pesPayload(41, 300, seed), 7, false), nil, &cc[0], false)
	pat := Packetize(PSIUnit(0, 0, [][]byte{SecPAT(modelPAT(1, 0x1000), ref.SecHdr{CNI: true})}, nil), nil, &cc[1], true)
	pcr := &ref.Pkt{PID: 0x100, HasAF: true, AF: &ref.AF{PCR: &ref.PCR{Base: 77, Ext: 3}, Stuffing: 176}, CC: pes[len(pes)-1].CC}
	ps := []*ref.Pkt{null, null, null, pat[0], pat[0], pes[0], pes[0]}
	ps = append(ps, pes[1:]...)
	ps = append(ps, pcr, pcr)
	return &Stream{Name: "identical-runs", Pkts: ps, Bytes: EncodePkts(ps)}
}

// HeadlessStream: on a PES PID a complete unit, then (after a counter gap) continuation packets that
// begin with a PES start code, then a complete unit, then again headless look-alike packets up to the
// end of the stream; the same on the SDT PID with a look-alike section.
func HeadlessStream(seed int64) *Stream {
	look := append([]byte{0x00, 0x00, 0x01, 0xe0, 0x00, 0x00, 0x80, 0x00, 0x00}, bytes.Repeat([]byte{0x77}, 175)...)
	cc := uint8(0)
	var ps []*ref.Pkt
	ps = append(ps, Packetize(PESUnit(0x100, 0xe0, pesPayload(61, 300, seed), 1, false), nil, &cc, false)...)
	cc += 2 // two packets lost, among them a unit start
	ps = append(ps, &ref.Pkt{PID: 0x100, HasPL: true, CC: cc & 0xf, Payload: look})
	cc++
	ps = append(ps, Packetize(PESUnit(0x100, 0xe0, pesPayload(62, 100, seed), 2, false), nil, &cc, false)...)
	cc += 3
	ps = append(ps, &ref.Pkt{PID: 0x100, HasPL: true, CC: cc & 0xf, Payload: look})
	// PAT PID: a start-less packet that reads as pointer_field 0 + a complete PAT section (it is a unit of its
	// own for the custom parser: complete as far as the completeness test can tell), then a real PAT
	{
		psec := SecPAT(modelPAT(9, 0x1fee), ref.SecHdr{CNI: true, Version: 3})
		ppl := append(append([]byte{0x00}, psec...), bytes.Repeat([]byte{0xff}, 183-len(psec))...)
		ps = append(ps, &ref.Pkt{PID: 0, HasPL: true, CC: 4, Payload: ppl})
		c0 := uint8(5)
		ps = append(ps, Packetize(PSIUnit(0, 0, [][]byte{SecPAT(modelPAT(1, 0x1000), ref.SecHdr{CNI: true})}, nil), nil, &c0, true)...)
	}
	// a PID joined in mid-unit (two start-less packets), a counter gap, one more start-less packet, then a unit start:
	// what precedes the gap is gone, the parser may be handed the packet behind it, never the three together
	{
		tail := bytes.Repeat([]byte{0x66}, 184)
		ps = append(ps, &ref.Pkt{PID: 0x102, HasPL: true, CC: 3, Payload: tail}, &ref.Pkt{PID: 0x102, HasPL: true, CC: 4, Payload: tail},
			&ref.Pkt{PID: 0x102, HasPL: true, CC: 9, Payload: tail})
		c2 := uint8(10)
		ps = append(ps, Packetize(PESUnit(0x102, 0xc0, pesPayload(63, 50, seed), 3, true), nil, &c2, false)...)
	}
	// SI PID: a headless packet that looks like pointer_field 0 + a complete SDT section
	sec := SecSDT(modelSDT(1), ref.SecHdr{CNI: true})
	pl := append(append([]byte{0x00}, sec...), bytes.Repeat([]byte{0xff}, 183-len(sec))...)
	ps = append(ps, &ref.Pkt{PID: 0x11, HasPL: true, CC: 7, Payload: pl})
	return &Stream{Name: "headless-lookalikes", Pkts: ps, Bytes: EncodePkts(ps)}
}

// c19Parsers checks the PacketsParser contract on one stream.
func c19Parsers(c *mc.Ctx, st *Stream, refPk []*ref.Pkt) {
	plain, _ := runPlain(st.Bytes, "data")
	// expected unit partition per PID: split at PUSI; payload packets only, TEI excluded
	expGroups := map[uint16][][]int{}
	for i, p := range refPk {
		if !p.HasPL || p.TEI {
			continue
		}
		g := expGroups[p.PID]
		if p.PUSI || len(g) == 0 {
			g = append(g, nil)
		}
		g[len(g)-1] = append(g[len(g)-1], i)
		expGroups[p.PID] = g
	}
	nUnits := 0
	for _, g := range expGroups {
		nUnits += len(g)
	}
	canonPk := make([]string, len(refPk))
	{
		d := astits.NewDemuxer(context.Background(), bytes.NewReader(st.Bytes), astits.DemuxerOptPacketSize(188))
		o := DrainPackets(d, len(st.Bytes))
		for i, p := range o.Pkts {
			canonPk[i] = mc.Canon(p)
		}
	}
	errParser := errors.New("verif: parser failure")
	// mode: -2 observer (skip=false), -1 replacer (skip=true, one data per unit), k>=0 failing at call k;
	// -3 replacer returning nil, -4 replacer returning an empty slice, -5 replacer returning two data,
	// -(6+k) replacer returning nothing for unit k and one data for every other unit
	modes := []int{-1000} // -1000: replacer returning a marker that carries nothing but the PID (the zero value on PID 0)
	for mode := -6 - (nUnits - 1); mode < nUnits; mode++ {
		modes = append(modes, mode)
	}
	// -2000: identity replacer - skip=true with exactly the data the default processing delivers for that unit
	// (taken from a separate default run, attributed to units by their first packet): the output is the
	// default output, in particular a substituted PAT announces its PMT PIDs just as a default-parsed one
	var plainObjs *DmxOut
	{
		d := astits.NewDemuxer(context.Background(), bytes.NewReader(st.Bytes), astits.DemuxerOptPacketSize(188))
		plainObjs = DrainData(d, len(st.Bytes))
	}
	firstKey := func(p *astits.Packet) string {
		return mc.Canon(&astits.Packet{Header: p.Header, AdaptationField: p.AdaptationField})
	}
	if plainObjs.Panic == nil && len(plainObjs.Errs) == 0 && st.Name != "headless-lookalikes" {
		modes = append(modes, -2000)
	}
	// -3000: replacer that answers every unit of a PID with the same slice of four data (a per-PID constant it
	// keeps): the slice belongs to the parser, the Demuxer delivers its contents and leaves it alone
	modes = append(modes, -3000)
	for _, mode := range modes {
		groups := map[uint16][][]int{}
		constSlice := map[uint16][]*astits.DemuxerData{}
		constSnap := map[uint16][]string{}
		byFirst := map[string][][]*astits.DemuxerData{}
		if mode == -2000 {
			// data of one unit are consecutive in the default output and share the FirstPacket
			for i := 0; i < len(plainObjs.Data); {
				j := i
				for j < len(plainObjs.Data) && plainObjs.Data[j].FirstPacket == plainObjs.Data[i].FirstPacket {
					j++
				}
				k := firstKey(plainObjs.Data[i].FirstPacket)
				byFirst[k] = append(byFirst[k], plainObjs.Data[i:j])
				i = j
			}
		}
		var returned []string
		calls := 0
		bad := ""
		next := map[uint16]int{}
		var kept [][]*astits.Packet // the slices as handed over (not copied), re-examined when the stream has ended
		var keptSnap []string
		parser := func(ps []*astits.Packet) ([]*astits.DemuxerData, bool, error) {
			call := calls
			calls++
			kept = append(kept, ps)
			keptSnap = append(keptSnap, mc.Canon(ps))
			if len(ps) == 0 {
				bad = "parser called with an empty packet group"
				return nil, false, nil
			}
			pid := ps[0].Header.PID
			var idx []int
			for _, p := range ps {
				if p.Header.PID != pid {
					bad = "parser called with packets of several PIDs"
				}
				// identify the packet by content among this PID's packets, in order
				cs := mc.Canon(p)
				found := -1
				for i := next[pid]; i < len(refPk); i++ {
					if refPk[i].PID == pid && canonPk[i] == cs {
						found = i
						break
					}
				}
				if found < 0 {
					// the end of a section that sits in the pointer area of the packet starting the next unit is handed
					// over as a view of that packet: same header without payload_unit_start, payload = the pointer area
					for i := next[pid]; i < len(refPk) && found < 0; i++ {
						q := refPk[i]
						if q.PID == pid && q.PUSI && q.HasPL && len(q.Payload) > 0 && q.Payload[0] > 0 && int(q.Payload[0]) < len(q.Payload) &&
							!p.Header.PayloadUnitStartIndicator && bytes.Equal(p.Payload, q.Payload[1:1+int(q.Payload[0])]) && p.Header.ContinuityCounter == q.CC {
							found = -2 - i
						}
						if q.PID == pid && q.HasPL {
							break // only the very next payload packet of the PID qualifies
						}
					}
				}
				if found <= -2 {
					c.Ev.Class("parser-handed-section-end-view", 1)
					found = -1
				} else if found < 0 {
					bad = "parser was handed a packet out of arrival order, twice, or not from the stream"
				} else {
					next[pid] = found + 1
				}
				idx = append(idx, found)
			}
			groups[pid] = append(groups[pid], idx)
			// whatever the partition, a unit never spans a continuity counter gap: the packets handed over are
			// consecutive payload packets of their PID
			for k := 1; k < len(idx); k++ {
				if idx[k] >= 0 && idx[k-1] >= 0 && refPk[idx[k]].CC != (refPk[idx[k-1]].CC+1)&0xf && refPk[idx[k]].CC != refPk[idx[k-1]].CC {
					bad = fmt.Sprintf("parser was handed a unit that spans a continuity counter gap (counter %d after %d on PID %#x)", refPk[idx[k]].CC, refPk[idx[k-1]].CC, pid)
				}
			}
			switch {
			case mode == -3000:
				if constSlice[pid] == nil {
					for k := 0; k < 4; k++ {
						d := &astits.DemuxerData{PID: pid, PES: &astits.PESData{Data: []byte{byte(pid), byte(k)}}}
						constSlice[pid] = append(constSlice[pid], d)
						constSnap[pid] = append(constSnap[pid], mc.Canon(d))
					}
				}
				returned = append(returned, constSnap[pid]...)
				return constSlice[pid], true, nil
			case mode == -2000:
				k := firstKey(ps[0])
				if q := byFirst[k]; len(q) > 0 {
					byFirst[k] = q[1:]
					for _, d := range q[0] {
						returned = append(returned, mc.Canon(d))
					}
					return q[0], true, nil
				}
				return nil, true, nil
			case mode == -1000:
				d := &astits.DemuxerData{PID: pid}
				returned = append(returned, mc.Canon(d))
				return []*astits.DemuxerData{d}, true, nil
			case mode == -3 || mode == -6-call:
				return nil, true, nil
			case mode == -4:
				return []*astits.DemuxerData{}, true, nil
			case mode == -5:
				d1 := &astits.DemuxerData{PID: pid, PES: &astits.PESData{Data: []byte{byte(call), 1}}}
				d2 := &astits.DemuxerData{PID: pid, PES: &astits.PESData{Data: []byte{byte(call), 2}}}
				returned = append(returned, mc.Canon(d1), mc.Canon(d2))
				return []*astits.DemuxerData{d1, d2}, true, nil
			case mode == -1 || mode <= -6:
				d := &astits.DemuxerData{PID: pid, PES: &astits.PESData{Data: []byte{byte(call)}}}
				returned = append(returned, mc.Canon(d))
				return []*astits.DemuxerData{d}, true, nil
			case mode == call:
				return nil, false, errParser
			}
			return nil, false, nil
		}
		d := astits.NewDemuxer(context.Background(), bytes.NewReader(st.Bytes), astits.DemuxerOptPacketSize(188), astits.DemuxerOptPacketsParser(parser))
		o := DrainData(d, len(st.Bytes))
		det := map[string]any{"kind": "stream", "stream": st.Name, "parser_mode": mode, "bytes": mc.Hex(st.Bytes)}
		rep := func(sig, msg string) { det["message"] = msg; c.Rep.Report(sig, det) }
		if o.Panic != nil || !o.EOF {
			rep("parser-run-failed", fmt.Sprintf("panic=%v eof=%v", o.Panic, o.EOF))
			continue
		}
		if bad != "" {
			rep("parser-argument", bad)
		}
		if st.Name == "headless-lookalikes" {
			// every start-less look-alike packet is handed to the parser (in some unit): nothing else will ever
			// look at it
			seen := map[int]bool{}
			for _, gs := range groups {
				for _, g := range gs {
					for _, i := range g {
						seen[i] = true
					}
				}
			}
			for i, p := range refPk {
				if !p.PUSI && p.HasPL && !p.TEI && len(p.Payload) > 3 && p.Payload[0] == 0 && p.Payload[1] == 0 && !seen[i] {
					rep("parser-never-handed-startless-packets", fmt.Sprintf("packet %d (PID %#x, no payload_unit_start) was never handed to the PacketsParser", i, p.PID))
					break
				}
			}
		}
		for k := range kept {
			if mc.Canon(kept[k]) != keptSnap[k] {
				rep("parser-argument-changed-later", fmt.Sprintf("the packet slice handed to the parser for unit %d was modified by later calls (a parser that keeps what it was given sees another unit's packets)", k))
				break
			}
		}
		if mode < 0 && st.Name != "headless-lookalikes" && st.Name != "restamped-duplicate" { // units cut by a counter gap are never assembled: C06's subject
			// section-end views (index -1) are not packets of their own
			stripped := map[uint16][][]int{}
			for pid, gs := range groups {
				for _, g := range gs {
					var h []int
					for _, i := range g {
						if i >= 0 {
							h = append(h, i)
						}
					}
					stripped[pid] = append(stripped[pid], h)
				}
			}
			if mc.Canon(stripped) != mc.Canon(expGroups) {
				rep("parser-unit-partition", fmt.Sprintf("parser saw groups %v, the stream carries %v", groups, expGroups))
			}
		} else if st.Name != "headless-lookalikes" && st.Name != "restamped-duplicate" {
			// a failing parser keeps a PAT from being learned, which legitimately changes when (and
			// whether) PMT units are flushed: demand only that every group handed over is one of the
			// carried units, at most once and in per-PID order
			for pid, gs := range groups {
				k := 0
				for _, gv := range gs {
					var g []int // without the section-end views
					for _, i := range gv {
						if i >= 0 {
							g = append(g, i)
						}
					}
					for k < len(expGroups[pid]) && fmt.Sprint(expGroups[pid][k]) != fmt.Sprint(g) {
						k++
					}
					if k == len(expGroups[pid]) {
						rep("parser-unit-partition", fmt.Sprintf("PID %#x: parser saw group %v which is not a carried unit in order (%v)", pid, g, expGroups[pid]))
						break
					}
					k++
				}
			}
		}
		var got []string
		for _, x := range o.Data {
			got = append(got, mc.Canon(x))
		}
		switch {
		case mode == -2:
			c.Ev.Class("parser-observer", 1)
			if len(o.Errs) > 0 || !equalStrs(got, plain) {
				rep("parser-skip-false-changes-output", fmt.Sprintf("%d data with an observing parser, %d without", len(got), len(plain)))
			}
		case mode == -3000:
			c.Ev.Class("parser-constant-slice-replacer", 1)
			if len(o.Errs) > 0 || !equalStrs(got, returned) {
				rep("parser-skip-true-not-substituted", fmt.Sprintf("%d data delivered, the parser returned %d (the same four data for every unit of a PID)", len(got), len(returned)))
			}
			for pid, sl := range constSlice {
				for k, d := range sl {
					if mc.Canon(d) != constSnap[pid][k] {
						rep("parser-result-slice-modified", fmt.Sprintf("the slice the parser returned for PID %#x was modified by the Demuxer (element %d)", pid, k))
					}
				}
			}
		case mode == -2000:
			c.Ev.Class("parser-identity-replacer", 1)
			if len(o.Errs) > 0 || !equalStrs(got, plain) {
				rep("parser-identity-replacer-changes-output", fmt.Sprintf("%d data with a replacer that returns the default data of every unit, %d without a parser", len(got), len(plain)))
			}
		case mode == -1 || mode <= -3:
			c.Ev.Class("parser-replacer", 1)
			if mode <= -3 && mode != -5 {
				c.Ev.Class("parser-replacer-returns-nothing", 1)
			}
			if len(o.Errs) > 0 || !equalStrs(got, returned) {
				rep("parser-skip-true-not-substituted", fmt.Sprintf("%d data delivered, the parser returned %d", len(got), len(returned)))
			}
		default:
			c.Ev.Class("parser-failing", 1)
			// a parser failing on a unit that is not a PAT changes nothing else: every other unit is still handed over
			// exactly once, and every other datum is delivered
			if mode < len(kept) && len(kept[mode]) > 0 && kept[mode][0].Header.PID != 0 && st.Name != "headless-lookalikes" && st.Name != "restamped-duplicate" {
				failPID := kept[mode][0].Header.PID
				stripped := map[uint16][][]int{}
				for pid, gs := range groups {
					for _, g := range gs {
						var h []int
						for _, i := range g {
							if i >= 0 {
								h = append(h, i)
							}
						}
						stripped[pid] = append(stripped[pid], h)
					}
				}
				if mc.Canon(stripped) != mc.Canon(expGroups) {
					rep("parser-unit-partition", fmt.Sprintf("parser failing on a unit of PID %#x: it saw groups %v, the stream carries %v", failPID, stripped, expGroups))
				}
				pb, gb := map[uint16]int{}, map[uint16]int{}
				for _, x := range plainObjs.Data {
					pb[x.PID]++
				}
				for _, x := range o.Data {
					gb[x.PID]++
				}
				for pid, n := range pb {
					if pid != failPID && gb[pid] != n {
						rep("parser-failure-alters-output", fmt.Sprintf("parser failing on a unit of PID %#x: PID %#x delivers %d data instead of %d", failPID, pid, gb[pid], n))
					}
				}
				if len(o.Errs) > 1 { // (a failure in the end-of-stream dump is logged, not returned)
					rep("parser-failure-alters-output", fmt.Sprintf("parser failing once: %d errors returned (%v)", len(o.Errs), errStrings(o.Errs)))
				}
				c.Ev.Class("parser-failing-on-non-pat-unit", 1)
			}
			// everything delivered on a PID is a subsequence of that PID's default output (across PIDs the order may
			// change: a PAT that failed to parse is not learnt, and a PMT unit that preceded the next PAT is then
			// delivered when its successor starts)
			plainBy, gotBy := map[uint16][]string{}, map[uint16][]string{}
			for _, x := range plainObjs.Data {
				plainBy[x.PID] = append(plainBy[x.PID], mc.Canon(x))
			}
			for _, x := range o.Data {
				gotBy[x.PID] = append(gotBy[x.PID], mc.Canon(x))
			}
			for pid, g := range gotBy {
				k := 0
				for _, x := range plainBy[pid] {
					if k < len(g) && g[k] == x {
						k++
					}
				}
				if k != len(g) {
					rep("parser-failure-alters-output", fmt.Sprintf("data delivered on PID %#x around a failing parser are not a subsequence of that PID's default output", pid))
				}
			}
		}
		c.Ev.Distinct(fmt.Sprintf("%s|parser|%d", st.Name, mode))
	}
	c.Ev.AddScenario(mc.Scenario{Name: "parsers:" + st.Name, SpaceSize: int64(2*nUnits + 5), Executed: int64(2*nUnits + 5), Exhaustive: true, Bound: "observer; replacer returning one, two, nil or an empty slice of data for every unit; replacer returning nothing for unit k only, for every k; failing at unit k for every k"})
}

// ---------------------------------------------------------------------------------------
// C20 Rewind

// MultiSectionStream: units that deliver several data at once (a PAT in 4 sections inside one
// packet, an SDT+SDT+SDT unit over two packets, a PMT in 2 sections), so that a Rewind can fall
// between two data of the same unit.
func MultiSectionStream(seed int64) *Stream {
	ccs := []uint8{3, 7, 11, 14}
	var patSecs [][]byte
	for i := 0; i < 4; i++ {
		patSecs = append(patSecs, SecPAT(modelPAT(uint16(1+i), uint16(0x1001+i)), ref.SecHdr{CNI: true, SN: uint8(i), LSN: 3}))
	}
	pmt := modelPMT(1, 0x100, 1)
	var sdtSecs [][]byte
	for i := 0; i < 3; i++ {
		sdtSecs = append(sdtSecs, SecSDT(modelSDT(2+i), ref.SecHdr{CNI: true, SN: uint8(i), LSN: 2}))
	}
	// the first packet of each multi-section unit carries an adaptation field with every flag set that does not change
	// how the unit is assembled: all the data of the unit share that packet as their FirstPacket
	withAF := func(u SUnit, k int) SUnit {
		u.AF = &ref.AF{Disc: true, RAI: true, ESPrio: true, PCR: &ref.PCR{Base: uint64(1000 + k), Ext: uint16(k)}, HasPrivate: true, Private: []byte{0xd1, byte(k)}}
		return u
	}
	lists := [][]*ref.Pkt{
		Packetize(withAF(PSIUnit(0, 0, patSecs, nil), 1), nil, &ccs[0], true),
		Packetize(withAF(PSIUnit(0x1001, 0, [][]byte{SecPMT(pmt, ref.SecHdr{CNI: true, SN: 0, LSN: 1}), SecPMT(modelPMT(1, 0x100, 2), ref.SecHdr{CNI: true, SN: 1, LSN: 1})}, nil), 2), nil, &ccs[1], true),
		Packetize(withAF(PSIUnit(0x11, 0, sdtSecs, nil), 3), nil, &ccs[2], true),
		append(Packetize(PESUnit(0x100, 0xe0, pesPayload(31, 200, seed), 1, false), nil, &ccs[3], false), Packetize(PESUnit(0x100, 0xe0, pesPayload(32, 20, seed), 2, false), nil, &ccs[3], false)...),
	}
	st := BuildStream("multi-section-units", lists, roundRobin(lists), nil)
	return st
}

func checkC20(c *mc.Ctx) {
	c.Ev.Level = "model_checking"
	c.Ev.Rule = "all operation sequences over {NextPacket, NextData, Rewind} up to the depth bound, every number k of calls before a Rewind and every pair (k1,k2) for two rewinds, on the real Demuxer over a seekable reader, explicit and auto-detected packet size; after the final Rewind the complete NextData (and NextPacket) sequence is compared with a fresh Demuxer's; distinct_nontrivial = distinct operation sequences"
	c.Ev.Assumptions = append(c.Ev.Assumptions, "streams carry their PAT before their PMTs (programme map warm-up is then harmless)", "seekable reader = bytes.Reader")
	depth := 6
	if c.Thorough() {
		depth = 8
	}
	streams := c19Streams(c.Seed)
	streams = append(streams, &Stream{Name: "big-payloads", Bytes: BigPayloadStream(c.Seed)}, MultiSectionStream(c.Seed), NetworkPIDStream(c.Seed, 0x10), NetworkPIDStream(c.Seed, 0x50), HeadlessStream(c.Seed), BrokenSectionStream(c.Seed), ESTypesStream(c.Seed), TSIDChangeStream(c.Seed), PMTPIDTakeoverStream(c.Seed), PCRInsideUnitsStream(c.Seed), PayloadlessFirstStream(c.Seed))
	for _, st0 := range streams {
		for _, cfg := range []struct {
			auto bool
			opt  string
			k    int // packet size 188+k
		}{{false, "", 0}, {true, "", 0}, {false, "skipper", 0}, {true, "skipper", 0}, {true, "parser", 0}, {false, "", 16}, {true, "", 4}} {
			auto, optName := cfg.auto, cfg.opt
			st := st0
			if cfg.k > 0 {
				st = &Stream{Name: fmt.Sprintf("%s@%d", st0.Name, 188+cfg.k), Bytes: enlarge(st0.Bytes, cfg.k)}
			}
			size := 188 + cfg.k
			// the options of the Demuxer survive a Rewind: a skipper that removes every packet with an odd
			// continuity counter or of the null PID, a parser that replaces the data of the PAT
			mk := func() *astits.Demuxer { return c20Demuxer(st.Bytes, auto, size, optName) }
			freshD, endD := c20Answers(mk(), "data", len(st.Bytes))
			freshP, endP := c20Answers(mk(), "packet", len(st.Bytes))
			if !endD || !endP {
				c.Rep.Report("fresh-run-never-ends", map[string]any{"kind": "rewind", "stream": st.Name, "auto": auto, "option": optName, "size": size, "ops": "", "bytes": mc.Hex(st.Bytes), "message": "a fresh Demuxer does not reach ErrNoMorePackets"})
				continue
			}
			totalD, totalP := len(freshD), len(freshP)
			// sequences: explicit list of op strings (P D R)
			var seqs []string
			r := mc.Radix{}
			for l := 0; l <= depth; l++ {
				r = make(mc.Radix, l)
				for i := range r {
					r[i] = 3
				}
				for i := int64(0); i < r.Size(); i++ {
					dg := r.Digits(i, nil)
					s := ""
					for _, x := range dg {
						s += string("PDR"[x])
					}
					seqs = append(seqs, s)
				}
			}
			rep := func(n int, ch byte) string { return string(bytes.Repeat([]byte{ch}, n)) }
			for k := 0; k <= totalD+1; k++ {
				seqs = append(seqs, rep(k, 'D'))
				for k2 := 0; k2 <= totalD+1; k2++ {
					seqs = append(seqs, rep(k, 'D')+"R"+rep(k2, 'D'))
				}
			}
			for k := 0; k <= totalP+1; k++ {
				seqs = append(seqs, rep(k, 'P'))
				for k2 := 0; k2 <= totalP+1; k2 += 3 {
					seqs = append(seqs, rep(k, 'P')+"R"+rep(k2, 'D'))
				}
			}
			total := int64(len(seqs)) * 2
			done := mc.ParFor(total, c.OverBudget, func(i int64) {
				s, finalAPI := seqs[i/2], []string{"data", "packet"}[i%2]
				d := mk()
				det := map[string]any{"kind": "rewind", "stream": st.Name, "auto": auto, "option": optName, "size": size, "ops": s, "then": "Rewind + drain " + finalAPI, "bytes": mc.Hex(st.Bytes)}
				fail := func(sig, msg string) { det["message"] = msg; c.Rep.Report(sig, det) }
				if p := mc.Catch(func() {
					for _, op := range s {
						switch op {
						case 'P':
							d.NextPacket()
						case 'D':
							d.NextData()
						case 'R':
							if n, err := d.Rewind(); n != 0 || err != nil {
								fail("rewind-return", fmt.Sprintf("Rewind returned (%d, %v)", n, err))
							}
						}
					}
					if n, err := d.Rewind(); n != 0 || err != nil {
						fail("rewind-return", fmt.Sprintf("Rewind returned (%d, %v)", n, err))
					}
				}); p != nil {
					fail("panic", fmt.Sprint(p))
					return
				}
				// the complete sequence of answers (data or packets, errors, end) must be that of a fresh Demuxer
				got, ended := c20Answers(d, finalAPI, len(st.Bytes))
				want := freshD
				if finalAPI == "packet" {
					want = freshP
				}
				if !ended {
					fail("after-rewind-run-failed", "ErrNoMorePackets not reached after the Rewind")
					return
				}
				if !equalStrs(got, want) {
					fail("rewind-residue:"+finalAPI, fmt.Sprintf("after %q + Rewind the demuxer delivers %d results, a fresh one %d (or contents differ)", s, len(got), len(want)))
				}
				if len(s) > 0 {
					c.Ev.Class("rewind-after-consumption", 1)
				}
				if optName != "" {
					c.Ev.Class("rewind-with-skipper-or-parser", 1)
				}
				c.Ev.Distinct(fmt.Sprintf("%s|%v|%s|%s|%s", st.Name, auto, optName, s, finalAPI))
			})
			c.Ev.AddScenario(mc.Scenario{Name: fmt.Sprintf("rewind:%s:auto=%v:%s", st.Name, auto, optName), SpaceSize: total, Executed: done, Exhaustive: done == total,
				Bound: fmt.Sprintf("all sequences over {NextPacket,NextData,Rewind} of length <= %d; D^k R D^k2 for all k,k2 <= %d; P^k (R D^k2); each followed by Rewind and a full drain through NextData and through NextPacket", depth, totalD+1)})
			c.Ev.Sample(map[string]any{"stream": st.Name, "auto": auto, "example_ops": "DDPRD then Rewind, drain"})
		}
	}
	c20Undetectable(c)
	c.Ev.Require("rewind-after-consumption", "rewind-with-skipper-or-parser", "rewind-after-failed-detection")
}

// BrokenSectionStream: units whose second section is damaged (wrong CRC_32) behind a valid first one, on
// the PAT PID, a PMT PID and an SI PID, and a PES whose header is cut short: a fresh Demuxer answers
// with data and errors in a certain order, a rewound one must answer the same.
func BrokenSectionStream(seed int64) *Stream {
	ccs := []uint8{0, 0, 0, 0}
	bad := func(sec []byte) []byte {
		b := append([]byte{}, sec...)
		b[len(b)-1] ^= 0xff
		return b
	}
	patA, patB := SecPAT(modelPAT(1, 0x1000), ref.SecHdr{CNI: true, LSN: 1}), SecPAT(modelPAT(2, 0x1001), ref.SecHdr{CNI: true, SN: 1, LSN: 1})
	sdtA, sdtB := SecSDT(modelSDT(1), ref.SecHdr{CNI: true, LSN: 1}), SecSDT(modelSDT(2), ref.SecHdr{CNI: true, SN: 1, LSN: 1})
	pmtA, pmtB := SecPMT(modelPMT(1, 0x100, 1), ref.SecHdr{CNI: true, LSN: 1}), SecPMT(modelPMT(1, 0x100, 2), ref.SecHdr{CNI: true, SN: 1, LSN: 1})
	lists := [][]*ref.Pkt{
		// a complete PAT first (the domain: the PAT precedes the PMTs), then one whose second section is damaged
		append(Packetize(PSIUnit(0, 0, [][]byte{patA, patB}, nil), nil, &ccs[0], true), Packetize(PSIUnit(0, 0, [][]byte{patA, bad(patB)}, nil), nil, &ccs[0], true)...),
		Packetize(PSIUnit(0x1000, 0, [][]byte{pmtA, bad(pmtB)}, nil), nil, &ccs[1], true),
		append(Packetize(PSIUnit(0x11, 0, [][]byte{sdtA, bad(sdtB)}, nil), nil, &ccs[2], true), Packetize(PSIUnit(0x11, 0, [][]byte{sdtB}, nil), nil, &ccs[2], true)...),
		append(Packetize(SUnit{PID: 0x100, Bytes: []byte{0, 0, 1, 0xe0, 0, 0, 0x80, 0xc0, 40, 0x31}}, nil, &ccs[3], false), Packetize(PESUnit(0x100, 0xe0, pesPayload(95, 50, seed), 1, false), nil, &ccs[3], false)...),
	}
	return BuildStream("broken-second-sections", lists, roundRobin(lists), nil)
}

// NetworkPIDStream: the PAT announces the network PID under program_number 0 (the default 0x10, or a
// private one), and that PID carries a section before the first PAT as well as after it (the PAT still
// precedes the PMT): what a Demuxer learns from the PAT must not change how it treats, after a Rewind,
// what came in front of it.
func NetworkPIDStream(seed int64, netPID uint16) *Stream {
	ccs := []uint8{1, 5, 9, 13}
	nitA, nitB := modelNIT(1), modelNIT(2)
	nitA.NetworkID, nitB.NetworkID = 0x1111, 0x2222
	pat, pmt := modelPAT(0, netPID, 1, 0x1000), modelPMT(1, 0x100, 1)
	lists := [][]*ref.Pkt{
		append(Packetize(PSIUnit(netPID, 0, [][]byte{SecNIT(nitA, ref.SecHdr{CNI: true})}, nil), nil, &ccs[0], true), Packetize(PSIUnit(netPID, 0, [][]byte{SecNIT(nitB, ref.SecHdr{CNI: true, Version: 1})}, nil), nil, &ccs[0], true)...),
		Packetize(PSIUnit(0, 0, [][]byte{SecPAT(pat, ref.SecHdr{CNI: true})}, nil), nil, &ccs[1], true),
		Packetize(PSIUnit(0x1000, 0, [][]byte{SecPMT(pmt, ref.SecHdr{CNI: true})}, nil), nil, &ccs[2], true),
		Packetize(PESUnit(0x100, 0xe0, pesPayload(71, 100, seed), 1, false), nil, &ccs[3], false),
	}
	// order: NIT-A, PAT, PMT, PES, NIT-B
	order := []int{0, 1, 2, 3, 0}
	return BuildStream(fmt.Sprintf("network-pid-%#x-before-pat", netPID), lists, order, nil)
}

// ESTypesStream: a PMT that announces elementary streams of the types that are not plain audio / video PES
// (private sections 0x05, private PES data 0x06, DSM-CC sections 0x0b, user private 0x80 and 0xff, next to MPEG-2
// video): every one of those PIDs carries a section-shaped unit before the PAT, a PES packet behind the PMT and a
// second section-shaped unit after that. What the Demuxer has learnt from the PMT is not what decides how an
// elementary PID is assembled.
func ESTypesStream(seed int64) *Stream {
	types := []astits.StreamType{0x05, 0x06, 0x0b, 0x80, 0xff, 0x02}
	pmt := &astits.PMTData{ProgramNumber: 1, PCRPID: 0x200}
	var lists [][]*ref.Pkt
	ccs := make([]uint8, len(types)+2)
	for k, t := range types {
		pid := uint16(0x200 + k)
		pmt.ElementaryStreams = append(pmt.ElementaryStreams, &astits.PMTElementaryStream{ElementaryPID: pid, StreamType: t})
		ccs[k] = uint8(3 * k)
		sdtA, sdtB := modelSDT(1), modelSDT(2)
		sdtA.TransportStreamID, sdtB.TransportStreamID = uint16(0x10+k), uint16(0x20+k)
		var l []*ref.Pkt
		l = append(l, Packetize(PSIUnit(pid, 0, [][]byte{SecSDT(sdtA, ref.SecHdr{CNI: true})}, nil), nil, &ccs[k], true)...)
		l = append(l, Packetize(PESUnit(pid, 0xbd, pesPayload(140+k, 60, seed), uint64(k+1), true), nil, &ccs[k], false)...)
		l = append(l, Packetize(PSIUnit(pid, 0, [][]byte{SecSDT(sdtB, ref.SecHdr{CNI: true, Version: 1})}, nil), nil, &ccs[k], true)...)
		lists = append(lists, l)
	}
	n := len(types)
	lists = append(lists, Packetize(PSIUnit(0, 0, [][]byte{SecPAT(modelPAT(1, 0x1000), ref.SecHdr{CNI: true})}, nil), nil, &ccs[n], true))
	lists = append(lists, Packetize(PSIUnit(0x1000, 0, [][]byte{SecPMT(pmt, ref.SecHdr{CNI: true})}, nil), nil, &ccs[n+1], true))
	var order []int
	for k := 0; k < n; k++ {
		order = append(order, k)
	}
	order = append(order, n, n+1)
	for r := 0; r < 2; r++ {
		for k := 0; k < n; k++ {
			order = append(order, k)
		}
	}
	return BuildStream("elementary-stream-types", lists, order, nil)
}

// TSIDChangeStream: the identity of the multiplex changes in mid-stream (a PAT with another transport_stream_id and
// another PMT PID, as after a re-multiplexing), around units that are being assembled: a video unit starts before
// the first PAT and ends after it, another one straddles the second PAT.
func TSIDChangeStream(seed int64) *Stream {
	ccs := []uint8{2, 6, 10, 14}
	patA, patB := modelPAT(1, 0x1000), modelPAT(1, 0x1001)
	patA.TransportStreamID, patB.TransportStreamID = 0x0a0a, 0x0b0b
	v1 := Packetize(PESUnit(0x100, 0xe0, pesPayload(151, 184*2-14-5, seed), 1, false), nil, &ccs[3], false)
	v2 := Packetize(PESUnit(0x100, 0xe0, pesPayload(152, 184*2-14-5, seed), 2, false), nil, &ccs[3], false)
	v3 := Packetize(PESUnit(0x100, 0xe0, pesPayload(153, 40, seed), 3, false), nil, &ccs[3], false)
	lists := [][]*ref.Pkt{
		append(Packetize(PSIUnit(0, 0, [][]byte{SecPAT(patA, ref.SecHdr{CNI: true})}, nil), nil, &ccs[0], true), Packetize(PSIUnit(0, 0, [][]byte{SecPAT(patB, ref.SecHdr{CNI: true, Version: 1})}, nil), nil, &ccs[0], true)...),
		Packetize(PSIUnit(0x1000, 0, [][]byte{SecPMT(modelPMT(1, 0x100, 1), ref.SecHdr{CNI: true})}, nil), nil, &ccs[1], true),
		Packetize(PSIUnit(0x1001, 0, [][]byte{SecPMT(modelPMT(1, 0x100, 2), ref.SecHdr{CNI: true, Version: 1})}, nil), nil, &ccs[2], true),
		append(append(v1, v2...), v3...),
	}
	// video(1a) PAT-A PMT-A video(1b) video(2a) PAT-B video(2b) PMT-B video(3)
	return BuildStream("transport-stream-id-changes", lists, []int{3, 0, 1, 3, 3, 0, 3, 2, 3}, nil)
}

// PMTPIDTakeoverStream: two programmes whose PMT PIDs change hands over three PATs - apart, both on the PID the
// first one had, swapped - each PAT followed by the PMTs it announces.
func PMTPIDTakeoverStream(seed int64) *Stream {
	var ps []*ref.Pkt
	c0 := uint8(5)
	cp := map[uint16]*uint8{0x1000: new(uint8), 0x1001: new(uint8)}
	ver := uint8(0)
	for _, m := range [][2]uint16{{0x1000, 0x1001}, {0x1000, 0x1000}, {0x1001, 0x1000}} {
		ps = append(ps, Packetize(PSIUnit(0, 0, [][]byte{SecPAT(modelPAT(1, m[0], 2, m[1]), ref.SecHdr{CNI: true, Version: ver})}, nil), nil, &c0, true)...)
		for prog := 0; prog < 2; prog++ {
			pmt := modelPMT(uint16(prog+1), uint16(0x100+prog), 1+prog)
			ps = append(ps, Packetize(PSIUnit(m[prog], 0, [][]byte{SecPMT(pmt, ref.SecHdr{CNI: true, Version: ver})}, nil), nil, cp[m[prog]], true)...)
		}
		ver++
	}
	return &Stream{Name: "pmt-pid-takeover", Pkts: ps, Bytes: EncodePkts(ps)}
}

// PCRInsideUnitsStream: clock references that do not sit in the first packet of a unit - in the adaptation field of
// a unit's second packet, in a packet without payload between two packets of a unit - and grow from unit to unit.
func PCRInsideUnitsStream(seed int64) *Stream {
	ccs := []uint8{0, 0}
	cv := uint8(7)
	var ps []*ref.Pkt
	ps = append(ps, Packetize(PSIUnit(0, 0, [][]byte{SecPAT(modelPAT(1, 0x1000), ref.SecHdr{CNI: true})}, nil), nil, &ccs[0], true)...)
	ps = append(ps, Packetize(PSIUnit(0x1000, 0, [][]byte{SecPMT(modelPMT(1, 0x100, 1), ref.SecHdr{CNI: true})}, nil), nil, &ccs[1], true)...)
	for k := 0; k < 3; k++ {
		u := Packetize(PESUnit(0x100, 0xe0, pesPayload(170+k, 184+100+184-14-5, seed), uint64(k+1), false), []int{0, 100}, &cv, false)
		// second packet: 100 payload bytes, the rest adaptation field - put a PCR into it
		u[1].AF.PCR = &ref.PCR{Base: uint64(1000 * (k + 1)), Ext: uint16(k)}
		u[1].AF.Stuffing -= 6
		// a packet without payload carrying the next PCR, between the second and the third packet (same counter)
		pcrOnly := &ref.Pkt{PID: 0x100, HasAF: true, AF: &ref.AF{PCR: &ref.PCR{Base: uint64(1000*(k+1) + 500)}, Stuffing: 176}, CC: u[1].CC}
		ps = append(ps, u[0], u[1], pcrOnly)
		ps = append(ps, u[2:]...)
	}
	return &Stream{Name: "pcr-inside-units", Pkts: ps, Bytes: EncodePkts(ps)}
}

// PayloadlessFirstStream: the first packet of every PID - the PMT PID and the SDT PID included - is a packet
// without payload (adaptation field only, a PCR in it) that arrives before the PAT; tables and video units follow,
// interleaved.
func PayloadlessFirstStream(seed int64) *Stream {
	var ps []*ref.Pkt
	cc := map[uint16]*uint8{0: new(uint8), 0x1000: new(uint8), 0x11: new(uint8), 0x100: new(uint8)}
	*cc[0x1000], *cc[0x11], *cc[0x100] = 5, 9, 13
	for _, pid := range []uint16{0x1000, 0x11, 0x100} {
		// (a packet without payload carries the counter of the PID's previous payload packet: one less than the next one)
		ps = append(ps, &ref.Pkt{PID: pid, HasAF: true, AF: &ref.AF{PCR: &ref.PCR{Base: uint64(pid)}, Stuffing: 176}, CC: (*cc[pid] + 15) & 0xf})
	}
	ps = append(ps, Packetize(PSIUnit(0, 0, [][]byte{SecPAT(modelPAT(1, 0x1000), ref.SecHdr{CNI: true})}, nil), nil, cc[0], true)...)
	for k := 0; k < 3; k++ {
		ps = append(ps, Packetize(PSIUnit(0x1000, 0, [][]byte{SecPMT(modelPMT(1, 0x100, 1+k), ref.SecHdr{CNI: true, Version: uint8(k)})}, nil), nil, cc[0x1000], true)...)
		ps = append(ps, Packetize(PESUnit(0x100, 0xe0, pesPayload(190+k, 100+k, seed), uint64(k+1), false), nil, cc[0x100], false)...)
		ps = append(ps, Packetize(PSIUnit(0x11, 0, [][]byte{SecSDT(modelSDT(1+k), ref.SecHdr{CNI: true, Version: uint8(k)})}, nil), nil, cc[0x11], true)...)
	}
	return &Stream{Name: "payloadless-packets-first", Pkts: ps, Bytes: EncodePkts(ps)}
}

// VersionToggleStream: tables that change over time and come back to a version number they had before with
// other content of the same length (a multiplexer toggling version 0, 1, 0): PAT three times (programme 1 on
// PMT PID 0x1000, 0x1001, 0x1002), each followed by the PMT it announces (same version, different PCR PID) and
// an SDT of the same shape; the last table of every PID has the header of the first one.
func VersionToggleStream(seed int64) *Stream {
	var ps []*ref.Pkt
	c0, cs, ce := uint8(0), uint8(3), uint8(6)
	cp := map[uint16]*uint8{0x1000: new(uint8), 0x1001: new(uint8), 0x1002: new(uint8)}
	for k := 0; k < 3; k++ {
		ver := uint8(k % 2)
		pmtPID := uint16(0x1000 + k)
		pat := modelPAT(1, pmtPID)
		pmt := modelPMT(1, uint16(0x100+k), 1)
		sdt := modelSDT(1)
		sdt.Services[0].ServiceID = uint16(0x20 + k)
		ps = append(ps, Packetize(PSIUnit(0, 0, [][]byte{SecPAT(pat, ref.SecHdr{CNI: true, Version: ver})}, nil), nil, &c0, true)...)
		ps = append(ps, Packetize(PSIUnit(pmtPID, 0, [][]byte{SecPMT(pmt, ref.SecHdr{CNI: true, Version: ver})}, nil), nil, cp[pmtPID], true)...)
		ps = append(ps, Packetize(PSIUnit(0x11, 0, [][]byte{SecSDT(sdt, ref.SecHdr{CNI: true, Version: ver})}, nil), nil, &cs, true)...)
		ps = append(ps, Packetize(PESUnit(0x100, 0xe0, pesPayload(80+k, 100, seed), uint64(k+1), false), nil, &ce, false)...)
	}
	return &Stream{Name: "version-toggle", Pkts: ps, Bytes: EncodePkts(ps)}
}

// NextIndicatorStream: the first PAT and PMT occurrences carry current_next_indicator 0 (tables announced ahead of
// time), later ones 1; the PAT precedes its PMTs throughout, and the PMT PID is the same in both.
func NextIndicatorStream(seed int64) *Stream {
	var ps []*ref.Pkt
	c0, c1, ce := uint8(0), uint8(0), uint8(0)
	pat, pmt := modelPAT(0, 0x10, 1, 0x1000), modelPMT(1, 0x100, 2)
	for k := 0; k < 4; k++ {
		cni := k >= 2
		ps = append(ps, Packetize(PSIUnit(0, 0, [][]byte{SecPAT(pat, ref.SecHdr{CNI: cni, Version: 5})}, nil), nil, &c0, true)...)
		ps = append(ps, Packetize(PSIUnit(0x1000, 0, [][]byte{SecPMT(pmt, ref.SecHdr{CNI: cni, Version: 5})}, nil), nil, &c1, true)...)
		ps = append(ps, Packetize(PESUnit(0x100, 0xe0, pesPayload(90+k, 60, seed), uint64(k+1), false), nil, &ce, false)...)
	}
	return &Stream{Name: "next-then-current-tables", Pkts: ps, Bytes: EncodePkts(ps)}
}

// c20Answers drains a Demuxer through one API and returns every answer in order: the canonical dump of a
// datum / packet, "error: ..." for a non-EOF error (the caller carries on), up to ErrNoMorePackets.
func c20Answers(d *astits.Demuxer, api string, inputLen int) (out []string, ended bool) {
	defer func() {
		if r := recover(); r != nil {
			out = append(out, fmt.Sprint("panic: ", r))
		}
	}()
	for i := 0; i < inputLen/8+64; i++ {
		var x any
		var err error
		if api == "data" {
			x, err = d.NextData()
		} else {
			x, err = d.NextPacket()
		}
		switch {
		case errors.Is(err, astits.ErrNoMorePackets):
			return out, true
		case err != nil:
			out = append(out, "error: "+err.Error())
		default:
			out = append(out, mc.Canon(x))
		}
	}
	return out, false
}

// c20Demuxer builds the Demuxer of a C20 configuration (shared with the replayer). Options: a skipper
// that removes every packet with an odd continuity counter on the elementary PIDs and the null PID, or
// a parser that replaces the data of the SDT PID.
func c20Demuxer(b []byte, auto bool, size int, optName string) *astits.Demuxer {
	var opts []func(*astits.Demuxer)
	if !auto {
		if size == 0 {
			size = 188
		}
		opts = append(opts, astits.DemuxerOptPacketSize(size))
	}
	switch optName {
	case "skipper":
		opts = append(opts, astits.DemuxerOptPacketSkipper(func(p *astits.Packet) bool {
			return p.Header.PID == 0x1fff || (p.Header.PID >= 0x100 && p.Header.PID < 0x1000 && p.Header.ContinuityCounter%2 == 1)
		}))
	case "parser":
		opts = append(opts, astits.DemuxerOptPacketsParser(func(ps []*astits.Packet) ([]*astits.DemuxerData, bool, error) {
			if ps[0].Header.PID == 0x11 {
				return []*astits.DemuxerData{{PID: 0x11, PES: &astits.PESData{Data: []byte{byte(len(ps))}}}}, true, nil
			}
			return nil, false, nil
		}))
	}
	return astits.NewDemuxer(context.Background(), bytes.NewReader(b), opts...)
}

// c20Undetectable: inputs whose packet size cannot be auto-detected (a single packet, a truncated
// packet, 204-byte packets, an empty input). A fresh Demuxer reports the detection error on its
// first call and ErrNoMorePackets afterwards; a rewound one must do exactly the same.
func c20Undetectable(c *mc.Ctx) {
	base := StandardStreams(c.Seed)[0].Bytes
	inputs := map[string][]byte{"single-packet": base[:188], "truncated-packet": base[:100], "one-packet-and-3-bytes": base[:191], "204-byte-packets": enlarge(base[:3*188], 16), "empty": {}}
	observe := func(d *astits.Demuxer, api byte, n int) (out []string) {
		for i := 0; i < n; i++ {
			var x any
			var err error
			if api == 'P' {
				x, err = d.NextPacket()
			} else {
				x, err = d.NextData()
			}
			switch {
			case errors.Is(err, astits.ErrNoMorePackets):
				out = append(out, "end")
			case err != nil:
				out = append(out, "error: "+err.Error())
			default:
				out = append(out, mc.Canon(x))
			}
		}
		return
	}
	var n int64
	for name, in := range inputs {
		for _, api := range []byte{'P', 'D'} {
			fresh := observe(astits.NewDemuxer(context.Background(), bytes.NewReader(in)), api, 4)
			r := mc.Radix{3, 3, 3, 3} // up to 4 operations before the final Rewind, over {none, NextPacket, NextData} ...
			for i := int64(0); i < r.Size(); i++ {
				dg := r.Digits(i, nil)
				for _, mid := range []bool{false, true} { // ... with or without an extra Rewind in the middle
					d := astits.NewDemuxer(context.Background(), bytes.NewReader(in))
					ops := ""
					for k, x := range dg {
						if mid && k == 2 {
							d.Rewind()
							ops += "R"
						}
						switch x {
						case 1:
							d.NextPacket()
							ops += "P"
						case 2:
							d.NextData()
							ops += "D"
						}
					}
					nn, err := d.Rewind()
					got := observe(d, api, 4)
					n++
					if nn != 0 || err != nil || !equalStrs(got, fresh) {
						c.Rep.Report("rewind-residue:failed-detection", map[string]any{"kind": "rewind", "stream": name, "auto": true, "ops": ops, "then": "Rewind + 4 calls of " + string(api), "bytes": mc.Hex(in),
							"message": fmt.Sprintf("after %q + Rewind (returned %d, %v) the demuxer answers %v, a fresh one %v", ops, nn, err, got, fresh)})
					}
					if ops != "" && ops != "R" {
						c.Ev.Class("rewind-after-failed-detection", 1)
					}
				}
			}
		}
	}
	c.Ev.AddScenario(mc.Scenario{Name: "rewind:undetectable-inputs", SpaceSize: n, Executed: n, Exhaustive: true,
		Bound: "5 inputs whose packet size cannot be detected x all sequences of <= 4 NextPacket/NextData calls (optionally a Rewind in the middle) x final Rewind x 4 observed calls through each API, compared with a fresh Demuxer including the errors"})
	c.Ev.DistinctAdd(n)
}
