package checks

import (
	"encoding/json"
	"fmt"
	"os"
	"path/filepath"
	"strconv"
	"strings"
	"time"

	"verif/mc"
)

func init() { register("C16", checkC16) }

// checkC16 collects the outcome of the two passes that c16.sh ran just before (scheduler
// exploration under the pool shim; free-running race pass) and writes verdict and evidence.
func checkC16(c *mc.Ctx) {
	c.Ev.Level = "model_checking"
	c.Ev.Rule = "controlled cooperative scheduler over independent Demuxer/Muxer instances sharing the package-level pool: scheduling points at thread start/end and at every pool Get/Put (the library's only synchronisation operations), plus a data choice at Get (which pooled item is handed out); depth-first exploration of all choice sequences within a preemption bound and a pool-item deviation bound, every execution run to completion on the real code with pooled buffers poisoned on Put; every returned value deep-copied at delivery and re-compared after every later call; separate free-running pass of the same bodies in 2/8/64 goroutines under the race detector; all order-preserving merges of the calls of two Muxers / two Demuxers driven from one goroutine, compared with each instance run alone; distinct_nontrivial = distinct schedules executed"
	c.Ev.Assumptions = append(c.Ev.Assumptions, "no shared mutable state other than the pool (premise of the partial-order reduction; checked by the race pass)",
		"the sync.Pool shim may hand out any pooled item or a fresh one (a superset of what sync.Pool does)")
	if t0, err := strconv.ParseInt(os.Getenv("VERIF_C16_T0"), 10, 64); err == nil && t0 > 0 {
		c.Start = time.Unix(t0, 0) // wall time includes the two passes c16.sh ran before this collector
	}
	dir := filepath.Join(mc.Root, "bin", "c16")
	var sched struct {
		Violations []map[string]any `json:"violations"`
		Scenarios  []mc.Scenario    `json:"scenarios"`
		Executions int64            `json:"executions"`
		Points     int64            `json:"points"`
		PoolOps    int              `json:"pool_ops_per_execution"`
		Outcomes   int              `json:"distinct_outcomes"`
		ShimActive bool             `json:"shim_active"`
		Samples    []any            `json:"samples"`
	}
	b, err := os.ReadFile(filepath.Join(dir, "sched.json"))
	if err != nil || json.Unmarshal(b, &sched) != nil {
		c.Rep.Report("scheduler-pass-did-not-complete", map[string]any{"kind": "c16", "message": fmt.Sprint("no result from the scheduler exploration: ", err)})
	}
	for _, v := range sched.Violations {
		sig, _ := v["signature"].(string)
		v["kind"] = "c16-schedule"
		c.Rep.Report(sig, v)
	}
	for _, s := range sched.Scenarios {
		c.Ev.AddScenario(s)
	}
	for _, s := range sched.Samples {
		c.Ev.Sample(s)
	}
	c.Ev.DistinctAdd(int64(sched.Outcomes))
	c.Ev.Extra["pool_shim_active"] = sched.ShimActive
	c.Ev.Extra["pool_operations_per_execution_max"] = sched.PoolOps
	if sched.ShimActive {
		c.Ev.Class("pool-shim-active", 1)
	}
	if sched.PoolOps >= 8 {
		c.Ev.Class("pool-operations-interleaved", 1)
	}
	// race pass
	var race struct {
		Goroutines []int    `json:"goroutines"`
		Runs       int      `json:"runs"`
		Mismatches []string `json:"mismatches"`
	}
	exit, _ := os.ReadFile(filepath.Join(dir, "race.exit"))
	rb, rerr := os.ReadFile(filepath.Join(dir, "race.json"))
	code := strings.TrimSpace(string(exit))
	if code == "66" {
		logs, _ := filepath.Glob(filepath.Join(dir, "race.log*"))
		txt := ""
		if len(logs) > 0 {
			x, _ := os.ReadFile(logs[0])
			txt = string(x)
			if len(txt) > 3000 {
				txt = txt[:3000]
			}
		}
		c.Rep.Report("data-race", map[string]any{"kind": "c16-race", "message": "the race detector reported a data race between independent instances", "report": txt})
	} else if code != "0" || rerr != nil || json.Unmarshal(rb, &race) != nil {
		c.Rep.Report("race-pass-did-not-complete", map[string]any{"kind": "c16-race", "message": "free-running pass exited with " + code})
	}
	for _, m := range race.Mismatches {
		c.Rep.Report("concurrent-results-differ-from-solo", map[string]any{"kind": "c16-race", "message": m})
	}
	c.Ev.AddScenario(mc.Scenario{Name: "free-running race pass", Executed: int64(race.Runs), Exhaustive: false,
		Bound: fmt.Sprintf("bodies run free in %v goroutines x 3 repetitions under -race (samples schedules; complement to the cooperative scheduler, not the deciding step)", race.Goroutines)})
	if race.Runs > 0 {
		c.Ev.Class("race-pass-ran", 1)
	}
	c16CallMerges(c)
	c16CallerPayload(c)
	c16RewindRetention(c)
	c.Ev.Require("race-pass-ran", "pool-operations-interleaved", "muxer-call-merges", "demuxer-call-merges", "results-kept-across-rewind")
}
