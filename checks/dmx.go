package checks

import (
	"bytes"
	"context"
	"errors"
	"fmt"
	"io"

	astits "github.com/asticode/go-astits"
	"verif/mc"
)

// DmxOut is everything a caller observes when it drains a Demuxer with NextData.
type DmxOut struct {
	Data   []*astits.DemuxerData
	Errs   []error // non-EOF errors returned on the way (the caller continued)
	Calls  int
	EOF    bool // ErrNoMorePackets was reached
	Sticky bool // further calls kept returning ErrNoMorePackets
	Panic  any
}

// DrainData calls NextData until ErrNoMorePackets (continuing after other errors), with a
// call cap proportional to the input so that a non-terminating demuxer is observed, not
// waited for.
func DrainData(d *astits.Demuxer, inputLen int) (o *DmxOut) {
	o = &DmxOut{}
	defer mc.Guard(func() any { return fmt.Sprintf("NextData loop over an input of %d bytes", inputLen) })()
	defer func() {
		if r := recover(); r != nil {
			o.Panic = r
		}
	}()
	limit := inputLen/8 + 64
	for o.Calls < limit {
		o.Calls++
		x, err := d.NextData()
		if err == nil {
			o.Data = append(o.Data, x)
			continue
		}
		if errors.Is(err, astits.ErrNoMorePackets) {
			o.EOF = true
			break
		}
		o.Errs = append(o.Errs, err)
	}
	if o.EOF {
		o.Sticky = true
		for k := 0; k < 3; k++ {
			if _, err := d.NextData(); !errors.Is(err, astits.ErrNoMorePackets) {
				o.Sticky = false
			}
		}
	}
	return o
}

// DemuxBytes demuxes a byte slice with an explicit 188-byte packet size on a bytes.Reader.
func DemuxBytes(b []byte, opts ...func(*astits.Demuxer)) *DmxOut {
	opts = append([]func(*astits.Demuxer){astits.DemuxerOptPacketSize(188)}, opts...)
	d := astits.NewDemuxer(context.Background(), bytes.NewReader(b), opts...)
	return DrainData(d, len(b))
}

// PktOut is what a caller observes draining NextPacket.
type PktOut struct {
	Pkts  []*astits.Packet
	Errs  []error
	Calls int
	EOF   bool
	Panic any
}

func DrainPackets(d *astits.Demuxer, inputLen int) (o *PktOut) {
	o = &PktOut{}
	defer mc.Guard(func() any { return fmt.Sprintf("NextPacket loop over an input of %d bytes", inputLen) })()
	defer func() {
		if r := recover(); r != nil {
			o.Panic = r
		}
	}()
	limit := inputLen/8 + 64
	for o.Calls < limit {
		o.Calls++
		p, err := d.NextPacket()
		if err == nil {
			o.Pkts = append(o.Pkts, p)
			continue
		}
		if errors.Is(err, astits.ErrNoMorePackets) {
			o.EOF = true
			break
		}
		o.Errs = append(o.Errs, err)
	}
	return o
}

// byPID splits delivered data per PID, preserving order.
func byPID(ds []*astits.DemuxerData) map[uint16][]*astits.DemuxerData {
	m := map[uint16][]*astits.DemuxerData{}
	for _, d := range ds {
		m[d.PID] = append(m[d.PID], d)
	}
	return m
}

// dataKind names the kind of a delivered datum.
func dataKind(d *astits.DemuxerData) string {
	switch {
	case d.PES != nil:
		return "PES"
	case d.PAT != nil:
		return "PAT"
	case d.PMT != nil:
		return "PMT"
	case d.SDT != nil:
		return "SDT"
	case d.NIT != nil:
		return "NIT"
	case d.EIT != nil:
		return "EIT"
	case d.TOT != nil:
		return "TOT"
	}
	return "?"
}

// chunkReader returns at most Chunk bytes per Read (never seekable).
type chunkReader struct {
	b     []byte
	off   int
	Chunk int
	Reads int
}

func (r *chunkReader) Read(p []byte) (int, error) {
	r.Reads++
	if r.off >= len(r.b) {
		return 0, io.EOF
	}
	n := len(p)
	if r.Chunk > 0 && n > r.Chunk {
		n = r.Chunk
	}
	if n > len(r.b)-r.off {
		n = len(r.b) - r.off
	}
	copy(p, r.b[r.off:r.off+n])
	r.off += n
	return n, nil
}

func errStrings(es []error) []string {
	var s []string
	for _, e := range es {
		s = append(s, fmt.Sprint(e))
	}
	return s
}
