package checks

import (
	"fmt"

	astits "github.com/asticode/go-astits"
	"verif/mc"
	"verif/ref"
)

// packContinuous packs sections the way ISO 13818-1 2.4.4 lets a multiplexer do it: back to back,
// a section starting right after the previous one in the same packet when there is room. A packet
// in which a section starts carries payload_unit_start_indicator and a pointer_field giving the
// offset of the first section start; the bytes in front of it are the END of the previous section.
// straddles[i] tells that section i has bytes in a PUSI packet other than the one it starts in.
//
// short (optional) gives, per packet index, a number of payload bytes the packet leaves unused: an adaptation
// field takes their place (1 = the one-byte field, 2 = flags only, 3 and more = stuffing bytes) - stuffing
// may stand in any packet, also between the packets of a section.
func packContinuous(pid uint16, secs [][]byte, cc *uint8, short ...func(k int) int) (pkts []*ref.Pkt, straddles, cutUnit []bool) {
	var data []byte
	var starts, ends []int
	for _, s := range secs {
		starts = append(starts, len(data))
		data = append(data, s...)
		ends = append(ends, len(data))
	}
	type span struct {
		from, to int
		pusi     bool
	}
	var spans []span
	pos := 0
	for pos < len(data) {
		room := 184
		if len(short) > 0 {
			if sh := short[0](len(pkts)); sh > 0 && sh < 180 {
				room -= sh
			}
		}
		first := -1
		for _, st := range starts {
			if st >= pos && st < pos+room-1 {
				first = st
				break
			}
		}
		p := &ref.Pkt{PID: pid, HasPL: true, CC: *cc}
		*cc = (*cc + 1) & 0xf
		n := room
		if first >= 0 {
			p.PUSI = true
			p.Payload = append(p.Payload, byte(first-pos))
			n = room - 1
		} else {
			// a section starting exactly at the last byte must wait for the next packet
			for _, st := range starts {
				if st == pos+room-1 {
					n = room - 1
				}
			}
		}
		if pos+n > len(data) {
			n = len(data) - pos
		}
		p.Payload = append(p.Payload, data[pos:pos+n]...)
		spans = append(spans, span{pos, pos + n, p.PUSI})
		pos += n
		if len(p.Payload) < 184 {
			if pos >= len(data) {
				for len(p.Payload) < 184 {
					p.Payload = append(p.Payload, 0xff)
				}
			} else {
				p.HasAF, p.AF = true, stuffAF(nil, 184-len(p.Payload))
			}
		}
		pkts = append(pkts, p)
	}
	for i := range secs {
		st := false
		startPkt := -1
		for k, sp := range spans {
			if starts[i] >= sp.from && starts[i] < sp.to {
				startPkt = k
			}
			if k > startPkt && startPkt >= 0 && sp.pusi && sp.from < ends[i] {
				st = true
			}
		}
		straddles = append(straddles, st)
	}
	// the library's unit of section i: from the PUSI packet it starts in to the next PUSI packet; it is
	// cut when one of the sections starting in it straddles
	unitOf := make([]int, len(secs))
	for i := range secs {
		for k, sp := range spans {
			if sp.pusi && sp.from <= starts[i] {
				unitOf[i] = k
			}
		}
	}
	for i := range secs {
		cut := false
		for j := range secs {
			if unitOf[j] == unitOf[i] && straddles[j] {
				cut = true
			}
		}
		cutUnit = append(cutUnit, cut)
	}
	return
}

// c02Continuous: sections packed back to back. The library's notion of a unit ends at the next
// payload_unit_start packet, so a section whose last bytes share a packet with the start of the
// next section (they sit in front of the pointer_field target) is cut short and lost: recorded
// as a known finding under a signature computed from that locus; every other section must be
// delivered exactly once and in order.
func c02Continuous(c *mc.Ctx) {
	sizes := []int{1, 35, 70, 120} // PAT programs: sections of 16, 152, 292, 492 bytes
	type kind struct {
		name string
		pid  uint16
		mk   func(n, idx int) ([]byte, ExpData)
	}
	kinds := []kind{
		{"pat", 0, func(n, idx int) ([]byte, ExpData) {
			var args []uint16
			for i := 0; i < n; i++ {
				args = append(args, uint16(1+i+idx*200), uint16(0x1000+i))
			}
			d := modelPAT(args...)
			return SecPAT(d, ref.SecHdr{CNI: true, Version: uint8(idx)}), ExpData{Kind: "PAT", PID: 0, Table: d}
		}},
		{"sdt", 0x11, func(n, idx int) ([]byte, ExpData) {
			d := modelSDT(n/8 + 1)
			d.TransportStreamID = uint16(0x100 + idx)
			return SecSDT(d, ref.SecHdr{CNI: true, Version: uint8(idx)}), ExpData{Kind: "SDT", PID: 0x11, Table: d}
		}},
		{"eit", 0x12, func(n, idx int) ([]byte, ExpData) {
			d := modelEIT(n/12 + 1)
			d.ServiceID = uint16(0x500 + idx)
			return SecEIT(d, ref.SecHdr{CNI: true, Version: uint8(idx)}), ExpData{Kind: "EIT", PID: 0x12, Table: d}
		}},
	}
	var cases int64
	for _, k := range kinds {
		r := mc.Radix{len(sizes), len(sizes), len(sizes), len(sizes)}
		for i := int64(0); i < r.Size(); i++ {
			dg := r.Digits(i, nil)
			var secs [][]byte
			var exps []ExpData
			for idx, d := range dg {
				s, e := k.mk(sizes[d], idx)
				secs = append(secs, s)
				exps = append(exps, e)
			}
			// packetisations: every packet full, and packet j (of the first six) leaving 1, 2, 3 or 50 payload bytes to an
			// adaptation field
			for variant := 0; variant <= 24; variant++ {
				cc := uint8(i)
				var short []func(int) int
				if variant > 0 {
					vj, vs := (variant-1)/4, []int{1, 2, 3, 50}[(variant-1)%4]
					short = append(short, func(k int) int {
						if k == vj {
							return vs
						}
						return 0
					})
				}
				pkts, straddles, cutUnit := packContinuous(k.pid, secs, &cc, short...)
				if variant > 0 && (variant-1)/4 >= len(pkts)-1 {
					continue // no such packet in front of the last one
				}
				if variant > 0 {
					c.Ev.Class("continuous-sections-with-stuffed-packet", 1)
				}
				b := EncodePkts(pkts)
				out := DemuxBytes(b)
				cases++
				det := func(msg string) map[string]any {
					return map[string]any{"kind": "stream", "scenario": "continuous-sections:" + k.name, "section_sizes": fmt.Sprint(dg), "variant": variant, "bytes": mc.Hex(b), "message": msg}
				}
				if out.Panic != nil || !out.EOF {
					c.Rep.Report("continuous-sections-run-failed", det(fmt.Sprintf("panic=%v eof=%v", out.Panic, out.EOF)))
					continue
				}
				var got []*astits.DemuxerData
				for _, d := range out.Data {
					if d.PID == k.pid {
						got = append(got, d)
					}
				}
				j := 0
				anyStraddle := false
				for idx, e := range exps {
					if j < len(got) {
						if ok, _ := e.Matches(got[j]); ok {
							j++
							continue
						}
					}
					if straddles[idx] {
						anyStraddle = true
						c.Rep.Report("section-ending-in-pointer-area-lost", det(fmt.Sprintf("section %d (%d bytes) ends in front of the pointer_field target of a later packet and is not delivered", idx, len(secs[idx]))))
					} else if cutUnit[idx] {
						anyStraddle = true
						c.Rep.Report("section-sharing-a-unit-with-a-cut-section-lost", det(fmt.Sprintf("section %d (%d bytes) is complete, but a later section that starts in the same payload_unit_start span ends in front of the next pointer_field target: the whole span is dropped", idx, len(secs[idx]))))
					} else {
						c.Rep.Report("section-lost:continuous-packing:"+k.name, det(fmt.Sprintf("section %d (%d bytes, wholly inside the packets from its own start to the next unit start) is not delivered", idx, len(secs[idx]))))
					}
				}
				if j < len(got) {
					c.Rep.Report("foreign-data:continuous-packing", det(fmt.Sprintf("%d data delivered that match no section in order", len(got)-j)))
				}
				if len(out.Errs) > 0 && !anyStraddle {
					c.Rep.Report("error-on-wellformed-stream", det(fmt.Sprintf("NextData returned an error: %v", out.Errs[0])))
				}
				straddle := false
				for _, s := range straddles {
					straddle = straddle || s
				}
				if !straddle {
					c.Ev.Class("continuous-sections-without-straddle", 1)
				} else {
					c.Ev.Class("section-straddles-unit-start", 1)
				}
				c.Ev.Distinct(fmt.Sprintf("continuous|%s|%v|%d", k.name, dg, variant))
			}
		}
	}
	c02ContinuousFFTail(c)
	c.Ev.AddScenario(mc.Scenario{Name: "continuous-sections", SpaceSize: cases, Executed: cases, Exhaustive: true,
		Bound: "PAT / SDT / EIT PIDs x every sequence of 4 sections over 4 size classes (16..492 bytes), packed back to back (a section may end in front of the pointer_field target of the packet in which the next one starts) x {every packet full, packet j<6 leaving 1/2/3/50 bytes to an adaptation field}"})
}

// c02ContinuousFFTail: sections packed back to back whose last one or two bytes - CRC_32 bytes that happen to be
// 0xFF - are all of the section that stands in front of the next pointer target. Bytes in front of a pointer
// target belong to the section that is being continued, whatever their value.
func c02ContinuousFFTail(c *mc.Ctx) {
	var cases int64
	run := func(name string, pid uint16, first []byte, firstExp ExpData, spill int) {
		d2 := modelSDT(1)
		sec2, exp2 := SecSDT(d2, ref.SecHdr{CNI: true, Version: 9}), ExpData{Kind: "SDT", PID: pid, Table: d2}
		if pid == 0 {
			p2 := modelPAT(7, 0x1007)
			sec2, exp2 = SecPAT(p2, ref.SecHdr{CNI: true, Version: 9}), ExpData{Kind: "PAT", PID: 0, Table: p2}
		}
		cc := uint8(5)
		pkts, _, _ := packContinuous(pid, [][]byte{first, sec2}, &cc)
		b := EncodePkts(pkts)
		out := DemuxBytes(b)
		cases++
		var got []*astits.DemuxerData
		for _, d := range out.Data {
			if d.PID == pid {
				got = append(got, d)
			}
		}
		ok := out.Panic == nil && out.EOF && len(out.Errs) == 0 && len(got) == 2
		if ok {
			ok, _ = firstExp.Matches(got[0])
		}
		if ok {
			ok, _ = exp2.Matches(got[1])
		}
		if len(pkts) < 2 || !pkts[1].PUSI || int(pkts[1].Payload[0]) != spill {
			panic(fmt.Sprintf("ff-tail layout broken: %s", name))
		}
		if !ok {
			c.Rep.Report("section-ending-in-pointer-area-lost", map[string]any{"kind": "stream", "scenario": "continuous-sections:ff-tail:" + name, "bytes": mc.Hex(b),
				"message": fmt.Sprintf("a section whose last %d byte(s) - CRC_32 bytes equal to 0xFF - stand in front of the pointer target of the next unit start: %d data delivered on PID %#x, errors %v", spill, len(got), pid, errStrings(out.Errs))})
		}
		c.Ev.Class("section-tail-of-ff-bytes", 1)
		c.Ev.Distinct("continuous-ff-tail|" + name)
	}
	// PAT of 43 programmes: 184 bytes, one byte spills
	for ts := 0; ts < 1<<16; ts++ {
		var args []uint16
		for i := 0; i < 43; i++ {
			args = append(args, uint16(i+1), uint16(0x1000+i))
		}
		d := modelPAT(args...)
		d.TransportStreamID = uint16(ts)
		s := SecPAT(d, ref.SecHdr{CNI: true})
		if len(s) != 184 {
			panic("PAT of 43 programmes is not 184 bytes")
		}
		if s[183] == 0xff {
			run("pat-1", 0, s, ExpData{Kind: "PAT", PID: 0, Table: d}, 1)
			break
		}
	}
	// SDT sized by a private descriptor to 184 and 185 bytes: one and two bytes spill
	for _, spill := range []int{1, 2} {
		found := false
		for ts := 0; ts < 1<<16 && !found; ts++ {
			d := &astits.SDTData{TransportStreamID: uint16(ts), OriginalNetworkID: 0x22}
			svc := &astits.SDTDataService{ServiceID: 0x33, RunningStatus: 4}
			d.Services = []*astits.SDTDataService{svc}
			base := len(SecSDT(d, ref.SecHdr{CNI: true}))
			n := 183 + spill - base - 2
			svc.Descriptors = fixLens([]*astits.Descriptor{{Tag: 0x85, UserDefined: fillBytes(n, 0x41)}})
			s := SecSDT(d, ref.SecHdr{CNI: true})
			if len(s) != 183+spill {
				panic(fmt.Sprintf("SDT sizing broken: %d", len(s)))
			}
			tailFF := true
			for k := 1; k <= spill; k++ {
				tailFF = tailFF && s[len(s)-k] == 0xff
			}
			if tailFF {
				run(fmt.Sprintf("sdt-%d", spill), 0x11, s, ExpData{Kind: "SDT", PID: 0x11, Table: d}, spill)
				found = true
			}
		}
		if !found {
			c.Ev.Class("ff-tail-not-found", 1)
		}
	}
	c.Ev.AddScenario(mc.Scenario{Name: "continuous-sections-ff-tail", SpaceSize: cases, Executed: cases, Exhaustive: true,
		Bound: "a PAT (one spilling byte) and an SDT (one and two spilling bytes) whose CRC_32 ends in 0xFF bytes that are all that spills into the next unit-start packet (transport_stream_id searched for such a CRC)"})
}
