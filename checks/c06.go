package checks

import (
	"bytes"
	"fmt"
	"sort"
	"strings"

	astits "github.com/asticode/go-astits"
	"verif/mc"
	"verif/ref"
)

func init() { register("C06", checkC06) }

// c06Stream is a base stream with the unit index of every packet (per PID).
type c06Stream struct {
	Name   string
	Pkts   []*ref.Pkt
	UnitOf []int // unit index (within its PID) of each packet
	PSI    map[uint16]bool
	Units  map[uint16][][]byte // unit bytes per PID (to map a delivered datum back to its unit)
	// LooseLoss: PIDs whose packets hold parts of several sections (continuous packing): a loss may take any of the
	// sections with it; what is still delivered has to be sections of the loss-free output, in order, nothing else
	LooseLoss map[uint16]bool
}

// c06ContinuousSI: an SDT PID with sections packed back to back. The first section fills its packet exactly; the
// second runs over into the packet in which the third starts, and what it has there is - inside the private bytes
// of its last descriptor - a complete small section with a correct CRC_32, followed by its own CRC_32. Lose the
// packet in between and the bytes in front of the third section's pointer target follow a unit they do not belong to.
func c06ContinuousSI(seed int64) *c06Stream {
	sized := func(ts uint16, total int) []byte {
		d := &astits.SDTData{TransportStreamID: ts, OriginalNetworkID: 0x22}
		svc := &astits.SDTDataService{ServiceID: ts + 1, RunningStatus: 4}
		d.Services = []*astits.SDTDataService{svc}
		base := len(SecSDT(d, ref.SecHdr{CNI: true}))
		rest := total - base
		var ds []*astits.Descriptor
		for rest > 0 { // descriptors of at most 200 body bytes
			n := rest - 2
			if n > 200 {
				n = 200
			}
			if rest-2-n == 1 { // never leave a single byte (a descriptor needs two)
				n--
			}
			ds = append(ds, &astits.Descriptor{Tag: 0x85, UserDefined: bytes.Repeat([]byte{0x41}, n)})
			rest -= 2 + n
		}
		svc.Descriptors = fixLens(ds)
		s := SecSDT(d, ref.SecHdr{CNI: true})
		if len(s) != total {
			panic(fmt.Sprintf("c06ContinuousSI: sizing %d != %d", len(s), total))
		}
		return s
	}
	inner := SecSDT(&astits.SDTData{TransportStreamID: 0x0bad, OriginalNetworkID: 0x8888, Services: []*astits.SDTDataService{{ServiceID: 0x9999, RunningStatus: 4}}}, ref.SecHdr{CNI: true, Version: 30})
	s1 := sized(0x101, 183)
	// s2: 183 bytes up to the inner section, the inner section, the CRC_32
	d2 := &astits.SDTData{TransportStreamID: 0x102, OriginalNetworkID: 0x22}
	svc2 := &astits.SDTDataService{ServiceID: 0x103, RunningStatus: 4}
	d2.Services = []*astits.SDTDataService{svc2}
	hdr := len(SecSDT(d2, ref.SecHdr{CNI: true})) - 4 + 2 // bytes in front of the descriptor body
	svc2.Descriptors = fixLens([]*astits.Descriptor{{Tag: 0x86, UserDefined: append(fillBytes(183-hdr, 0x5a), inner...)}})
	s2 := SecSDT(d2, ref.SecHdr{CNI: true})
	// ... whose first byte is 0xFF (original_network_id searched for it): read as a table_id it ends the parsing of a
	// unit cleanly, so that whatever is in front of it is delivered
	for on := 0; on < 1<<16 && s2[len(s2)-4] != 0xff; on++ {
		d2.OriginalNetworkID = uint16(on)
		s2 = SecSDT(d2, ref.SecHdr{CNI: true})
	}
	if s2[len(s2)-4] != 0xff {
		panic("c06ContinuousSI: no CRC_32 starting with 0xFF found")
	}
	if len(s2) != 183+len(inner)+4 {
		panic(fmt.Sprintf("c06ContinuousSI: s2 is %d bytes", len(s2)))
	}
	s3, s4 := sized(0x104, 120), sized(0x105, 183+150)
	cc := uint8(13)
	si, _, _ := packContinuous(0x11, [][]byte{s1, s2, s3, s4, sized(0x106, 60)}, &cc)
	c2 := uint8(4)
	var pes []*ref.Pkt
	for k := 0; k < 3; k++ {
		pes = append(pes, Packetize(PESUnit(0x100, 0xe0, pesPayload(70+k, 184*2-14-5, seed), uint64(70+k), false), nil, &c2, false)...)
	}
	st := &c06Stream{Name: "continuous-si", PSI: map[uint16]bool{0x11: true}, Units: map[uint16][][]byte{}, LooseLoss: map[uint16]bool{0x11: true}}
	lists := [][]*ref.Pkt{si, pes}
	pos := make([]int, 2)
	for _, k := range roundRobin(lists) {
		st.Pkts = append(st.Pkts, lists[k][pos[k]])
		u := pos[k]
		if k == 1 {
			u = pos[k] / 2
		}
		st.UnitOf = append(st.UnitOf, u)
		pos[k]++
	}
	for k := 0; k < 3; k++ {
		st.Units[0x100] = append(st.Units[0x100], PESUnit(0x100, 0xe0, pesPayload(70+k, 184*2-14-5, seed), uint64(70+k), false).Bytes)
	}
	return st
}

func c06Base(seed int64, kind string) *c06Stream {
	if kind == "continuous-si" {
		return c06ContinuousSI(seed)
	}
	long := kind == "long"
	type pidUnits struct {
		pid   uint16
		units []SUnit
		cc    uint8
	}
	var pids []*pidUnits
	psi := map[uint16]bool{0: true, 0x1000: true, 0x11: true}
	if kind == "lookalike" {
		pids = []*pidUnits{}
		pat := modelPAT(1, 0x1000)
		pids = append(pids, &pidUnits{0, []SUnit{PSIUnit(0, 0, [][]byte{SecPAT(pat, ref.SecHdr{CNI: true})}, nil)}, 9})
		plainPMT := func(v uint8) SUnit {
			return PSIUnit(0x1000, 0, [][]byte{SecPMT(modelPMT(1, 0x100, 2), ref.SecHdr{CNI: true, Version: v})}, nil)
		}
		plainSDT := func(v uint8) SUnit {
			return PSIUnit(0x11, 0, [][]byte{SecSDT(modelSDT(2), ref.SecHdr{CNI: true, Version: v})}, nil)
		}
		pids = append(pids,
			&pidUnits{0x1000, []SUnit{plainPMT(1), lookalikePSI(0x1000, true, 2), plainPMT(3), lookalikePSI(0x1000, false, 4), plainPMT(5)}, 14},
			&pidUnits{0x11, []SUnit{lookalikePSI(0x11, true, 1), plainSDT(2), lookalikePSI(0x11, false, 3), plainSDT(4), plainSDT(5)}, 2},
			&pidUnits{0x100, []SUnit{lookalikePES(0x100, 51, seed), lookalikePES(0x100, 52, seed), PESUnit(0x100, 0xe0, pesPayload(53, 100, seed), 53, false), lookalikePES(0x100, 54, seed)}, 12},
			&pidUnits{0x101, []SUnit{PESUnit(0x101, 0xc0, pesPayload(55, 300, seed), 55, true), PESUnit(0x101, 0xc0, pesPayload(56, 30, seed), 56, true)}, 0},
		)
	} else if kind == "singles" {
		// PIDs whose units are one packet each: 40 PES packets, 36 PATs that all differ (so that the counter of a
		// unit says nothing about which unit it is), a two-packet video PID in between
		var pes, pats []SUnit
		for k := 0; k < 40; k++ {
			pes = append(pes, PESUnit(0x100, 0xc0, pesPayload(400+k, 60+k, seed), uint64(400+k), true))
		}
		for k := 0; k < 36; k++ {
			pat := modelPAT(1, 0x1000)
			pat.TransportStreamID = uint16(0x700 + k)
			pats = append(pats, PSIUnit(0, 0, [][]byte{SecPAT(pat, ref.SecHdr{CNI: true, Version: uint8(k % 32)})}, nil))
		}
		pids = []*pidUnits{
			{0x100, pes, 9},
			{0, pats, 3},
			{0x101, []SUnit{PESUnit(0x101, 0xe0, pesPayload(480, 184*2-14-5, seed), 480, false), PESUnit(0x101, 0xe0, pesPayload(481, 184*2-14-5, seed), 481, false)}, 0},
		}
	} else if kind == "repeated-tables" {
		// the tables of a programme repeated as a multiplexer does: PAT three times, the PMT six times (twice per PAT
		// period), a video PID in between
		var pats, pmts []SUnit
		for v := 0; v < 3; v++ {
			pat := modelPAT(1, 0x1000)
			pat.TransportStreamID = uint16(0x100 + v)
			pats = append(pats, PSIUnit(0, 0, [][]byte{SecPAT(pat, ref.SecHdr{CNI: true, Version: uint8(v)})}, nil))
		}
		for v := 0; v < 6; v++ {
			pmts = append(pmts, PSIUnit(0x1000, 0, [][]byte{SecPMT(modelPMT(1, 0x100, 1+v%3), ref.SecHdr{CNI: true, Version: uint8(v)})}, nil))
		}
		pids = []*pidUnits{
			{0, pats, 4},
			{0x1000, pmts, 9},
			{0x100, []SUnit{PESUnit(0x100, 0xe0, pesPayload(61, 184*2-14-5, seed), 61, false), PESUnit(0x100, 0xe0, pesPayload(62, 100, seed), 62, false), PESUnit(0x100, 0xe0, pesPayload(63, 184*2-14-5, seed), 63, false)}, 1},
		}
	} else if !long {
		patA, patB := modelPAT(1, 0x1000), modelPAT(1, 0x1000)
		patB.TransportStreamID = 0x4321
		pmtA, pmtB := modelPMT(1, 0x100, 2), modelPMT(1, 0x101, 2)
		sdt := modelSDT(12)
		mkPES := func(pid uint16, sid uint8, tag, pkts int) SUnit {
			return PESUnit(pid, sid, pesPayload(tag, 184*pkts-14-5, seed), uint64(tag), sid != 0xe0)
		}
		pids = []*pidUnits{
			{0, []SUnit{PSIUnit(0, 0, [][]byte{SecPAT(patA, ref.SecHdr{CNI: true})}, []ExpData{{Kind: "PAT", Table: patA}}), PSIUnit(0, 0, [][]byte{SecPAT(patB, ref.SecHdr{CNI: true})}, []ExpData{{Kind: "PAT", Table: patB}})}, 0},
			{0x1000, []SUnit{PSIUnit(0x1000, 0, [][]byte{SecPMT(pmtA, ref.SecHdr{CNI: true})}, nil), PSIUnit(0x1000, 0, [][]byte{SecPMT(pmtB, ref.SecHdr{CNI: true})}, nil)}, 15},
			{0x100, []SUnit{mkPES(0x100, 0xe0, 1, 1), mkPES(0x100, 0xe0, 2, 2), mkPES(0x100, 0xe0, 3, 3), mkPES(0x100, 0xe0, 4, 4), mkPES(0x100, 0xe0, 5, 1)}, 13},
			{0x101, []SUnit{mkPES(0x101, 0xc0, 6, 2), mkPES(0x101, 0xc0, 7, 1), mkPES(0x101, 0xc0, 8, 3)}, 7},
			{0x11, []SUnit{PSIUnit(0x11, 0, [][]byte{SecSDT(sdt, ref.SecHdr{CNI: true})}, nil), PSIUnit(0x11, 0, [][]byte{SecSDT(modelSDT(2), ref.SecHdr{CNI: true})}, nil)}, 3},
		}
	} else {
		mk := func(pid uint16, sid uint8, tag, pkts int) SUnit {
			return PESUnit(pid, sid, pesPayload(tag, 184*pkts-14-9, seed), uint64(tag), false)
		}
		withDI := mk(0x100, 0xe0, 3, 3)
		withDI.AF = &ref.AF{Disc: true, PCR: &ref.PCR{Base: 99}}
		pids = []*pidUnits{
			{0x100, []SUnit{mk(0x100, 0xe0, 1, 20), mk(0x100, 0xe0, 2, 18), withDI, mk(0x100, 0xe0, 9, 2)}, 5},
			{0x101, []SUnit{mk(0x101, 0xe1, 4, 2), mk(0x101, 0xe1, 5, 2)}, 0},
		}
	}
	var lists [][]*ref.Pkt
	var unitOf [][]int
	for _, p := range pids {
		var l []*ref.Pkt
		var uo []int
		for ui, u := range p.units {
			ps := Packetize(u, nil, &p.cc, true)
			for range ps {
				uo = append(uo, ui)
			}
			l = append(l, ps...)
		}
		lists = append(lists, l)
		unitOf = append(unitOf, uo)
	}
	order := roundRobin(lists)
	if kind == "repeated-tables" {
		// PAT PMT PMT video video | PAT PMT PMT video | PAT PMT PMT video video
		order = []int{0, 1, 1, 2, 2, 0, 1, 1, 2, 0, 1, 1, 2, 2}
	}
	st := &c06Stream{Name: kind, PSI: psi, Units: map[uint16][][]byte{}}
	for _, p := range pids {
		for _, u := range p.units {
			st.Units[p.pid] = append(st.Units[p.pid], u.Bytes)
		}
	}
	pos := make([]int, len(lists))
	for _, s := range order {
		st.Pkts = append(st.Pkts, lists[s][pos[s]])
		st.UnitOf = append(st.UnitOf, unitOf[s][pos[s]])
		pos[s]++
	}
	return st
}

// lookalikePES is a three-packet PES whose second and third packets begin with bytes that look like
// the start of a PES packet (elementary streams are full of 00 00 01 start codes): once the first
// packet is lost, what is left must not be delivered as a unit of its own.
func lookalikePES(pid uint16, tag int, seed int64) SUnit {
	u := PESUnit(pid, 0xe0, pesPayload(tag, 3*184-14-9, seed), uint64(tag), false)
	for _, off := range []int{184, 368} {
		copy(u.Bytes[off:], []byte{0x00, 0x00, 0x01, 0xe0, 0x00, 0x00, 0x80, 0x00, 0x00})
	}
	return u
}

// lookalikePSI is a two-packet SDT (PID 0x11) or PMT section whose second packet begins, inside the
// private bytes of a user-defined descriptor, with what looks like pointer_field 0 + a complete small
// section of the same kind (with a correct CRC_32, or a wrong one) + stuffing.
func lookalikePSI(pid uint16, validCRC bool, version uint8) SUnit {
	var inner []byte
	dataStart := 0
	if pid == 0x11 {
		inner = SecSDT(&astits.SDTData{TransportStreamID: 0x7777, OriginalNetworkID: 0x8888, Services: []*astits.SDTDataService{{ServiceID: 0x9999, RunningStatus: 4}}}, ref.SecHdr{CNI: true, Version: 30})
		dataStart = 3 + 5 + 3 + 5 + 2
	} else {
		inner = SecPMT(&astits.PMTData{ProgramNumber: 1, PCRPID: 0x1abc, ElementaryStreams: []*astits.PMTElementaryStream{{ElementaryPID: 0x1abc, StreamType: astits.StreamTypeMPEG2Video}}}, ref.SecHdr{CNI: true, Version: 30})
		dataStart = 3 + 5 + 4 + 2
	}
	if !validCRC {
		inner[len(inner)-1] ^= 0x55
	}
	ud := bytes.Repeat([]byte{0x5a}, 183-dataStart)
	ud = append(ud, 0x00)
	ud = append(ud, inner...)
	ud = append(ud, 0xff, 0xff, 0xff)
	if len(ud) > 255 {
		panic("lookalikePSI: descriptor too long")
	}
	look := fixLens([]*astits.Descriptor{{Tag: 0x80, UserDefined: ud}})
	var sec []byte
	if pid == 0x11 {
		d := modelSDT(1)
		d.Services[0].Descriptors = look
		sec = SecSDT(d, ref.SecHdr{CNI: true, Version: version})
	} else {
		d := modelPMT(1, 0x100, 2)
		d.ProgramDescriptors = look
		sec = SecPMT(d, ref.SecHdr{CNI: true, Version: version})
	}
	if !bytes.Equal(sec[183:183+len(inner)+1], append([]byte{0}, inner...)) {
		panic("lookalikePSI: the look-alike is not at the start of the second packet")
	}
	return PSIUnit(pid, 0, [][]byte{sec}, nil)
}

// fault: kind 'd' duplicate packet i (copy inserted right after it), 'D' duplicate packet i with
// the copy inserted after the following packet when that one belongs to another PID (the
// duplicate is still consecutive WITHIN its PID, as ISO 13818-1 2.4.3.3 means it), 'x' delete
// packet i.
type fault struct {
	Kind byte
	At   int
}

func (f fault) String() string { return fmt.Sprintf("%c%d", f.Kind, f.At) }

func applyFaults(st *c06Stream, fs []fault) []*ref.Pkt {
	del := map[int]bool{}
	dup := map[int]int{}
	late := map[int][]*ref.Pkt{} // copies to insert after packet index
	for _, f := range fs {
		switch f.Kind {
		case 'x':
			del[f.At] = true
		case 'D':
			if f.At+1 < len(st.Pkts) && st.Pkts[f.At+1].PID != st.Pkts[f.At].PID {
				late[f.At+1] = append(late[f.At+1], st.Pkts[f.At])
			} else {
				dup[f.At]++
			}
		default:
			dup[f.At]++
		}
	}
	var out []*ref.Pkt
	for i, p := range st.Pkts {
		if !del[i] {
			out = append(out, p)
			for k := 0; k < dup[i]; k++ {
				out = append(out, p)
			}
		}
		out = append(out, late[i]...)
	}
	return out
}

func canonData(ds []*astits.DemuxerData) map[uint16][]string {
	m := map[uint16][]string{}
	for _, d := range ds {
		m[d.PID] = append(m[d.PID], mc.Canon(d))
	}
	return m
}

func collapse(s []string) []string {
	var o []string
	for i, x := range s {
		if i > 0 && x == s[i-1] {
			continue
		}
		o = append(o, x)
	}
	return o
}

// checkFaulted evaluates the relation of the statement between clean and faulted output.
func checkFaulted(st *c06Stream, clean map[uint16][]string, fs []fault) (sig, msg string) {
	out := DemuxBytes(EncodePkts(applyFaults(st, fs)))
	if out.Panic != nil {
		return "panic", fmt.Sprint(out.Panic)
	}
	if !out.EOF {
		return "no-eof", "ErrNoMorePackets not reached"
	}
	got := canonData(out.Data)
	// per PID facts about the faults (driver side)
	type pf struct {
		dups, dels   int
		lostUnits    map[int]bool
		precondition bool
	}
	facts := map[uint16]*pf{}
	get := func(pid uint16) *pf {
		if facts[pid] == nil {
			facts[pid] = &pf{lostUnits: map[int]bool{}, precondition: true}
		}
		return facts[pid]
	}
	del := map[int]bool{}
	for _, f := range fs {
		if f.Kind == 'x' {
			del[f.At] = true
		}
	}
	for _, f := range fs {
		pid := st.Pkts[f.At].PID
		x := get(pid)
		if f.Kind == 'd' || f.Kind == 'D' {
			if !del[f.At] {
				x.dups++
			}
			continue
		}
		x.dels++
		x.lostUnits[st.UnitOf[f.At]] = true
		// the unit being assembled when the gap is seen: that of the previous surviving packet
		for j := f.At - 1; j >= 0; j-- {
			if st.Pkts[j].PID == pid && !del[j] {
				x.lostUnits[st.UnitOf[j]] = true
				break
			}
		}
		// precondition: a later surviving payload packet of the PID exists, fewer than 16 lost in a row
		later := false
		for j := f.At + 1; j < len(st.Pkts); j++ {
			if st.Pkts[j].PID == pid && !del[j] {
				later = true
				break
			}
		}
		if !later {
			x.precondition = false
		}
	}
	for pid, x := range facts {
		run := 0
		for j, p := range st.Pkts {
			if p.PID != pid {
				continue
			}
			if del[j] {
				run++
				if run >= 16 {
					x.precondition = false
				}
			} else {
				run = 0
			}
		}
	}
	pids := map[uint16]bool{}
	for p := range clean {
		pids[p] = true
	}
	for p := range got {
		pids[p] = true
	}
	var ps []int
	for p := range pids {
		ps = append(ps, int(p))
	}
	sort.Ints(ps)
	for _, pi := range ps {
		pid := uint16(pi)
		c, g := clean[pid], got[pid]
		x := facts[pid]
		if pid == 0x1000 && facts[0] != nil && facts[0].dels > 0 {
			// a PMT PID depends on the PAT having been delivered (the dependence C07 states): the PMT units in front of
			// the first PAT that lost nothing may be missing. Those that start behind it are units of a PID that lost
			// nothing and borders no gap: they are all delivered, and nothing else is
			if x != nil || len(c) != len(st.Units[pid]) {
				continue
			}
			patEnd := -1 // index of the last packet of the first PAT unit without a lost packet
			lostPAT := map[int]bool{}
			for j, p := range st.Pkts {
				if p.PID == 0 && del[j] {
					lostPAT[st.UnitOf[j]] = true
				}
			}
			for j, p := range st.Pkts {
				if p.PID != 0 || lostPAT[st.UnitOf[j]] || lostPAT[st.UnitOf[j]+1] {
					continue
				}
				last := true
				for k := j + 1; k < len(st.Pkts); k++ {
					if st.Pkts[k].PID == 0 && st.UnitOf[k] == st.UnitOf[j] {
						last = false
						break
					}
				}
				if last {
					patEnd = j
					break
				}
			}
			if patEnd < 0 {
				continue
			}
			firstPkt := map[int]int{}
			for j := len(st.Pkts) - 1; j >= 0; j-- {
				if st.Pkts[j].PID == pid {
					firstPkt[st.UnitOf[j]] = j
				}
			}
			var must []string
			for u := range st.Units[pid] {
				if firstPkt[u] > patEnd {
					must = append(must, c[u])
				}
			}
			if len(g) < len(must) || !equalStrs(g[len(g)-len(must):], must) {
				return "pmt-behind-surviving-pat-lost", fmt.Sprintf("PAT packets were lost, PID %#x lost nothing: the %d PMT units that start behind the first intact PAT must all be delivered (last %d of %d delivered data differ from them)", pid, len(must), len(must), len(g))
			}
			continue
		}
		if x == nil {
			if !equalStrs(c, g) {
				return "other-pid-affected", fmt.Sprintf("PID %#x carries no fault but its output changed (%d -> %d data)", pid, len(c), len(g))
			}
			continue
		}
		if x.dels > 0 && !x.precondition {
			continue // the statement's precondition does not hold for this PID
		}
		gg := g
		if x.dups > 0 && st.PSI[pid] {
			gg = collapse(g) // PSI: repeats of a table are allowed under duplication
		}
		if x.dels == 0 {
			if !equalStrs(c, gg) {
				kind := "pes"
				if st.PSI[pid] {
					kind = "psi"
				}
				return "duplicate-changes-output:" + kind, fmt.Sprintf("PID %#x: only duplicates were inserted but the output changed: %d data instead of %d", pid, len(g), len(c))
			}
			continue
		}
		// loss: gg must be a subsequence of c, missing units within the allowed set
		k := 0
		missing := []int{}
		for i := range c {
			if k < len(gg) && gg[k] == c[i] {
				k++
			} else {
				missing = append(missing, i)
			}
		}
		if k != len(gg) {
			return "loss-yields-altered-unit", fmt.Sprintf("PID %#x: a delivered unit is not byte-identical to a unit of the loss-free output (splice or foreign data)", pid)
		}
		if st.LooseLoss[pid] {
			continue
		}
		// map clean data index -> unit index: a unit may deliver several data (sections)
		for _, mi := range missing {
			u := unitOfDatum(st, pid, clean, mi)
			if !x.lostUnits[u] {
				return "loss-removes-unaffected-unit", fmt.Sprintf("PID %#x: unit %d was not delivered although it lost no packet and does not precede a gap", pid, u)
			}
		}
	}
	return "", ""
}

// unitOfDatum maps the i-th clean datum of a PID to its unit index (units delivering several
// sections map several data to one unit). Units of the base streams deliver exactly one datum.
func unitOfDatum(st *c06Stream, pid uint16, clean map[uint16][]string, i int) int {
	// a PES datum's canonical dump contains the hex of its payload, which is the tail of its unit's bytes
	for u, b := range st.Units[pid] {
		if len(b) > 40 && strings.Contains(clean[pid][i], fmt.Sprintf("%x", b[len(b)-24:])) {
			return u
		}
	}
	return i
}

func equalStrs(a, b []string) bool {
	if len(a) != len(b) {
		return false
	}
	for i := range a {
		if a[i] != b[i] {
			return false
		}
	}
	return true
}

func checkC06(c *mc.Ctx) {
	c.Ev.Level = "model_checking"
	c.Ev.Rule = "(a) every single duplication, every single deletion, every burst and every pair of faults on well-formed base streams, outputs of the real Demuxer related as the statement demands; (b) all packet sequences up to the length bound over the alphabet {continuity delta dup/+1/+2} x {PUSI} x {payload, AF-only, TEI, discontinuity_indicator} for PID A plus packets of PID B, safety oracle on the delivered units; distinct_nontrivial = distinct fault sets / sequences"
	c.Ev.Assumptions = append(c.Ev.Assumptions, "a duplicate is a byte-identical copy inserted immediately after the original (ISO 13818-1 2.4.3.3)",
		"loss relation evaluated only for PIDs where fewer than 16 packets in a row are lost and a later payload packet of the PID survives")
	for _, kind := range []string{"mixed", "long", "lookalike", "repeated-tables", "continuous-si", "singles"} {
		long := kind == "long"
		st := c06Base(c.Seed, kind)
		cleanOut := DemuxBytes(EncodePkts(st.Pkts))
		clean := canonData(cleanOut.Data)
		n := len(st.Pkts)
		var sets [][]fault
		for i := 0; i < n; i++ {
			sets = append(sets, []fault{{'d', i}}, []fault{{'x', i}}, []fault{{'d', i}, {'d', i}}, []fault{{'D', i}})
			for l := 2; l <= 3 && i+l <= n; l++ {
				var b []fault
				for k := 0; k < l; k++ {
					b = append(b, fault{'x', i + k})
				}
				sets = append(sets, b)
			}
		}
		burstPIDs := []uint16{}
		if long {
			burstPIDs = []uint16{0x100}
		} else if kind == "singles" {
			burstPIDs = []uint16{0x100, 0}
		}
		for _, bp := range burstPIDs { // up to 15 consecutive packets of one PID lost, every start
			var idx []int
			for i, p := range st.Pkts {
				if p.PID == bp {
					idx = append(idx, i)
				}
			}
			for l := 4; l <= 15; l++ { // bursts of every length 4..15 (1..3 are enumerated above), every start
				for s := 0; s+l <= len(idx); s++ {
					var b []fault
					for k := 0; k < l; k++ {
						b = append(b, fault{'x', idx[s+k]})
					}
					sets = append(sets, b)
					if l == 15 {
						c.Ev.Class("burst-of-15", 1)
					}
					if l >= 14 && kind == "singles" {
						c.Ev.Class("burst-of-14-or-15-on-single-packet-units", 1)
					}
				}
			}
		}
		if !(long || kind == "singles") || c.Thorough() {
			for i := 0; i < n; i++ {
				for j := i + 1; j < n; j++ {
					for _, a := range []byte{'d', 'x', 'D'} {
						for _, b := range []byte{'d', 'x', 'D'} {
							sets = append(sets, []fault{{a, i}, {b, j}})
						}
					}
				}
			}
		}
		total := int64(len(sets))
		done := mc.ParFor(total, c.OverBudget, func(i int64) {
			fs := sets[i]
			sig, msg := checkFaulted(st, clean, fs)
			if sig != "" {
				c.Rep.Report(sig, map[string]any{"kind": "stream", "base": st.Name, "faults": fmt.Sprint(fs), "bytes": mc.Hex(EncodePkts(applyFaults(st, fs))), "message": msg})
			}
			c.Ev.Distinct(st.Name + fmt.Sprint(fs))
			for _, f := range fs {
				if f.Kind == 'd' || f.Kind == 'D' {
					c.Ev.Class("duplicate-inserted", 1)
				} else {
					c.Ev.Class("packet-deleted", 1)
				}
			}
			if i%3001 == 0 {
				c.Ev.Sample(map[string]any{"base": st.Name, "faults": fmt.Sprint(fs)})
			}
		})
		c.Ev.AddScenario(mc.Scenario{Name: "faulted-" + st.Name, SpaceSize: total, Executed: done, Exhaustive: done == total,
			Bound: fmt.Sprintf("%d packets: every single duplicate, double duplicate, deletion, burst of 2..3 (and every burst of 4..15 packets of one PID), every pair of faults", n)})
	}
	c06Sequences(c)
	c.Ev.Require("duplicate-inserted", "packet-deleted", "burst-of-15", "burst-of-14-or-15-on-single-packet-units", "seq-unit-delivered", "seq-duplicate-skipped", "seq-gap")
}

// ---------------------------------------------------------------------------------------
// (b) bounded-exhaustive packet sequences with a safety oracle

const seqAlpha = 26 // 24 PID-A symbols + 2 PID-B symbols

type seqPkt struct {
	pkt     *ref.Pkt
	a       bool // PID A
	usable  bool // payload-carrying, no TEI
	dupPrev bool // byte-identical to the previous PID-A payload-carrying packet
	tag     byte
	dataLen int // bytes this packet contributes to the PES data
}

func buildSeq(dg []int) []seqPkt {
	var out []seqPkt
	lastCC := uint8(5)
	var lastA *seqPkt
	ccB := uint8(0)
	for i, s := range dg {
		tag := byte(0x10 + i)
		if s >= 24 {
			p := &ref.Pkt{PID: 0x200, PUSI: s == 24, HasPL: true, CC: ccB & 0xf}
			ccB++
			pl := bytes.Repeat([]byte{0xee}, 184)
			if p.PUSI {
				copy(pl, []byte{0, 0, 1, 0xc0, 0, 178, 0x80, 0, 0})
			}
			p.Payload = pl
			out = append(out, seqPkt{pkt: p})
			continue
		}
		delta, pusi, kind := s%3, s/3%2 == 1, s/6
		sp := seqPkt{a: true, tag: tag}
		if delta == 0 && lastA != nil { // exact copy of the previous payload-carrying packet of PID A
			cp := *lastA.pkt
			sp.pkt = &cp
			sp.usable = lastA.usable
			sp.dupPrev = true
			sp.tag = lastA.tag
			sp.dataLen = lastA.dataLen
			if !lastA.usable {
				// the first copy arrived with transport_error_indicator set, the second one intact
				cp.TEI = false
				sp.usable, sp.dupPrev = true, false
				out = append(out, sp)
				lastA = &out[len(out)-1]
				continue
			}
			out = append(out, sp)
			continue
		}
		if delta == 0 {
			delta = 1
		}
		p := &ref.Pkt{PID: 0x100, PUSI: pusi, HasPL: true}
		room := 184
		switch kind {
		case 1: // adaptation field only
			// (the symbol's unit-start bit has no meaning for a packet without payload: it selects the variant that carries
			// discontinuity_indicator - a time-base discontinuity announced on a packet that is in no unit)
			p.HasPL, p.HasAF, p.AF = false, true, &ref.AF{Stuffing: 182, Disc: pusi}
			p.PUSI = false
			p.CC = lastCC
			sp.pkt = p
			out = append(out, sp)
			continue
		case 2: // transport error
			p.TEI = true
		case 3: // discontinuity indicator
			p.HasAF, p.AF = true, &ref.AF{Disc: true}
			room -= 2
		}
		p.CC = (lastCC + uint8(delta)) & 0xf
		lastCC = p.CC
		pl := bytes.Repeat([]byte{tag}, room)
		sp.dataLen = room
		if pusi {
			copy(pl, []byte{0, 0, 1, 0xe0, 0, 0, 0x80, 0, 0})
			sp.dataLen = room - 9
		}
		p.Payload = pl
		sp.pkt = p
		sp.usable = kind != 2
		out = append(out, sp)
		lastA = &out[len(out)-1]
	}
	return out
}

// checkSeq runs the real demuxer on a sequence and applies the safety oracle.
func checkSeq(seq []seqPkt) (sig, msg string, delivered int, faultFree bool) {
	var ps []*ref.Pkt
	for _, s := range seq {
		ps = append(ps, s.pkt)
	}
	out := DemuxBytes(EncodePkts(ps))
	if out.Panic != nil {
		return "panic", fmt.Sprint(out.Panic), 0, false
	}
	if !out.EOF {
		return "no-eof", "ErrNoMorePackets not reached", 0, false
	}
	// index of PID-A packets by tag (originals only)
	byTag := map[byte]int{}
	for i, s := range seq {
		if s.a && !s.dupPrev && s.pkt.HasPL {
			byTag[s.tag] = i
		}
	}
	used := map[byte]bool{}
	for _, d := range out.Data {
		if d.PID != 0x100 {
			continue
		}
		if d.PES == nil {
			return "non-pes-delivered", "PID A delivered a non-PES datum", 0, false
		}
		delivered++
		// decode the tag runs
		data := d.PES.Data
		var tags []byte
		for len(data) > 0 {
			t := data[0]
			i, ok := byTag[t]
			if !ok {
				return "foreign-data", fmt.Sprintf("delivered unit contains byte %#x that belongs to no packet", t), delivered, false
			}
			n := seq[i].dataLen
			if n > len(data) || !bytes.Equal(data[:n], bytes.Repeat([]byte{t}, n)) {
				return "partial-packet-in-unit", fmt.Sprintf("delivered unit does not contain packet %d whole", i), delivered, false
			}
			tags = append(tags, t)
			data = data[n:]
		}
		for k, t := range tags {
			i := byTag[t]
			s := seq[i]
			if used[t] {
				return "packet-used-twice", fmt.Sprintf("packet %d appears in two delivered units (or twice in one)", i), delivered, false
			}
			used[t] = true
			if !s.usable {
				return "tei-packet-used", fmt.Sprintf("packet %d has transport_error_indicator set but its payload was delivered", i), delivered, false
			}
			if k == 0 {
				if !s.pkt.PUSI {
					return "unit-starts-without-pusi", fmt.Sprintf("unit starts at packet %d which has no payload_unit_start_indicator", i), delivered, false
				}
				continue
			}
			prev := byTag[tags[k-1]]
			if s.pkt.PUSI {
				return "pusi-inside-unit", fmt.Sprintf("packet %d starts a unit but was appended to another", i), delivered, false
			}
			if s.pkt.HasAF && s.pkt.AF.Disc {
				return "splice-across-discontinuity-indicator", fmt.Sprintf("packet %d signals a discontinuity but continues a unit", i), delivered, false
			}
			if s.pkt.CC != (seq[prev].pkt.CC+1)&0xf {
				return "splice-across-counter-gap", fmt.Sprintf("packets %d and %d are neighbours in a unit but their counters are %d and %d", prev, i, seq[prev].pkt.CC, s.pkt.CC), delivered, false
			}
			for j := prev + 1; j < i; j++ {
				q := seq[j]
				if !q.a || !q.pkt.HasPL || q.dupPrev || !q.usable {
					continue // other PID, adaptation-only, an immediate duplicate, or a transport-error packet (the counter rule above guards the join)
				}
				return "splice-skips-packet", fmt.Sprintf("unit joins packets %d and %d but skips payload packet %d", prev, i, j), delivered, false
			}
		}
	}
	// a delivered unit must not be provably truncated: if the packet that follows its last packet (within
	// the PID, immediate duplicates aside) is an unusable (transport error) continuation carrying the next
	// counter value - i.e. the unit lost that packet - and a later usable payload packet of the PID exists
	// (the statement's precondition: the counter can reveal the gap), the unit must not be delivered
	for _, d := range out.Data {
		if d.PID != 0x100 || d.PES == nil || len(d.PES.Data) == 0 {
			continue
		}
		last := byTag[d.PES.Data[len(d.PES.Data)-1]]
		next, later := -1, false
		for j := last + 1; j < len(seq); j++ {
			q := seq[j]
			if !q.a || !q.pkt.HasPL || q.dupPrev {
				continue
			}
			if next < 0 {
				next = j
			} else if q.usable {
				later = true
			}
		}
		if next >= 0 && later {
			q := seq[next]
			if !q.usable && !q.pkt.PUSI && q.pkt.CC == (seq[last].pkt.CC+1)&0xf {
				return "truncated-unit-delivered", fmt.Sprintf("unit ending at packet %d was delivered although its continuation (packet %d, transport error) was lost and a later packet of the PID reveals the gap", last, next), delivered, false
			}
		}
	}
	// a packet with transport_error_indicator set is to be ignored: the output must equal that of the
	// sequence without those packets
	var noTEI []*ref.Pkt
	for _, s := range seq {
		if !s.pkt.TEI {
			noTEI = append(noTEI, s.pkt)
		}
	}
	if len(noTEI) != len(seq) {
		o2 := DemuxBytes(EncodePkts(noTEI))
		if mc.Canon(canonData(out.Data)) != mc.Canon(canonData(o2.Data)) {
			return "transport-error-packet-changes-output", fmt.Sprintf("%d data delivered, %d without the transport-error packets", len(out.Data), len(o2.Data)), delivered, false
		}
	}
	// completeness on fault-free PID-A subsequences
	faultFree = true
	prevCC := -1
	for _, s := range seq {
		if !s.a {
			continue
		}
		if !s.pkt.HasPL {
			continue
		}
		if s.dupPrev || !s.usable || (s.pkt.HasAF && s.pkt.AF.Disc) {
			faultFree = false
		}
		if prevCC >= 0 && int(s.pkt.CC) != (prevCC+1)&0xf {
			faultFree = false
		}
		prevCC = int(s.pkt.CC)
	}
	if faultFree {
		want := 0
		for _, s := range seq {
			if s.a && s.pkt.HasPL && s.pkt.PUSI {
				want++
			}
		}
		if delivered != want {
			return "unit-lost-on-fault-free-sequence", fmt.Sprintf("%d units delivered, %d carried by a fault-free packet sequence", delivered, want), delivered, true
		}
	}
	return "", "", delivered, faultFree
}

func c06Sequences(c *mc.Ctx) {
	maxLen := 4
	if c.Thorough() {
		maxLen = 5
	}
	for l := 1; l <= maxLen; l++ {
		r := make(mc.Radix, l)
		for i := range r {
			r[i] = seqAlpha
		}
		total := r.Size()
		done := mc.ParFor(total, c.OverBudget, func(i int64) {
			dg := r.Digits(i, make([]int, 0, l))
			seq := buildSeq(dg)
			sig, msg, delivered, _ := checkSeq(seq)
			if sig != "" {
				var ps []*ref.Pkt
				for _, s := range seq {
					ps = append(ps, s.pkt)
				}
				c.Rep.Report("seq:"+sig, map[string]any{"kind": "stream", "symbols": dg, "bytes": mc.Hex(EncodePkts(ps)), "message": msg})
			}
			if delivered > 0 {
				c.Ev.Class("seq-unit-delivered", 1)
			}
			for k, s := range seq {
				if s.dupPrev {
					c.Ev.Class("seq-duplicate-skipped", 1)
				}
				if s.a && k > 0 && dg[k]%3 == 2 {
					c.Ev.Class("seq-gap", 1)
				}
			}
			if l <= 3 {
				c.Ev.Distinct(fmt.Sprint(dg))
			}
			if i == total/2 {
				c.Ev.Sample(map[string]any{"symbols": dg})
			}
		})
		c.Ev.AddScenario(mc.Scenario{Name: fmt.Sprintf("sequences-len-%d", l), SpaceSize: total, Executed: done, Exhaustive: done == total,
			Bound: fmt.Sprintf("all %d^%d packet sequences", seqAlpha, l)})
		if l > 3 {
			c.Ev.DistinctAdd(done)
		}
	}
}
