//go:build verif

package checks

import (
	"bytes"
	"encoding/binary"
	"fmt"
	"runtime/debug"
	"sync/atomic"
	"syscall"
	"time"

	astits "github.com/asticode/go-astits"
	"verif/mc"
	"verif/ref"
)

func init() {
	register("C10", checkC10)
	register("C15", checkC15)
}

// ---------------------------------------------------------------------------------------
// C10: the checksum register is a 2^32-state machine with 256 inputs.

func checkC10(c *mc.Ctx) {
	c.Ev.Level = "model_checking"
	c.Ev.Rule = "the CRC register is treated as a transition system (2^32 states x 256 input bytes): the library's one-step transition updateCRC32(s,[b]) is compared with a bit-serial LFSR for enumerated (state, byte) pairs (by induction over the message length one-step agreement for all pairs is agreement for every byte string); plus all 256 table entries, all messages of length 0..2, every split point of a message family, residue 0; distinct_nontrivial = distinct (state, byte) pairs / messages"
	c.Ev.Assumptions = append(c.Ev.Assumptions, "reference: one-bit-per-step LFSR with polynomial 0x04C11DB7 (ISO/IEC 13818-1 annex A)")
	// the very first checksum work of this process is a piecewise update (no one-pass call before it): the
	// value must not depend on which entry point was used first (lazily built state)
	{
		msg := []byte{0x00, 0xb0, 0x0d, 0x00, 0x01, 0xc1, 0x00, 0x00, 0x00, 0x01, 0xf0, 0x00, 0x12, 0x34, 0x56, 0x78, 0x9a}
		for split := 0; split <= len(msg); split++ {
			got := astits.VerifUpdateCRC32(astits.VerifUpdateCRC32(0xffffffff, msg[:split]), msg[split:])
			if want := ref.CRC(msg); got != want {
				c.Rep.Report("pieces-before-any-one-pass-call", map[string]any{"kind": "crc", "split": split, "got": got, "want": want, "message": fmt.Sprintf("first calls of the process: update(update(init, m[:%d]), m[%d:]) = %#x, LFSR gives %#x", split, split, got, want)})
				break
			}
		}
		c.Ev.Class("pieces-before-one-pass", 1)
	}
	tab := astits.VerifCRC32Table()
	bad := 0
	for i := 0; i < 256; i++ {
		if want := ref.CRCStep(0, byte(i)); tab[i] != want {
			bad++
			c.Rep.Report("table-entry", map[string]any{"kind": "crc", "index": i, "got": tab[i], "want": want, "message": fmt.Sprintf("tableCRC32[%d] = %#x, LFSR gives %#x", i, tab[i], want)})
		}
	}
	c.Ev.AddScenario(mc.Scenario{Name: "table-entries", SpaceSize: 256, Executed: 256, Exhaustive: true, States: 256, Trans: 256, Bound: "all 256 table entries"})

	// one-step transitions
	step := func(name string, n int64, pair func(i int64) (uint32, byte)) {
		var nbad int64
		done := mc.ParFor(n/4096, c.OverBudget, func(blk int64) {
			var buf [1]byte
			for i := blk * 4096; i < (blk+1)*4096; i++ {
				s, b := pair(i)
				buf[0] = b
				got, want := astits.VerifUpdateCRC32(s, buf[:]), ref.CRCStep(s, b)
				if got != want {
					if atomic.AddInt64(&nbad, 1) <= 3 {
						c.Rep.Report("one-step-transition", map[string]any{"kind": "crc", "state": s, "byte": b, "got": got, "want": want, "message": fmt.Sprintf("update(%#x,[%#x]) = %#x, LFSR gives %#x", s, b, got, want)})
					}
				}
			}
		}) * 4096
		c.Ev.AddScenario(mc.Scenario{Name: name, SpaceSize: n, Executed: done, States: done, Trans: done, Exhaustive: done == n, Bound: name})
		c.Ev.DistinctAdd(done)
	}
	if c.Thorough() {
		step("all 2^32 states x byte 0x00", 1<<32, func(i int64) (uint32, byte) { return uint32(i), 0 })
		step("2^24 stratified states (all top bytes x 2^16 low patterns) x all 256 bytes", 1<<32, func(i int64) (uint32, byte) {
			b := byte(i)
			top := uint32(i>>8) & 0xff
			low := uint32(i>>16) & 0xffff
			return top<<24 | low*0x101&0xffffff, b
		})
		// the complete 2^40 relation, byte by byte, as far as the budget allows
		var completed int
		for b := 1; b < 256 && !c.OverBudget(); b++ {
			bb := byte(b)
			var nbad int64
			done := mc.ParFor((1<<32)/65536, c.OverBudget, func(blk int64) {
				var buf [1]byte
				buf[0] = bb
				for i := blk * 65536; i < (blk+1)*65536; i++ {
					if astits.VerifUpdateCRC32(uint32(i), buf[:]) != ref.CRCStep(uint32(i), bb) {
						if atomic.AddInt64(&nbad, 1) <= 1 {
							c.Rep.Report("one-step-transition", map[string]any{"kind": "crc", "state": uint32(i), "byte": bb, "message": "transition differs from the LFSR"})
						}
					}
				}
			})
			if done == (1<<32)/65536 {
				completed++
			}
			c.Ev.Evals += done * 65536
			c.Ev.States += done * 65536
			c.Ev.Trans += done * 65536
		}
		c.Ev.Extra["complete_relation_bytes_done"] = completed + 1
		c.Ev.AddScenario(mc.Scenario{Name: "complete 2^40 transition relation", SpaceSize: 1 << 40, Executed: int64(completed+1) << 32, Exhaustive: completed == 255,
			Bound: fmt.Sprintf("all 2^32 states for %d of the 256 input bytes (budget-capped)", completed+1)})
	} else {
		step("all 2^32 states x byte 0x00", 1<<32, func(i int64) (uint32, byte) { return uint32(i), 0 })
		step("all 256 top bytes x 2^12 low patterns x all 256 bytes", 1<<28, func(i int64) (uint32, byte) {
			b := byte(i)
			top := uint32(i>>8) & 0xff
			low := uint32(i>>16) & 0xfff
			return top<<24 | low*0x1001&0xffffff, b
		})
	}
	// all messages of length 0..2
	var n2 int64
	check := func(m []byte) {
		n2++
		if got, want := astits.VerifComputeCRC32(m), ref.CRC(m); got != want {
			c.Rep.Report("short-message", map[string]any{"kind": "crc", "message_hex": mc.Hex(m), "got": got, "want": want, "message": "checksum differs from CRC-32/MPEG-2"})
		}
	}
	check(nil)
	for a := 0; a < 256; a++ {
		check([]byte{byte(a)})
		for b := 0; b < 256; b++ {
			check([]byte{byte(a), byte(b)})
		}
	}
	c.Ev.AddScenario(mc.Scenario{Name: "all messages of length 0..2", SpaceSize: 65793, Executed: n2, Exhaustive: n2 == 65793, States: n2, Trans: n2})
	// the same messages again, but written into ONE reused buffer (the checksum is a function of the
	// bytes, not of the slice identity or of earlier calls)
	var n3 int64
	buf := make([]byte, 2)
	for a := 0; a < 256; a++ {
		for b := 0; b < 256; b++ {
			buf[0], buf[1] = byte(a), byte(b)
			n3++
			if got, want := astits.VerifComputeCRC32(buf), ref.CRC(buf); got != want {
				c.Rep.Report("reused-buffer", map[string]any{"kind": "crc", "message_hex": mc.Hex(buf), "got": got, "want": want, "message": "checksum of a rewritten buffer differs from CRC-32/MPEG-2 (depends on an earlier call)"})
			}
			if got, want := astits.VerifUpdateCRC32(0xffffffff, buf), ref.CRC(buf); got != want {
				c.Rep.Report("reused-buffer", map[string]any{"kind": "crc", "message_hex": mc.Hex(buf), "got": got, "want": want, "message": "update over a rewritten buffer differs from CRC-32/MPEG-2"})
			}
		}
	}
	c.Ev.AddScenario(mc.Scenario{Name: "all 2-byte messages through one reused buffer", SpaceSize: 65536, Executed: n3, Exhaustive: true, States: n3, Trans: n3})
	// chunking and residue over a message family
	var nsplit int64
	lens := []int{1, 2, 3, 4, 7, 8, 9, 15, 16, 17, 183, 184, 185, 187, 188, 1021, 1024, 4093, 4096}
	for li, l := range lens {
		m := payloadFor(li+1, l, c.Seed)
		for k := range m { // use the full byte range here (CRC input is arbitrary)
			m[k] ^= byte(k*131) ^ byte(li)
		}
		whole := astits.VerifComputeCRC32(m)
		if whole != ref.CRC(m) {
			c.Rep.Report("message", map[string]any{"kind": "crc", "message_hex": mc.Hex(m), "message": "checksum differs from CRC-32/MPEG-2"})
		}
		for sp := 0; sp <= l; sp++ {
			nsplit++
			if astits.VerifUpdateCRC32(astits.VerifUpdateCRC32(0xffffffff, m[:sp]), m[sp:]) != whole {
				c.Rep.Report("chunking", map[string]any{"kind": "crc", "message_hex": mc.Hex(m), "split": sp, "message": "feeding the message in two pieces changes the checksum"})
			}
		}
		if l <= 17 {
			for a := 0; a <= l; a++ {
				for b := a; b <= l; b++ {
					nsplit++
					x := astits.VerifUpdateCRC32(0xffffffff, m[:a])
					x = astits.VerifUpdateCRC32(x, m[a:b])
					x = astits.VerifUpdateCRC32(x, m[b:])
					if x != whole {
						c.Rep.Report("chunking", map[string]any{"kind": "crc", "message_hex": mc.Hex(m), "split": []int{a, b}, "message": "three-way split changes the checksum"})
					}
				}
			}
		}
		var be [4]byte
		binary.BigEndian.PutUint32(be[:], whole)
		if r := astits.VerifComputeCRC32(append(append([]byte{}, m...), be[:]...)); r != 0 {
			c.Rep.Report("residue", map[string]any{"kind": "crc", "message_hex": mc.Hex(m), "residue": r, "message": "message followed by its checksum does not have residue 0"})
		}
	}
	c.Ev.AddScenario(mc.Scenario{Name: "chunking and residue", SpaceSize: nsplit, Executed: nsplit, Exhaustive: true, States: nsplit, Trans: nsplit, Bound: "19 message lengths up to 4096: every split point, every 3-way split of the short ones, residue"})
	// messages with long runs of one byte value (zero-filled areas, 0xff stuffing, repeated sync bytes), alone, behind
	// a prefix and in front of a suffix, and two runs of different values back to back; from four register values
	{
		var nruns int64
		var msgs [][]byte
		vals := []byte{0x00, 0xff, 0x47, 0x55, 0xaa, 0x01, 0x80}
		for _, v := range vals {
			for l := 1; l <= 600; l++ {
				for _, pre := range [][]byte{nil, {0xa5}, {0x00, 0x01, 0x02}} {
					for _, suf := range [][]byte{nil, {0x3c}} {
						msgs = append(msgs, append(append(append([]byte{}, pre...), bytes.Repeat([]byte{v}, l)...), suf...))
					}
				}
			}
		}
		edge := []int{1, 7, 8, 15, 16, 31, 32, 63, 64, 65, 127, 128, 129, 255, 256, 257}
		for _, a := range vals[:4] {
			for _, b := range vals[:4] {
				for _, l1 := range edge {
					for _, l2 := range edge {
						msgs = append(msgs, append(bytes.Repeat([]byte{a}, l1), bytes.Repeat([]byte{b}, l2)...))
					}
				}
			}
		}
		done := mc.ParFor(int64(len(msgs)), c.OverBudget, func(i int64) {
			m := msgs[i]
			for _, st := range []uint32{0xffffffff, 0, 0x04c11db7, 0x80000001} {
				want := st
				for _, x := range m {
					want = ref.CRCStep(want, x)
				}
				if got := astits.VerifUpdateCRC32(st, m); got != want {
					c.Rep.Report("message", map[string]any{"kind": "crc", "message_hex": mc.Hex(m), "state": st, "message": fmt.Sprintf("a message with a run of equal bytes: register %#x after the message, CRC-32/MPEG-2 gives %#x (start %#x)", got, want, st)})
					return
				}
			}
			if astits.VerifComputeCRC32(m) != ref.CRC(m) {
				c.Rep.Report("message", map[string]any{"kind": "crc", "message_hex": mc.Hex(m), "message": "checksum differs from CRC-32/MPEG-2"})
			}
			c.Ev.Class("long-run-of-equal-bytes", 1)
		})
		nruns = done
		c.Ev.AddScenario(mc.Scenario{Name: "runs of equal bytes", SpaceSize: int64(len(msgs)), Executed: nruns, Exhaustive: nruns == int64(len(msgs)), States: nruns * 4, Trans: nruns * 4,
			Bound: "7 byte values x run lengths 1..600 x 3 prefixes x 2 suffixes; two runs of 16 edge lengths each over 4 values; from 4 register values"})
	}
	// the checksum READS its input: messages in read-only memory (a page mapped without write permission; a write
	// faults, and the fault is turned into a panic that is caught here). A function that scribbles on its input and
	// puts things back before returning gives right values to a lone caller - and wrong ones to two callers that
	// checksum the same section at the same time
	{
		var nro int64
		page, err := syscall.Mmap(-1, 0, 1<<16, syscall.PROT_READ|syscall.PROT_WRITE, syscall.MAP_ANON|syscall.MAP_PRIVATE)
		if err == nil {
			for i := range page {
				page[i] = byte(i*7 + i>>8)
			}
			if err = syscall.Mprotect(page, syscall.PROT_READ); err == nil {
				old := debug.SetPanicOnFault(true)
				lens := []int{}
				for l := 0; l <= 300; l++ {
					lens = append(lens, l)
				}
				lens = append(lens, 1021, 1024, 4093, 4096, 65535)
				for _, l := range lens {
					for _, off := range []int{0, 1, 3} {
						if off+l > len(page) {
							continue
						}
						m := page[off : off+l]
						var got, got2 uint32
						if p := mc.Catch(func() {
							got = astits.VerifComputeCRC32(m)
							got2 = astits.VerifUpdateCRC32(astits.VerifUpdateCRC32(0xffffffff, m[:l/2]), m[l/2:])
						}); p != nil {
							c.Rep.Report("checksum-writes-to-its-input", map[string]any{"kind": "crc", "length": l, "offset": off, "message": fmt.Sprintf("checksumming %d bytes that lie in read-only memory faults: the function writes to its input (%v)", l, p)})
							break
						}
						cp := append([]byte{}, m...)
						if want := ref.CRC(cp); got != want || got2 != want {
							c.Rep.Report("message", map[string]any{"kind": "crc", "message_hex": mc.Hex(cp), "message": "checksum differs from CRC-32/MPEG-2"})
						}
						nro++
					}
				}
				debug.SetPanicOnFault(old)
			}
			syscall.Mprotect(page, syscall.PROT_READ|syscall.PROT_WRITE)
			syscall.Munmap(page)
		}
		if err != nil {
			c.Ev.Assumptions = append(c.Ev.Assumptions, "read-only input memory could not be set up ("+err.Error()+"): the read-only-input scenario was skipped")
		} else {
			c.Ev.Class("input-in-read-only-memory", nro)
			c.Ev.AddScenario(mc.Scenario{Name: "input in read-only memory", SpaceSize: nro, Executed: nro, Exhaustive: true, States: nro, Trans: nro,
				Bound: "messages of every length 0..300 and 1021, 1024, 4093, 4096, 65535 at three alignments, one pass and two pieces, in a page without write permission"})
		}
	}
	c.Ev.Sample(map[string]any{"state": "0xffffffff", "byte": "0x00", "next_state": fmt.Sprintf("%#x", ref.CRCStep(0xffffffff, 0))})
	_ = bad
}

// ---------------------------------------------------------------------------------------
// C15: DVB date/time and BCD durations

func checkC15(c *mc.Ctx) {
	c.Ev.Level = "exploration"
	c.Ev.Rule = "exhaustive: all 50457 MJD values x grid of times of day, all 86400 BCD times of day x boundary days, decoded and encoded through the library and compared with integer day counting; all 10^4 / 10^6 BCD durations both ways; all 2^16 / 2^24 raw patterns for panic-freedom and the digit-wise definition; thorough: all days x all seconds encoded; distinct_nontrivial = distinct values"
	c.Ev.Assumptions = append(c.Ev.Assumptions, "times are UTC; reference = integer day counting from 1858-11-17 (Go time.AddDate), BCD digit-wise")
	const mjdLo, mjdHi = 15079, 65535
	rep := func(sig string, det map[string]any) { det["kind"] = "dvbtime"; c.Rep.Report(sig, det) }
	decode := func(mjd int, h, m, s int) {
		b := [5]byte{byte(mjd >> 8), byte(mjd), ref.BCD2(h), ref.BCD2(m), ref.BCD2(s)}
		want := ref.MJDToDate(mjd).Add(time.Duration(h)*time.Hour + time.Duration(m)*time.Minute + time.Duration(s)*time.Second)
		var got time.Time
		var err error
		if p := mc.Catch(func() { got, err = astits.VerifParseDVBTime(b[:]) }); p != nil || err != nil {
			rep("decode-failed", map[string]any{"mjd": mjd, "bytes": mc.Hex(b[:]), "message": fmt.Sprintf("panic=%v err=%v", p, err)})
			return
		}
		if !got.Equal(want) {
			rep("decode-date", map[string]any{"mjd": mjd, "bytes": mc.Hex(b[:]), "message": fmt.Sprintf("decoded %s, calendar says %s", got.UTC(), want)})
		}
	}
	encode := func(t time.Time) {
		want := ref.DVBTime(t)
		var got []byte
		var n int
		var err error
		if p := mc.Catch(func() { got, n, err = astits.VerifWriteDVBTime(t) }); p != nil || err != nil {
			rep("encode-failed", map[string]any{"time": t.String(), "message": fmt.Sprintf("panic=%v err=%v", p, err)})
			return
		}
		if n != 5 || string(got) != string(want[:]) {
			rep("encode-bytes", map[string]any{"time": t.String(), "message": fmt.Sprintf("encoded %x (n=%d), want %x", got, n, want)})
		}
	}
	// decode: all days x 3 times of day
	days := int64(mjdHi - mjdLo + 1)
	tods := [][3]int{{0, 0, 0}, {23, 59, 59}, {12, 34, 56}}
	done := mc.ParFor(days, nil, func(i int64) {
		for _, t := range tods {
			decode(mjdLo+int(i), t[0], t[1], t[2])
			encode(ref.MJDToDate(mjdLo + int(i)).Add(time.Duration(t[0])*time.Hour + time.Duration(t[1])*time.Minute + time.Duration(t[2])*time.Second))
		}
	})
	c.Ev.AddScenario(mc.Scenario{Name: "all MJD values x {00:00:00, 23:59:59, 12:34:56}, decode and encode", SpaceSize: days * 3 * 2, Executed: done * 3 * 2, Exhaustive: done == days})
	// "any time.Time in that range": instants that are not whole seconds encode as the second they lie in
	// (the five bytes have no finer resolution), in particular in the last second of a day
	subs := []time.Duration{1, 499999999, 500000000, 999999999}
	doneS := mc.ParFor(days, nil, func(i int64) {
		for _, t := range [][3]int{{0, 0, 0}, {23, 59, 59}, {11, 59, 59}, {12, 0, 59}} {
			whole := ref.MJDToDate(mjdLo + int(i)).Add(time.Duration(t[0])*time.Hour + time.Duration(t[1])*time.Minute + time.Duration(t[2])*time.Second)
			want := ref.DVBTime(whole)
			for _, ns := range subs {
				tt := whole.Add(ns)
				got, n, err := astits.VerifWriteDVBTime(tt)
				if err != nil || n != 5 || string(got) != string(want[:]) {
					rep("encode-bytes:sub-second", map[string]any{"time": tt.String(), "message": fmt.Sprintf("encoded %x (n=%d err=%v), want %x (the second the instant lies in)", got, n, err, want)})
				}
			}
		}
	})
	c.Ev.AddScenario(mc.Scenario{Name: "all MJD values x 4 times of day x 4 sub-second offsets, encode", SpaceSize: days * 16, Executed: doneS * 16, Exhaustive: doneS == days})
	c.Ev.DistinctAdd(doneS * 16)
	c.Ev.DistinctAdd(done * 3)
	// all seconds of the day x boundary days
	var bdays []int
	bdays = append(bdays, mjdLo, mjdHi)
	for y := 1900; y <= 2038; y++ {
		for _, md := range [][2]int{{2, 28}, {3, 1}, {12, 31}, {1, 1}} {
			d := time.Date(y, time.Month(md[0]), md[1], 0, 0, 0, 0, time.UTC)
			if m := ref.DateToMJD(d); m >= mjdLo && m <= mjdHi {
				bdays = append(bdays, m)
			}
		}
		if d := time.Date(y, 2, 29, 0, 0, 0, 0, time.UTC); d.Month() == 2 {
			if m := ref.DateToMJD(d); m >= mjdLo && m <= mjdHi {
				bdays = append(bdays, m)
			}
		}
	}
	nb := int64(len(bdays)) * 86400
	if !c.Thorough() {
		// quick: every second on the first/last day and on every leap day; every minute elsewhere
	}
	done = mc.ParFor(nb, c.OverBudget, func(i int64) {
		d, s := bdays[i/86400], int(i%86400)
		decode(d, s/3600, s/60%60, s%60)
		encode(ref.MJDToDate(d).Add(time.Duration(s) * time.Second))
	})
	c.Ev.AddScenario(mc.Scenario{Name: "boundary days x times of day", SpaceSize: nb, Executed: done, Exhaustive: done == nb,
		Bound: fmt.Sprintf("%d boundary days (first/last, every 28 Feb, 29 Feb, 1 Mar, 31 Dec, 1 Jan) x all 86400 seconds", len(bdays))})
	c.Ev.DistinctAdd(done)
	if c.Thorough() {
		// encode: all days x all seconds
		tot := days * 86400
		done = mc.ParFor(days*24, c.OverBudget, func(i int64) {
			base := ref.MJDToDate(mjdLo + int(i/24)).Add(time.Duration(i%24) * time.Hour)
			for s := 0; s < 3600; s++ {
				t := base.Add(time.Duration(s) * time.Second)
				want := ref.DVBTime(t)
				got, n, err := astits.VerifWriteDVBTime(t)
				if err != nil || n != 5 || string(got) != string(want[:]) {
					rep("encode-bytes", map[string]any{"time": t.String(), "message": fmt.Sprintf("encoded %x (n=%d err=%v), want %x", got, n, err, want)})
				}
			}
		}) * 3600
		c.Ev.AddScenario(mc.Scenario{Name: "encode all days x all seconds", SpaceSize: tot, Executed: done, Exhaustive: done == tot})
		c.Ev.DistinctAdd(done)
	}
	// durations: all valid BCD values both ways
	var nd int64
	for h := 0; h < 100; h++ {
		for m := 0; m < 60; m++ {
			d := time.Duration(h)*time.Hour + time.Duration(m)*time.Minute
			b := []byte{ref.BCD2(h), ref.BCD2(m)}
			nd++
			if got, err := astits.VerifParseDVBDurationMinutes(b); err != nil || got != d {
				rep("duration-minutes-decode", map[string]any{"bytes": mc.Hex(b), "message": fmt.Sprintf("decoded %v (err %v), want %v", got, err, d)})
			}
			if got, n, err := astits.VerifWriteDVBDurationMinutes(d); err != nil || n != 2 || string(got) != string(b) {
				rep("duration-minutes-encode", map[string]any{"duration": d.String(), "message": fmt.Sprintf("encoded %x, want %x", got, b)})
			}
			for s := 0; s < 60; s++ {
				d3 := d + time.Duration(s)*time.Second
				b3 := []byte{ref.BCD2(h), ref.BCD2(m), ref.BCD2(s)}
				nd++
				if got, err := astits.VerifParseDVBDurationSeconds(b3); err != nil || got != d3 {
					rep("duration-seconds-decode", map[string]any{"bytes": mc.Hex(b3), "message": fmt.Sprintf("decoded %v (err %v), want %v", got, err, d3)})
				}
				if got, n, err := astits.VerifWriteDVBDurationSeconds(d3); err != nil || n != 3 || string(got) != string(b3) {
					rep("duration-seconds-encode", map[string]any{"duration": d3.String(), "message": fmt.Sprintf("encoded %x, want %x", got, b3)})
				}
				if s%7 == 0 { // durations with a sub-second part encode as their whole seconds
					for _, ns := range []time.Duration{1, 500000000, 999999999} {
						if got, n, err := astits.VerifWriteDVBDurationSeconds(d3 + ns); err != nil || n != 3 || string(got) != string(b3) {
							rep("duration-seconds-encode:sub-second", map[string]any{"duration": (d3 + ns).String(), "message": fmt.Sprintf("encoded %x, want %x", got, b3)})
						}
					}
				}
			}
		}
	}
	c.Ev.AddScenario(mc.Scenario{Name: "all BCD durations hh:mm (100x60) and hh:mm:ss (100x60x60), both directions", SpaceSize: nd, Executed: nd, Exhaustive: true})
	c.Ev.DistinctAdd(nd)
	// all digit values 00..99 in every position (the statement: all valid digit values), minutes/seconds 60..99 decode digit-wise
	// raw patterns: panic-freedom and digit-wise definition
	raw16 := mc.ParFor(1<<16, nil, func(i int64) {
		b := []byte{byte(i >> 8), byte(i)}
		want := time.Duration(ref.FromBCD2(b[0]))*time.Hour + time.Duration(ref.FromBCD2(b[1]))*time.Minute
		var got time.Duration
		var err error
		if p := mc.Catch(func() { got, err = astits.VerifParseDVBDurationMinutes(b) }); p != nil || err != nil || got != want {
			rep("duration-raw16", map[string]any{"bytes": mc.Hex(b), "message": fmt.Sprintf("panic=%v err=%v got=%v want=%v", p, err, got, want)})
		}
	})
	raw24 := mc.ParFor(1<<24, c.OverBudget, func(i int64) {
		b := []byte{byte(i >> 16), byte(i >> 8), byte(i)}
		want := time.Duration(ref.FromBCD2(b[0]))*time.Hour + time.Duration(ref.FromBCD2(b[1]))*time.Minute + time.Duration(ref.FromBCD2(b[2]))*time.Second
		var got time.Duration
		var err error
		if p := mc.Catch(func() { got, err = astits.VerifParseDVBDurationSeconds(b) }); p != nil || err != nil || got != want {
			rep("duration-raw24", map[string]any{"bytes": mc.Hex(b), "message": fmt.Sprintf("panic=%v err=%v got=%v want=%v", p, err, got, want)})
		}
	})
	c.Ev.AddScenario(mc.Scenario{Name: "all raw 16-bit and 24-bit duration patterns (decode, digit-wise definition, no panic)", SpaceSize: 1<<16 + 1<<24, Executed: raw16 + raw24, Exhaustive: raw16+raw24 == 1<<16+1<<24})
	c.Ev.DistinctAdd(raw16 + raw24)
	// all 2^16 MJD values x raw time bytes: no panic (outside the stated range the date is unspecified)
	rawT := mc.ParFor(1<<16, nil, func(i int64) {
		for _, tb := range [][3]byte{{0, 0, 0}, {0xff, 0xff, 0xff}, {0x99, 0x99, 0x99}, {0xaa, 0x5a, 0xa5}} {
			b := []byte{byte(i >> 8), byte(i), tb[0], tb[1], tb[2]}
			if p := mc.Catch(func() { astits.VerifParseDVBTime(b) }); p != nil {
				rep("time-raw-panic", map[string]any{"bytes": mc.Hex(b), "message": fmt.Sprint(p)})
			}
		}
	})
	c.Ev.AddScenario(mc.Scenario{Name: "all 2^16 MJD values x 4 raw time patterns: no panic", SpaceSize: 4 << 16, Executed: rawT * 4, Exhaustive: rawT == 1<<16})
	c.Ev.Sample(map[string]any{"mjd": 49273, "bytes": "c079124500", "decoded": "1993-10-13 12:45:00 UTC"})
	c.Ev.Sample(map[string]any{"mjd": mjdLo, "date": ref.MJDToDate(mjdLo).Format("2006-01-02"), "mjd_hi": mjdHi, "date_hi": ref.MJDToDate(mjdHi).Format("2006-01-02")})
}
