package checks

import (
	"bytes"
	"context"
	"errors"
	"fmt"
	"strings"

	astits "github.com/asticode/go-astits"
	"verif/mc"
	"verif/ref"
)

// ---------------------------------------------------------------------------------------
// MUXSPACE: operation alphabet on the real Muxer, recording writer, trace.

// MOp is one operation of a Muxer history (JSON-serialisable for replay files).
type MOp struct {
	K    string `json:"k"`              // add rm pcr tables data pkt addmany rmmany
	PID  uint16 `json:"pid,omitempty"`  // add/rm/pcr/data; for add PID 0 = automatic
	ST   uint8  `json:"st,omitempty"`   // stream type for add
	Len  int    `json:"len,omitempty"`  // payload length for data
	AF   string `json:"af,omitempty"`   // "", rai, raipcr, pcr, priv10, noroom, splice, ext
	Hdr  string `json:"hdr,omitempty"`  // "", pts, ptsdts, full, none(no optional fields)
	SID  uint8  `json:"sid,omitempty"`  // explicit stream id (0 = derive from stream type)
	Pkt  string `json:"pkt,omitempty"`  // null afonly big af252
	Auto int    `json:"auto,omitempty"` // for data on the k-th automatically assigned PID (1-based)
	Desc string `json:"desc,omitempty"` // ES descriptors for add: "", sid, lang
	N    int    `json:"n,omitempty"`    // addmany/rmmany count
	Host int    `json:"host,omitempty"` // data: k > 0 = hostile payload (PES start-code look-alikes) at phase k-1
}

func (o MOp) String() string {
	s := o.K
	switch o.K {
	case "add":
		s += fmt.Sprintf("(%#x,st=%#x%s)", o.PID, o.ST, o.Desc)
	case "rm", "pcr":
		s += fmt.Sprintf("(%#x)", o.PID)
	case "data":
		if o.Auto > 0 {
			s += fmt.Sprintf("(auto%d,len=%d,af=%s,hdr=%s)", o.Auto, o.Len, o.AF, o.Hdr)
		} else {
			s += fmt.Sprintf("(%#x,len=%d,af=%s,hdr=%s)", o.PID, o.Len, o.AF, o.Hdr)
		}
	case "pkt":
		s += "(" + o.Pkt + ")"
	case "addmany", "rmmany", "churn":
		s += fmt.Sprintf("(%d)", o.N)
	}
	return s
}

// RecWriter records everything the Muxer writes; it can inject failures (C18).
type RecWriter struct {
	Buf      []byte
	Writes   int
	FailAt   int         // index of the Write call that fails (-1 = never)
	Perm     bool        // permanent failure from FailAt on
	FailMore []int       // further Write indices that fail once
	Partial  bool        // a failing Write accepts the first half of its bytes before failing (n > 0 with an error)
	OnWrite  func(i int) // called at the start of every Write (the writer looks at the caller's buffers while the Muxer is inside a call)
	FailErr  error
	Accepted int // bytes accepted in total
	FailedIn int // number of failures injected
}

func NewRecWriter() *RecWriter { return &RecWriter{FailAt: -1} }

func (w *RecWriter) Write(p []byte) (int, error) {
	i := w.Writes
	w.Writes++
	if w.OnWrite != nil {
		w.OnWrite(i)
	}
	more := false
	for _, k := range w.FailMore {
		more = more || k == i
	}
	if more || w.FailAt >= 0 && (i == w.FailAt || (w.Perm && i > w.FailAt)) {
		w.FailedIn++
		if w.Partial {
			k := len(p) / 2
			w.Buf = append(w.Buf, p[:k]...)
			w.Accepted += k
			return k, w.FailErr
		}
		return 0, w.FailErr
	}
	if len(w.Buf) > 1<<28 {
		panic("the Muxer has written more than 256 MB to the writer of the check")
	}
	w.Buf = append(w.Buf, p...)
	w.Accepted += len(p)
	return len(p), nil
}

// MCall records one API call.
type MCall struct {
	Op       MOp
	From, To int // byte range appended to the writer by this call
	N        int
	Err      error
	PID      uint16 // resolved PID (data/add)
	// what was handed to WriteData (for the round-trip oracle)
	Payload []byte
	Hdr     *astits.PESHeader
	AF      *astits.PacketAdaptationField
	WFrom   int // Write-call index range of this call
	WTo     int
	Churned []uint16 // "churn": the automatically assigned PIDs, each removed again at once
}

// MuxH is a fresh Muxer under test plus its trace.
type MuxH struct {
	M      *astits.Muxer
	W      *RecWriter
	Calls  []MCall
	Auto   []uint16 // automatically assigned PIDs, in order
	Period int
	// Tag makes payload bytes and timestamps depend on the call index (round-trip oracles);
	// searches that merge states leave it off so that scratch buffers inside the Muxer are a
	// function of the last operation only and the state space stays finite.
	Tag bool
	// afs: without Tag the caller's adaptation field structs are REUSED from call to call (one per kind),
	// as an application that keeps its MuxerData around does; whatever a call leaves in them is what
	// the next call gets
	afs map[string]*astits.PacketAdaptationField
	// ShareAF: ONE adaptation field struct for all WriteData calls - the caller fills in the fields of the field it
	// wants before each call and leaves the length bookkeeping (Length, StuffingLength) to the library, as an
	// application does that keeps one MuxerData and edits it
	ShareAF        bool
	afShared       *astits.PacketAdaptationField
	afSharedFailed bool
}

func NewMuxH(period int) *MuxH {
	w := NewRecWriter()
	h := &MuxH{W: w, Period: period}
	if period == 0 {
		// no option: the documented default of 40 WriteData calls applies
		h.M = astits.NewMuxer(context.Background(), w)
		return h
	}
	h.M = astits.NewMuxer(context.Background(), w, astits.MuxerOptTablesRetransmitPeriod(period))
	return h
}

// payloadFor builds a deterministic payload for call idx: bytes never 0x00, 0x01 or 0x47 and
// tagged with the call index so that units are distinguishable.
func payloadFor(idx, n int, seed int64) []byte {
	b := make([]byte, n)
	x := uint32(idx*2654435761) ^ uint32(seed)
	for i := range b {
		x = x*1664525 + 1013904223
		v := byte(0x10 + (x>>24)%0xd0)
		if v == 0x47 {
			v = 0x48
		}
		b[i] = v
	}
	if n > 0 {
		b[0] = byte(0x10 + idx%0xd0)
		if b[0] == 0x47 {
			b[0] = 0x48
		}
	}
	return b
}

// hostilePayload is what elementary streams really look like: full of 00 00 01 start codes (and
// sync-byte values). The 9-byte pattern is a complete minimal PES header; its period is coprime with
// 184, and the phase moves it to every position relative to the packet boundaries.
func hostilePayload(phase, n int) []byte {
	pat := []byte{0x00, 0x00, 0x01, 0xe0, 0x00, 0x00, 0x80, 0x00, 0x00}
	b := make([]byte, n)
	switch phase { // 9..: what padding, stuffing and sync bytes look like
	case 9: // ordinary bytes between 0xFF at both ends
		copy(b, payloadFor(phase, n, 1))
		for i := 0; i < 3 && i < n; i++ {
			b[i], b[n-1-i] = 0xff, 0xff
		}
		return b
	case 10, 11, 12:
		return bytes.Repeat([]byte{[]byte{0xff, 0x00, 0x47}[phase-10]}, n)
	}
	for i := range b {
		b[i] = pat[(i+phase)%len(pat)]
		if (i+phase)%45 == 44 {
			b[i] = 0x47
		}
	}
	return b
}

func cr(base, ext int64) *astits.ClockReference {
	return &astits.ClockReference{Base: base, Extension: ext}
}

// pcrBase: the PCR values of successive calls are not monotonic (the 33-bit base wraps in a long stream, and
// a caller may splice sources): calls alternate between values near the top of the range and near zero.
func pcrBase(idx int) int64 {
	if idx%2 == 1 {
		return 0x1_ffff_ffff - int64(idx)*3003
	}
	return int64(idx)*3003 + 1
}

// MakeAF builds the caller's first-packet adaptation field for an AF kind.
func MakeAF(kind string, idx int) *astits.PacketAdaptationField {
	switch kind {
	case "":
		return nil
	case "rai":
		return &astits.PacketAdaptationField{RandomAccessIndicator: true}
	case "pcr":
		return &astits.PacketAdaptationField{HasPCR: true, PCR: cr(pcrBase(idx), 17)}
	case "raipcr":
		return &astits.PacketAdaptationField{RandomAccessIndicator: true, HasPCR: true, PCR: cr(pcrBase(idx), 299)}
	case "priv10":
		p := payloadFor(idx+1000, 10, 7)
		return &astits.PacketAdaptationField{HasTransportPrivateData: true, TransportPrivateData: p, TransportPrivateDataLength: len(p)}
	case "noroom":
		p := payloadFor(idx+2000, 170, 7)
		return &astits.PacketAdaptationField{HasTransportPrivateData: true, TransportPrivateData: p, TransportPrivateDataLength: len(p)}
	case "noroompcr": // no room for the PES header, and the field carries a PCR
		p := payloadFor(idx+2100, 164, 7)
		return &astits.PacketAdaptationField{HasPCR: true, PCR: cr(int64(idx)*3003+7, 5), HasTransportPrivateData: true, TransportPrivateData: p, TransportPrivateDataLength: len(p)}
	case "noroomrai": // no room, random access + PCR + OPCR + splice countdown
		p := payloadFor(idx+2200, 157, 7)
		return &astits.PacketAdaptationField{RandomAccessIndicator: true, HasPCR: true, PCR: cr(int64(idx)*3003+9, 1), HasOPCR: true, OPCR: cr(3, 3), HasSplicingCountdown: true, SpliceCountdown: 2,
			HasTransportPrivateData: true, TransportPrivateData: p, TransportPrivateDataLength: len(p)}
	case "noroomstuff": // no room because of the caller's own stuffing
		return &astits.PacketAdaptationField{StuffingLength: 172}
	case "noroomstuffpcr":
		return &astits.PacketAdaptationField{HasPCR: true, PCR: cr(int64(idx)*3003+11, 2), StuffingLength: 170}
	case "allfixed": // every fixed-size part at once: PCR, OPCR, splice countdown, private data, the full extension
		return &astits.PacketAdaptationField{RandomAccessIndicator: true, HasPCR: true, PCR: cr(int64(idx)*100+7, 3), HasOPCR: true, OPCR: cr(int64(idx)*100+9, 5),
			HasSplicingCountdown: true, SpliceCountdown: 9, HasTransportPrivateData: true, TransportPrivateData: []byte{1, 2, 3}, TransportPrivateDataLength: 3,
			HasAdaptationExtensionField: true, AdaptationExtensionField: &astits.PacketAdaptationExtensionField{HasLegalTimeWindow: true, LegalTimeWindowIsValid: true, LegalTimeWindowOffset: 0x1234,
				HasPiecewiseRate: true, PiecewiseRate: 0x2abcde, HasSeamlessSplice: true, SpliceType: 9, DTSNextAccessUnit: cr(0x1_2345_6789, 0)}}
	case "opcr": // OPCR without PCR, with the other fixed-size parts
		return &astits.PacketAdaptationField{HasOPCR: true, OPCR: cr(int64(idx)*7+0x1_0000_0001, 0x1ff), HasSplicingCountdown: true, SpliceCountdown: 0xfd, DiscontinuityIndicator: true} // 0xfd: the form the parser returns for a negative countdown
	case "splice":
		return &astits.PacketAdaptationField{HasSplicingCountdown: true, SpliceCountdown: 5, ElementaryStreamPriorityIndicator: true}
	case "extltw": // legal time window present but flagged not valid (the offset is carried all the same), nothing else
		return &astits.PacketAdaptationField{HasAdaptationExtensionField: true, AdaptationExtensionField: &astits.PacketAdaptationExtensionField{
			HasLegalTimeWindow: true, LegalTimeWindowIsValid: false, LegalTimeWindowOffset: 0x2345}}
	case "extpw": // piecewise rate alone / seamless splice alone: each part of the extension stands without the others
		return &astits.PacketAdaptationField{HasAdaptationExtensionField: true, AdaptationExtensionField: &astits.PacketAdaptationExtensionField{
			HasPiecewiseRate: true, PiecewiseRate: 0x155555}}
	case "extss":
		return &astits.PacketAdaptationField{HasAdaptationExtensionField: true, AdaptationExtensionField: &astits.PacketAdaptationExtensionField{
			HasSeamlessSplice: true, SpliceType: 5, DTSNextAccessUnit: cr(0x0_8765_4321, 0)}}
	case "extss0": // the zero value of a field next to its presence flag: splice_type 0 is a splice type like any other
		return &astits.PacketAdaptationField{HasAdaptationExtensionField: true, AdaptationExtensionField: &astits.PacketAdaptationExtensionField{
			HasSeamlessSplice: true, SpliceType: 0, DTSNextAccessUnit: cr(0x1_0f0f_0f0f, 0)}}
	case "ext":
		return &astits.PacketAdaptationField{HasAdaptationExtensionField: true, AdaptationExtensionField: &astits.PacketAdaptationExtensionField{
			HasLegalTimeWindow: true, LegalTimeWindowIsValid: true, LegalTimeWindowOffset: 0x1234,
			HasPiecewiseRate: true, PiecewiseRate: 0x2abcde,
			HasSeamlessSplice: true, SpliceType: 9, DTSNextAccessUnit: cr(0x1_2345_6789, 0)}}
	}
	if strings.HasPrefix(kind, "priv") { // privN: private data of N bytes
		var n int
		fmt.Sscanf(kind[4:], "%d", &n)
		p := payloadFor(idx+3000, n, 7)
		return &astits.PacketAdaptationField{HasTransportPrivateData: true, TransportPrivateData: p, TransportPrivateDataLength: len(p)}
	}
	panic("unknown AF kind " + kind)
}

// MakeHdr builds the PES header for a header kind.
func MakeHdr(kind string, sid uint8, idx int) *astits.PESHeader {
	h := &astits.PESHeader{StreamID: sid}
	switch kind {
	case "", "pts":
		h.OptionalHeader = &astits.PESOptionalHeader{MarkerBits: 2, PTSDTSIndicator: astits.PTSDTSIndicatorOnlyPTS, PTS: cr(int64(idx)*3600+90000, 0)}
	case "ptsdts":
		h.OptionalHeader = &astits.PESOptionalHeader{MarkerBits: 2, PTSDTSIndicator: astits.PTSDTSIndicatorBothPresent, PTS: cr(int64(idx)*3600+90000, 0), DTS: cr(int64(idx)*3600+86400, 0), DataAlignmentIndicator: true}
	case "ptseqdts": // both present with the same value (audio, video without reordering)
		h.OptionalHeader = &astits.PESOptionalHeader{MarkerBits: 2, PTSDTSIndicator: astits.PTSDTSIndicatorBothPresent, PTS: cr(int64(idx)*3600+90000, 0), DTS: cr(int64(idx)*3600+90000, 0)}
	case "none":
		h.OptionalHeader = &astits.PESOptionalHeader{MarkerBits: 2}
	case "full":
		h.OptionalHeader = &astits.PESOptionalHeader{MarkerBits: 2, PTSDTSIndicator: astits.PTSDTSIndicatorBothPresent,
			PTS: cr(0x1_ffff_ffff, 0), DTS: cr(int64(idx)+1, 0), Priority: true, IsCopyrighted: true, IsOriginal: true, ScramblingControl: 1,
			HasESCR: true, ESCR: cr(0x1_5555_5555, 0x155), HasESRate: true, ESRate: 0x2aaaaa,
			HasDSMTrickMode: true, DSMTrickMode: &astits.DSMTrickMode{TrickModeControl: astits.TrickModeControlSlowMotion, RepeatControl: 21},
			HasAdditionalCopyInfo: true, AdditionalCopyInfo: 0x55,
			HasExtension: true, HasPrivateData: true, PrivateData: payloadFor(idx+4000, 16, 3),
			HasProgramPacketSequenceCounter: true, PacketSequenceCounter: 0x2a, MPEG1OrMPEG2ID: 1, OriginalStuffingLength: 0x15,
			HasPSTDBuffer: true, PSTDBufferScale: 1, PSTDBufferSize: 0x1555,
			HasExtension2: true, Extension2Data: []byte{0xa1, 0xa2, 0xa3}, Extension2Length: 3}
	case "pack":
		// every flag the struct can express, including the pack header field the writer does not implement
		// (it announces pack_header_field_flag=0 and writes no pack header): whatever the Muxer does with it,
		// accept or refuse, the output has to stay whole decodable packets and later calls have to be unaffected
		h = MakeHdr("full", sid, idx)
		h.OptionalHeader.HasPackHeaderField = true
		h.OptionalHeader.PackField = 0x5a
	default:
		var n int
		if _, err := fmt.Sscanf(kind, "s%d", &n); err != nil {
			panic("unknown hdr kind " + kind)
		}
		h.OptionalHeader = hdrShape(n, idx)
	}
	return h
}

// MakePkt builds a caller packet for WritePacket.
func MakePkt(kind string) *astits.Packet {
	switch kind {
	case "null":
		pl := make([]byte, 184)
		for i := range pl {
			pl[i] = 0xff
		}
		return &astits.Packet{Header: astits.PacketHeader{PID: 0x1fff, HasPayload: true}, Payload: pl}
	case "ownpid": // a caller-built packet on a PID the Muxer itself writes (pass-through: the Muxer's own counter is untouched)
		pl := bytes.Repeat([]byte{0x3c}, 184)
		return &astits.Packet{Header: astits.PacketHeader{PID: 0x100, HasPayload: true, ContinuityCounter: 9}, Payload: pl}
	case "afonly":
		return &astits.Packet{Header: astits.PacketHeader{PID: 0x300, HasAdaptationField: true, ContinuityCounter: 3},
			AdaptationField: &astits.PacketAdaptationField{HasPCR: true, PCR: cr(12345, 6), StuffingLength: 176}}
	case "short": // a PSI-like packet shorter than 188 bytes: WritePacket pads it with 0xFF
		pl := append([]byte{0x00, 0x42, 0xf0, 0x05}, bytes.Repeat([]byte{0x5a}, 45)...)
		return &astits.Packet{Header: astits.PacketHeader{PID: 0x301, HasPayload: true, PayloadUnitStartIndicator: true, ContinuityCounter: 7}, Payload: pl}
	case "shortaf": // adaptation field + short payload, padded
		return &astits.Packet{Header: astits.PacketHeader{PID: 0x301, HasPayload: true, HasAdaptationField: true, ContinuityCounter: 8},
			AdaptationField: &astits.PacketAdaptationField{HasPCR: true, PCR: cr(777, 1), StuffingLength: 3}, Payload: bytes.Repeat([]byte{0x33}, 20)}
	case "stalebig": // reused struct: HasPayload unset but a stale payload that would not fit is still attached
		return &astits.Packet{Header: astits.PacketHeader{PID: 0x300, HasAdaptationField: true, ContinuityCounter: 2},
			AdaptationField: &astits.PacketAdaptationField{HasPCR: true, PCR: cr(5, 5)}, Payload: make([]byte, 184)}
	case "scr1", "scr2", "scr3", "teiprio": // every value of the header's own small fields: scrambling control 1..3, transport_error + priority
		h := astits.PacketHeader{PID: 0x300, HasPayload: true, ContinuityCounter: 10}
		switch kind {
		case "scr1":
			h.TransportScramblingControl = 1
		case "scr2":
			h.TransportScramblingControl = 2
		case "scr3":
			h.TransportScramblingControl = 3
		default:
			h.TransportErrorIndicator, h.TransportPriority = true, true
		}
		return &astits.Packet{Header: h, Payload: bytes.Repeat([]byte{0x6b}, 184)}
	case "onebyte", "onebytepcr": // the one-byte adaptation field (adaptation_field_length 0) as NextPacket delivers it, re-emitted; and the same struct
		// after the caller put a PCR into it without clearing the mark: the packet only fits in the one-byte form
		af := &astits.PacketAdaptationField{IsOneByteStuffing: true}
		if kind == "onebytepcr" {
			af.HasPCR, af.PCR = true, cr(4242, 1)
		}
		return &astits.Packet{Header: astits.PacketHeader{PID: 0x300, HasAdaptationField: true, HasPayload: true, ContinuityCounter: 11}, AdaptationField: af, Payload: bytes.Repeat([]byte{0x2d}, 183)}
	case "stalefit": // reused struct: HasPayload unset, a short stale payload still attached (everything fits 188 bytes)
		return &astits.Packet{Header: astits.PacketHeader{PID: 0x300, HasAdaptationField: true, ContinuityCounter: 6},
			AdaptationField: &astits.PacketAdaptationField{HasPCR: true, PCR: cr(6, 6)}, Payload: bytes.Repeat([]byte{0x19}, 20)}
	case "afwrap": // adaptation field whose private data (254 bytes) makes the 8-bit length arithmetic wrap
		pd := bytes.Repeat([]byte{0x77}, 254)
		return &astits.Packet{Header: astits.PacketHeader{PID: 0x300, HasAdaptationField: true, HasPayload: true},
			AdaptationField: &astits.PacketAdaptationField{HasTransportPrivateData: true, TransportPrivateData: pd, TransportPrivateDataLength: len(pd)}, Payload: []byte{1, 2, 3}}
	case "priv0pkt": // transport_private_data flag set with zero-length data (legal), short payload padded
		return &astits.Packet{Header: astits.PacketHeader{PID: 0x301, HasAdaptationField: true, HasPayload: true, PayloadUnitStartIndicator: true, ContinuityCounter: 1},
			AdaptationField: &astits.PacketAdaptationField{HasTransportPrivateData: true}, Payload: append([]byte{0, 0, 1, 0xe0, 0, 0, 0x80, 0, 0}, bytes.Repeat([]byte{0x44}, 170)...)}
	case "big": // payload one byte too large
		return &astits.Packet{Header: astits.PacketHeader{PID: 0x300, HasPayload: true}, Payload: make([]byte, 185)}
	case "staleaf": // reused struct: adaptation_field flag cleared, the struct still attached; the payload fills the packet
		return &astits.Packet{Header: astits.PacketHeader{PID: 0x300, HasPayload: true, ContinuityCounter: 4},
			AdaptationField: &astits.PacketAdaptationField{HasPCR: true, PCR: cr(9, 9), StuffingLength: 7}, Payload: bytes.Repeat([]byte{0x21}, 184)}
	case "fitpriv", "bigpriv": // adaptation field with 20 bytes of private data + payload: exact fit / one byte too many
		pd := bytes.Repeat([]byte{0x66}, 20)
		n := 161
		if kind == "bigpriv" {
			n = 162
		}
		return &astits.Packet{Header: astits.PacketHeader{PID: 0x300, HasAdaptationField: true, HasPayload: true, ContinuityCounter: 5},
			AdaptationField: &astits.PacketAdaptationField{HasTransportPrivateData: true, TransportPrivateData: pd, TransportPrivateDataLength: len(pd)}, Payload: bytes.Repeat([]byte{0x22}, n)}
	case "fitpcrext", "bigpcrext": // PCR + OPCR + splice countdown + full extension + payload: exact fit / one byte too many
		n := 184 - (2 + 6 + 6 + 1 + 12)
		if kind == "bigpcrext" {
			n++
		}
		return &astits.Packet{Header: astits.PacketHeader{PID: 0x300, HasAdaptationField: true, HasPayload: true, ContinuityCounter: 6},
			AdaptationField: &astits.PacketAdaptationField{HasPCR: true, PCR: cr(1, 1), HasOPCR: true, OPCR: cr(2, 2), HasSplicingCountdown: true, SpliceCountdown: 3,
				HasAdaptationExtensionField: true, AdaptationExtensionField: &astits.PacketAdaptationExtensionField{
					HasLegalTimeWindow: true, LegalTimeWindowIsValid: true, LegalTimeWindowOffset: 0x1234, HasPiecewiseRate: true, PiecewiseRate: 0x2abcde,
					HasSeamlessSplice: true, SpliceType: 9, DTSNextAccessUnit: cr(0x1_2345_6789, 0)}}, Payload: bytes.Repeat([]byte{0x23}, n)}
	case "af252": // adaptation field that cannot fit
		return &astits.Packet{Header: astits.PacketHeader{PID: 0x300, HasAdaptationField: true, HasPayload: true},
			AdaptationField: &astits.PacketAdaptationField{StuffingLength: 250}, Payload: []byte{1, 2, 3}}
	}
	panic("unknown pkt kind " + kind)
}

func esDescs(kind string) []*astits.Descriptor {
	switch kind {
	case "":
		return nil
	case "sid":
		return []*astits.Descriptor{{Tag: astits.DescriptorTagStreamIdentifier, Length: 1, StreamIdentifier: &astits.DescriptorStreamIdentifier{ComponentTag: 0x42}}}
	case "lang":
		return []*astits.Descriptor{{Tag: astits.DescriptorTagISO639LanguageAndAudioType, Length: 4,
			ISO639LanguageAndAudioType: &astits.DescriptorISO639LanguageAndAudioType{Language: []byte("eng"), Type: 1}}}
	case "emptylast": // the loop ends with a descriptor that has no body at all
		return []*astits.Descriptor{{Tag: astits.DescriptorTagStreamIdentifier, Length: 1, StreamIdentifier: &astits.DescriptorStreamIdentifier{ComponentTag: 0x43}}, {Tag: 0x90, UserDefined: []byte{}}}
	case "emptyonly":
		return []*astits.Descriptor{{Tag: 0x91, UserDefined: []byte{}}}
	}
	panic("unknown desc kind")
}

// Do executes one operation on the real Muxer and records the call.
func (h *MuxH) Do(op MOp, seed int64) *MCall {
	defer mc.Guard(func() any { return "muxer call " + op.String() })()
	c := MCall{Op: op, From: len(h.W.Buf), WFrom: h.W.Writes}
	idx := 0
	if h.Tag {
		idx = len(h.Calls)
	}
	switch op.K {
	case "add":
		es := astits.PMTElementaryStream{ElementaryPID: op.PID, StreamType: astits.StreamType(op.ST), ElementaryStreamDescriptors: esDescs(op.Desc)}
		before := muxPIDs(h.M)
		c.Err = h.M.AddElementaryStream(es)
		c.PID = op.PID
		if c.Err == nil && op.PID == 0 {
			after := muxPIDs(h.M)
			if len(after) == len(before)+1 {
				c.PID = after[len(after)-1]
				h.Auto = append(h.Auto, c.PID)
			}
		}
	case "churn":
		// N times: add a stream with an automatically assigned PID and remove it again (the assignment cursor
		// moves on, the configuration stays small)
		for i := 0; i < op.N; i++ {
			before := muxPIDs(h.M)
			if err := h.M.AddElementaryStream(astits.PMTElementaryStream{StreamType: astits.StreamTypeAACAudio}); err != nil {
				c.Err = err
				break
			}
			after := muxPIDs(h.M)
			if len(after) != len(before)+1 {
				c.Churned = append(c.Churned, 0xffff) // no new PID appeared: the monitor reports it
				continue
			}
			pid := after[len(after)-1]
			c.Churned = append(c.Churned, pid)
			if err := h.M.RemoveElementaryStream(pid); err != nil {
				c.Err = err
				break
			}
		}
	case "rm":
		c.PID = op.PID
		c.Err = h.M.RemoveElementaryStream(op.PID)
	case "pcr":
		c.PID = op.PID
		h.M.SetPCRPID(op.PID)
	case "tables":
		c.N, c.Err = h.M.WriteTables()
	case "data":
		pid := op.PID
		if op.Auto > 0 {
			pid = 0x1ffe // unknown unless assigned
			if op.Auto <= len(h.Auto) {
				pid = h.Auto[op.Auto-1]
			}
		}
		c.PID = pid
		c.Payload = payloadFor(idx, op.Len, seed)
		if op.Host > 0 {
			c.Payload = hostilePayload(op.Host-1, op.Len)
		}
		c.Hdr = MakeHdr(op.Hdr, op.SID, idx)
		c.AF = MakeAF(op.AF, idx)
		if h.ShareAF && c.AF != nil {
			if h.afShared == nil {
				h.afShared = &astits.PacketAdaptationField{}
			}
			keepLen, keepStuff := h.afShared.Length, h.afShared.StuffingLength
			if h.afSharedFailed {
				// after a call that failed the caller sets its struct up again from scratch (what a failed call leaves in
				// it is not covered by any property); after a call that succeeded it relies on the library's bookkeeping
				keepLen, keepStuff = 0, 0
			}
			*h.afShared = *c.AF
			h.afShared.Length, h.afShared.StuffingLength = keepLen, keepStuff
			c.AF = h.afShared
		} else if !h.Tag && c.AF != nil {
			if h.afs == nil {
				h.afs = map[string]*astits.PacketAdaptationField{}
			}
			if prev, ok := h.afs[op.AF]; ok {
				c.AF = prev
			} else {
				h.afs[op.AF] = c.AF
			}
		}
		in, intact := callerSlice(c.Payload)
		c.N, c.Err = h.M.WriteData(&astits.MuxerData{PID: pid, AdaptationField: c.AF, PES: &astits.PESData{Data: in, Header: c.Hdr}})
		if !intact() {
			c.Err = errors.Join(c.Err, errPayloadMutated)
		}
		if h.ShareAF && c.AF != nil {
			h.afSharedFailed = c.Err != nil
		}
		// the caller's view of what it asked for (AF as given, before the Muxer touched it)
		c.AF = MakeAF(op.AF, idx)
	case "pkt":
		pk := MakePkt(op.Pkt)
		intact := func() bool { return true }
		if pk != nil && pk.Payload != nil {
			pk.Payload, intact = callerSlice(pk.Payload)
		}
		c.N, c.Err = h.M.WritePacket(pk)
		if !intact() {
			c.Err = errors.Join(c.Err, errPayloadMutated)
		}
	case "addmany":
		for i := 0; i < op.N; i++ {
			if err := h.M.AddElementaryStream(astits.PMTElementaryStream{ElementaryPID: uint16(0x400 + i), StreamType: astits.StreamTypeAACAudio}); err != nil {
				c.Err = err
			}
		}
	case "rmmany":
		for i := 0; i < op.N; i++ {
			if err := h.M.RemoveElementaryStream(uint16(0x400 + i)); err != nil {
				c.Err = err
			}
		}
	default:
		panic("unknown op " + op.K)
	}
	c.To = len(h.W.Buf)
	c.WTo = h.W.Writes
	h.Calls = append(h.Calls, c)
	return &h.Calls[len(h.Calls)-1]
}

var errPayloadMutated = errors.New("harness: the Muxer wrote into the caller's payload buffer (the payload bytes or the memory behind them)")

// callerSlice hands a payload over the way a zero-copy caller does: as a window of a larger buffer, with other
// data of the caller right behind it (len < cap). intact reports whether the window and what lies behind it are
// what they were.
func callerSlice(payload []byte) (in []byte, intact func() bool) {
	const behind = 256
	buf := make([]byte, len(payload)+behind)
	copy(buf, payload)
	for i := len(payload); i < len(buf); i++ {
		buf[i] = byte(0x30 + i%0x40)
	}
	snap := string(buf)
	return buf[:len(payload)], func() bool { return string(buf) == snap }
}

// muxPIDs reads the Muxer's current stream list through its own PMT output path is not
// possible without emitting; the stream list is read reflectively (read-only).
func muxPIDs(m *astits.Muxer) []uint16 { return reflectPIDs(m) }

// Packets decodes the byte range of call c with the reference decoder.
func (h *MuxH) Packets(c *MCall) (ps []*ref.Pkt, errs []error, rest int) {
	raw, r := ref.SplitPackets(h.W.Buf[c.From:c.To])
	for _, b := range raw {
		p, err := ref.DecodePkt(b)
		ps = append(ps, p)
		errs = append(errs, err)
	}
	return ps, errs, len(r)
}

// RunOps replays a whole history on a fresh Muxer.
func RunOps(period int, ops []MOp, seed int64) *MuxH {
	h := NewMuxH(period)
	for _, o := range ops {
		h.Do(o, seed)
	}
	return h
}
