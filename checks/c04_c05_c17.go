package checks

import "verif/mc"

func init() {
	register("C04", func(c *mc.Ctx) { muxProperty(c, "C04") })
	register("C05", func(c *mc.Ctx) { muxProperty(c, "C05") })
	register("C17", func(c *mc.Ctx) { muxProperty(c, "C17") })
}

func muxProperty(c *mc.Ctx, prop string) {
	c.Ev.Level = "model_checking"
	c.Ev.Rule = "explicit-state BFS over Muxer operation histories; every transition is executed on the real Muxer (fresh instance, history replayed) in lock-step with the reference model/monitor; a state is the canonical dump of the full concrete Muxer state plus monitor state; distinct_nontrivial = distinct states reached"
	c.Ev.Assumptions = append(c.Ev.Assumptions,
		"payload bytes never contain 0x00/0x01/0x47; PES headers carry a non-nil OptionalHeader",
		"WritePacket packets are caller-built and use PIDs the Muxer does not own (0x1fff, 0x300)",
		"failed WriteData calls may or may not count towards the retransmit period (both accepted)")
	for _, sc := range MuxScenarios(c.Thorough()) {
		ExploreMux(c, sc, prop)
	}
	if prop == "C17" || prop == "C05" {
		c17WriterFaults(c, prop)
		c.Ev.Require("table-write-refused")
	}
}
