package checks

import (
	astits "github.com/asticode/go-astits"
	"verif/ref"
)

// Conversions between the library's exported value carriers and the reference model values.
// They copy fields one to one; no layout knowledge lives here.

func toRefPCR(c *astits.ClockReference) *ref.PCR {
	if c == nil {
		return nil
	}
	return &ref.PCR{Base: uint64(c.Base), Ext: uint16(c.Extension)}
}

func fromRefPCR(p *ref.PCR) *astits.ClockReference {
	if p == nil {
		return nil
	}
	return &astits.ClockReference{Base: int64(p.Base), Extension: int64(p.Ext)}
}

// toRefAF maps a library adaptation field (as parsed or as handed to the writer) to the model.
// Representation-only fields (Length, IsOneByteStuffing) are mapped to the model's Zero/Len.
func toRefAF(a *astits.PacketAdaptationField) *ref.AF {
	if a == nil {
		return nil
	}
	r := &ref.AF{Disc: a.DiscontinuityIndicator, RAI: a.RandomAccessIndicator, ESPrio: a.ElementaryStreamPriorityIndicator,
		HasSplice: a.HasSplicingCountdown, HasPrivate: a.HasTransportPrivateData, Stuffing: a.StuffingLength, Len: a.Length}
	if a.IsOneByteStuffing {
		r.Zero = true
	}
	if a.HasPCR {
		r.PCR = toRefPCR(a.PCR)
	}
	if a.HasOPCR {
		r.OPCR = toRefPCR(a.OPCR)
	}
	if a.HasSplicingCountdown {
		r.Splice = uint8(a.SpliceCountdown)
	}
	if a.HasTransportPrivateData {
		r.Private = append([]byte{}, a.TransportPrivateData...)
	}
	if a.HasAdaptationExtensionField && a.AdaptationExtensionField != nil {
		e := a.AdaptationExtensionField
		x := &ref.AFExt{LTW: e.HasLegalTimeWindow, Piecewise: e.HasPiecewiseRate, Seamless: e.HasSeamlessSplice, Len: e.Length}
		if e.HasLegalTimeWindow {
			x.LTWValid, x.LTWOffset = e.LegalTimeWindowIsValid, e.LegalTimeWindowOffset
		}
		if e.HasPiecewiseRate {
			x.Rate = e.PiecewiseRate
		}
		if e.HasSeamlessSplice {
			x.Splice = e.SpliceType
			if e.DTSNextAccessUnit != nil {
				x.DTS = uint64(e.DTSNextAccessUnit.Base)
			}
		}
		r.Ext = x
	}
	return r
}

// fromRefAF builds the library struct a caller would fill in to have the model AF written.
func fromRefAF(r *ref.AF) *astits.PacketAdaptationField {
	if r == nil {
		return nil
	}
	if r.Zero {
		return &astits.PacketAdaptationField{IsOneByteStuffing: true}
	}
	a := &astits.PacketAdaptationField{DiscontinuityIndicator: r.Disc, RandomAccessIndicator: r.RAI, ElementaryStreamPriorityIndicator: r.ESPrio,
		HasPCR: r.PCR != nil, PCR: fromRefPCR(r.PCR), HasOPCR: r.OPCR != nil, OPCR: fromRefPCR(r.OPCR),
		HasSplicingCountdown: r.HasSplice, SpliceCountdown: int(r.Splice),
		HasTransportPrivateData: r.HasPrivate, TransportPrivateData: append([]byte{}, r.Private...), TransportPrivateDataLength: len(r.Private),
		StuffingLength: r.Stuffing}
	if e := r.Ext; e != nil {
		a.HasAdaptationExtensionField = true
		x := &astits.PacketAdaptationExtensionField{HasLegalTimeWindow: e.LTW, LegalTimeWindowIsValid: e.LTWValid, LegalTimeWindowOffset: e.LTWOffset,
			HasPiecewiseRate: e.Piecewise, PiecewiseRate: e.Rate, HasSeamlessSplice: e.Seamless, SpliceType: e.Splice}
		if e.Seamless {
			x.DTSNextAccessUnit = &astits.ClockReference{Base: int64(e.DTS)}
		}
		a.AdaptationExtensionField = x
	}
	return a
}

func toRefPkt(p *astits.Packet) *ref.Pkt {
	h := p.Header
	r := &ref.Pkt{TEI: h.TransportErrorIndicator, PUSI: h.PayloadUnitStartIndicator, Prio: h.TransportPriority, PID: h.PID,
		TSC: h.TransportScramblingControl, HasAF: h.HasAdaptationField, HasPL: h.HasPayload, CC: h.ContinuityCounter}
	if h.HasAdaptationField {
		r.AF = toRefAF(p.AdaptationField)
	}
	if h.HasPayload {
		r.Payload = append([]byte{}, p.Payload...)
	}
	return r
}

func fromRefPkt(r *ref.Pkt) *astits.Packet {
	p := &astits.Packet{Header: astits.PacketHeader{TransportErrorIndicator: r.TEI, PayloadUnitStartIndicator: r.PUSI, TransportPriority: r.Prio,
		PID: r.PID, TransportScramblingControl: r.TSC, HasAdaptationField: r.HasAF, HasPayload: r.HasPL, ContinuityCounter: r.CC}}
	if r.HasAF {
		p.AdaptationField = fromRefAF(r.AF)
	}
	if r.HasPL {
		p.Payload = append([]byte{}, r.Payload...)
	}
	return p
}

func u64p(c *astits.ClockReference) *uint64 {
	if c == nil {
		return nil
	}
	v := uint64(c.Base)
	return &v
}

// toRefPES maps a library PES header to the model (fields the model does not carry - the
// representation-only HeaderLength, MarkerBits, PackField - are dropped).
func toRefPES(h *astits.PESHeader, sid uint8) *ref.PESHdr {
	r := &ref.PESHdr{StreamID: sid}
	o := h.OptionalHeader
	if o == nil {
		return r
	}
	r.Scrambling, r.Priority, r.Alignment, r.Copyright, r.Original = o.ScramblingControl, o.Priority, o.DataAlignmentIndicator, o.IsCopyrighted, o.IsOriginal
	switch o.PTSDTSIndicator { // the values ISO 13818-1 assigns, not the library's names for them
	case 2:
		r.PTS = u64p(o.PTS)
	case 3:
		r.PTS, r.DTS = u64p(o.PTS), u64p(o.DTS)
	case 1: // forbidden value: nothing follows; a timestamp decoded nevertheless is shown
		r.Ind01 = true
		if o.PTS != nil {
			r.PTS = u64p(o.PTS)
		}
		if o.DTS != nil {
			r.DTS = u64p(o.DTS)
		}
	}
	if o.HasESCR {
		r.ESCR = toRefPCR(o.ESCR)
	}
	if o.HasESRate {
		v := o.ESRate
		r.ESRate = &v
	}
	if o.HasDSMTrickMode && o.DSMTrickMode != nil {
		t := o.DSMTrickMode
		r.Trick = &ref.Trick{Ctl: t.TrickModeControl, FieldID: t.FieldID, Intra: t.IntraSliceRefresh, FreqTrunc: t.FrequencyTruncation, Rep: t.RepeatControl}
	}
	if o.HasAdditionalCopyInfo {
		v := o.AdditionalCopyInfo
		r.CopyInfo = &v
	}
	if o.HasCRC {
		v := o.CRC
		r.CRC = &v
	}
	if o.HasExtension {
		e := &ref.PESExt{}
		if o.HasPrivateData {
			e.Private = append([]byte{}, o.PrivateData...)
		}
		e.HasPack = o.HasPackHeaderField
		if o.HasProgramPacketSequenceCounter {
			e.Seq = &ref.PESSeq{Counter: o.PacketSequenceCounter, MPEG1or2: o.MPEG1OrMPEG2ID, OrigStuff: o.OriginalStuffingLength}
		}
		if o.HasPSTDBuffer {
			e.PSTD = &ref.PSTD{Scale: o.PSTDBufferScale, Size: o.PSTDBufferSize}
		}
		if o.HasExtension2 {
			e.HasExt2 = true
			e.Ext2 = append([]byte{}, o.Extension2Data...)
		}
		r.Ext = e
	}
	return r
}

func crp(v *uint64) *astits.ClockReference {
	if v == nil {
		return nil
	}
	return &astits.ClockReference{Base: int64(*v)}
}

// fromRefPES builds the library struct a caller would fill in to have the model header written.
func fromRefPES(r *ref.PESHdr) *astits.PESHeader {
	h := &astits.PESHeader{StreamID: r.StreamID}
	if !ref.HasOptHeader(r.StreamID) {
		return h
	}
	o := &astits.PESOptionalHeader{MarkerBits: 2, ScramblingControl: r.Scrambling, Priority: r.Priority, DataAlignmentIndicator: r.Alignment, IsCopyrighted: r.Copyright, IsOriginal: r.Original}
	switch {
	case r.PTS != nil && r.DTS != nil:
		o.PTSDTSIndicator, o.PTS, o.DTS = astits.PTSDTSIndicatorBothPresent, crp(r.PTS), crp(r.DTS)
	case r.PTS != nil:
		o.PTSDTSIndicator, o.PTS = astits.PTSDTSIndicatorOnlyPTS, crp(r.PTS)
	}
	if r.ESCR != nil {
		o.HasESCR, o.ESCR = true, fromRefPCR(r.ESCR)
	}
	if r.ESRate != nil {
		o.HasESRate, o.ESRate = true, *r.ESRate
	}
	if r.Trick != nil {
		o.HasDSMTrickMode = true
		o.DSMTrickMode = &astits.DSMTrickMode{TrickModeControl: r.Trick.Ctl, FieldID: r.Trick.FieldID, IntraSliceRefresh: r.Trick.Intra, FrequencyTruncation: r.Trick.FreqTrunc, RepeatControl: r.Trick.Rep}
	}
	if r.CopyInfo != nil {
		o.HasAdditionalCopyInfo, o.AdditionalCopyInfo = true, *r.CopyInfo
	}
	if r.CRC != nil {
		o.HasCRC, o.CRC = true, *r.CRC
	}
	if e := r.Ext; e != nil {
		o.HasExtension = true
		if e.Private != nil {
			o.HasPrivateData, o.PrivateData = true, append([]byte{}, e.Private...)
		}
		o.HasPackHeaderField = e.HasPack
		if e.Seq != nil {
			o.HasProgramPacketSequenceCounter = true
			o.PacketSequenceCounter, o.MPEG1OrMPEG2ID, o.OriginalStuffingLength = e.Seq.Counter, e.Seq.MPEG1or2, e.Seq.OrigStuff
		}
		if e.PSTD != nil {
			o.HasPSTDBuffer, o.PSTDBufferScale, o.PSTDBufferSize = true, e.PSTD.Scale, e.PSTD.Size
		}
		if e.HasExt2 {
			o.HasExtension2, o.Extension2Data, o.Extension2Length = true, append([]byte{}, e.Ext2...), uint8(len(e.Ext2))
		}
	}
	h.OptionalHeader = o
	return h
}
