package checks

import "testing"

func TestStandardStreams(t *testing.T) {
	for _, s := range StandardStreams(1) {
		out := DemuxBytes(s.Bytes)
		if sig, msg := CompareOutput(s.Exp, out); sig != "" {
			t.Errorf("%s: %s: %s", s.Name, sig, msg)
		}
		t.Logf("%s: %d packets, %d data", s.Name, len(s.Pkts), len(out.Data))
	}
}
