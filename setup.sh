#!/bin/bash
# setup: build the checker once (hooks on) to warm the Go build cache; offline.
cd "$(dirname "$0")"
. ./env.sh
mkdir -p bin evidence replays
go build -tags verif -o bin/check ./cmd/check || go build -o bin/check ./cmd/check
