#!/bin/bash
# setup: build the checker once (hooks on) to warm the Go build cache; offline.
cd "$(dirname "$0")"
. ./env.sh
mkdir -p bin evidence replays
go build -tags verif -o bin/check ./cmd/check || go build -o bin/check ./cmd/check
# C16: warm the race-enabled build and the overlay build
go build -race -o bin/c16race ./cmd/c16race || true
mkdir -p bin/c16
python3 - <<'PY'
import json, re
src = open('/repo/pools.go').read()
new = re.sub(r'import\s+"sync"', 'import sync "github.com/asticode/go-astits/verifsync"', src)
open('/verif/bin/c16/pools_overlay.txt', 'w').write(new)
json.dump({"Replace": {"/repo/pools.go": "/verif/bin/c16/pools_overlay.txt", "/repo/verifsync/verifsync.go": "/verif/shim/verifsync.go"}}, open('/verif/bin/c16/overlay.json', 'w'))
PY
go build -overlay bin/c16/overlay.json -tags "verif c16shim" -o bin/c16sched ./cmd/c16 || true
